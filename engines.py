"""Engines: the same workload entry points built/run in different ways.

native    profile `verif` (opt-level 2, debug assertions + overflow checks on)
release   profile `release` (wrapping arithmetic, no debug assertions)
asan      nightly, -Zsanitizer=address, reduced workload, counting allocator compiled out
tsan      nightly, -Zsanitizer=thread -Zbuild-std, thread engine of C19
miri      cargo +nightly miri run, tiny workloads (UB / data race / deadlock interpreter)
memcheck  valgrind memcheck on the `verif` binary, reduced workload
dev0      profile `dev0`: the five library crates at opt-level 0 (as `cargo test` builds them), the rest optimised
b64feat   profile `verif` with the library's cargo features passkey-types/serialize_bytes_as_base64_string
          (the documented alternative build configuration: byte strings serialise as base64url text) and
          passkey-types/testable (test-support derives and constructors on public types)
"""
import json
import os
import subprocess

ROOT = os.path.dirname(os.path.abspath(__file__))
HARNESS = os.path.join(ROOT, "harness")
TRIPLE = "x86_64-unknown-linux-gnu"

# which engines run for which property in which tier (native always first)
ALL = ["C%02d" % i for i in range(1, 20)]
# Every check runs in both build profiles: `verif` (debug assertions and overflow checks on) and
# `release` (both off) - a side effect inside a debug_assert!, or arithmetic that only wraps silently,
# shows in one of them only.
THOROUGH_EXTRA = {p: ["release"] for p in ALL}
for p, more in {
    "C02": ["b64feat", "memcheck"],
    "C03": ["b64feat"],
    "C06": ["b64feat"],
    "C07": ["miri"],
    "C12": ["b64feat", "asan", "miri"],
    "C14": ["b64feat", "plain"],
    "C15": ["b64feat", "dev0", "asan", "miri"],
    "C16": ["miri"],
    "C18": ["asan"],
    "C19": ["tsan", "miri"],
}.items():
    THOROUGH_EXTRA[p] += more
QUICK_EXTRA = {p: ["release"] for p in ALL}
QUICK_EXTRA["C02"] += ["b64feat"]
QUICK_EXTRA["C03"] += ["b64feat"]
QUICK_EXTRA["C06"] += ["b64feat"]
QUICK_EXTRA["C12"] += ["b64feat"]
QUICK_EXTRA["C14"] += ["b64feat", "plain"]
QUICK_EXTRA["C15"] += ["b64feat", "dev0"]

_built = {}


def plan(prop, tier):
    extra = (THOROUGH_EXTRA if tier == "thorough" else QUICK_EXTRA).get(prop, [])
    only = os.environ.get("VDRIVE_ENGINES")
    engines = ["native"] + extra
    if only:
        engines = [e for e in engines if e in only.split(",")] or ["native"]
    return engines


def build_for(engine, build):
    if engine in _built:
        return _built[engine]
    if engine in ("native", "memcheck"):
        ok = build("verif")
        _built["native"] = _built["memcheck"] = ok
    elif engine == "release":
        ok = build("release")
    elif engine == "dev0":
        ok = build("dev0")
    elif engine == "b64feat":
        ok = build("verif", extra_env={"CARGO_TARGET_DIR": os.path.join(HARNESS, "target-b64")},
                   extra_args=["--features", "b64bytes,testable"])
    elif engine == "plain":
        # the small second harness (harness/plain): only the library crate and a feature-less serde_json
        ok = build("verif", extra_env={"CARGO_TARGET_DIR": os.path.join(HARNESS, "target-plain")},
                   extra_args=["--manifest-path", os.path.join(HARNESS, "plain", "Cargo.toml")])
    elif engine == "asan":
        ok = build("verif", toolchain="nightly",
                   extra_env={"RUSTFLAGS": "-Zsanitizer=address -Cforce-frame-pointers=yes",
                              "CARGO_TARGET_DIR": os.path.join(HARNESS, "target-asan")},
                   extra_args=["--target", TRIPLE, "--no-default-features"])
    elif engine == "tsan":
        ok = build("verif", toolchain="nightly",
                   extra_env={"RUSTFLAGS": "-Zsanitizer=thread",
                              "CARGO_TARGET_DIR": os.path.join(HARNESS, "target-tsan")},
                   extra_args=["--target", TRIPLE, "-Zbuild-std", "--no-default-features"])
    elif engine == "miri":
        ok = True  # miri builds as part of the run
    else:
        ok = False
    _built[engine] = ok
    return ok


def run_engine(engine, prop, tier, seed, out, extra, run_vdrive, exe_path, watchdog):
    extra = dict(extra)
    if engine == "native":
        return run_vdrive(exe_path("verif"), prop, tier, seed, out, extra, timeout=watchdog)
    if engine == "release":
        extra["engine"] = "release"
        return run_vdrive(exe_path("release"), prop, tier, seed, out, extra, timeout=watchdog)
    if engine == "dev0":
        extra["engine"] = "dev0"
        return run_vdrive(exe_path("dev0"), prop, tier, seed, out, extra, timeout=watchdog)
    if engine == "b64feat":
        extra["engine"] = "b64feat"
        return run_vdrive(exe_path("verif", "target-b64"), prop, tier, seed, out, extra, timeout=watchdog)
    if engine == "plain":
        extra["engine"] = "plain"
        return run_vdrive(os.path.join(os.path.dirname(exe_path("verif", "target-plain")), "vplain"), prop, tier, seed, out, extra, timeout=watchdog)
    if engine == "asan":
        extra["engine"] = "asan"
        extra.setdefault("scale", "10")
        env = {"ASAN_OPTIONS": "halt_on_error=1:abort_on_error=1:detect_leaks=1:allocator_may_return_null=1:max_allocation_size_mb=1024",
               "RUST_MIN_STACK": "8388608"}
        return run_vdrive(exe_path("verif", "target-asan", TRIPLE), prop, tier, seed, out, extra, env=env,
                          timeout=watchdog)
    if engine == "tsan":
        extra["engine"] = "tsan"
        extra.setdefault("scale", "20")
        env = {"TSAN_OPTIONS": "halt_on_error=1:exitcode=66"}
        summary, err, stderr = run_vdrive(exe_path("verif", "target-tsan", TRIPLE), prop, tier, seed, out, extra,
                                          env=env, timeout=watchdog)
        if summary is None and stderr and "ThreadSanitizer" in stderr:
            first = [l for l in stderr.splitlines() if "ThreadSanitizer" in l][:1]
            return ({"evaluations": 1, "distinct_nontrivial": 0, "violations": [
                {"signature": "ThreadSanitizer report: " + (first[0] if first else ""), "detail": stderr[-3000:],
                 "case": {"engine": "tsan"}}], "violation_signatures": [{"signature": "tsan", "count": 1}]}, None, stderr)
        return summary, err, stderr
    if engine == "memcheck":
        extra["engine"] = "memcheck"
        extra.setdefault("scale", "3")
        # --undef-value-errors=no: on optimised Rust code memcheck reports "conditional jump depends on
        # uninitialised value" for branches LLVM legitimately hoists over niche-encoded Options (seen in safe
        # code, Option::filter in get_assertion.rs); only addressability errors and definite leaks are judged
        wrapper = ["valgrind", "--tool=memcheck", "--error-exitcode=97", "--leak-check=full",
                   "--errors-for-leak-kinds=definite", "--undef-value-errors=no", "-q"]
        summary, err, stderr = run_vdrive(exe_path("verif"), prop, tier, seed, out, extra, timeout=watchdog,
                                          wrapper=wrapper)
        if stderr and "==" in stderr and ("Invalid " in stderr or "definitely lost" in stderr):
            lines = [l for l in stderr.splitlines() if l.startswith("==")][:30]
            v = {"signature": "valgrind memcheck report", "detail": "\n".join(lines), "case": {"engine": "memcheck"}}
            if summary is None:
                summary = {"evaluations": 1, "distinct_nontrivial": 0, "violations": [], "violation_signatures": []}
            summary.setdefault("violations", []).append(v)
            summary.setdefault("violation_signatures", []).append({"signature": v["signature"], "count": 1})
            err = None
        return summary, err, stderr
    if engine == "miri":
        return run_miri(prop, tier, seed, out, extra, watchdog)
    return None, f"unknown engine {engine}", ""


def run_miri(prop, tier, seed, out, extra, watchdog):
    """cargo +nightly miri run, sharded over processes (one miri run is single threaded)."""
    import concurrent.futures
    shards = int(extra.pop("shards", "8"))
    env = dict(os.environ)
    env.update({"CARGO_NET_OFFLINE": "true",
                "CARGO_TARGET_DIR": os.path.join(HARNESS, "target-miri"),
                "MIRIFLAGS": "-Zmiri-disable-isolation -Zmiri-ignore-leaks"})

    def one(k):
        o = f"{out}.shard{k}"
        if os.path.exists(o):
            os.remove(o)
        cmd = ["cargo", "+nightly", "miri", "run", "--offline", "--no-default-features", "--",
               prop.lower(), "--tier", tier, "--seed", str(seed), "--out", o, "--engine", "miri",
               "--shard", str(k), "--shards", str(shards)]
        for a, b in extra.items():
            cmd += ["--" + a, str(b)]
        try:
            p = subprocess.run(cmd, cwd=HARNESS, env=env, stdout=subprocess.PIPE, stderr=subprocess.PIPE,
                               text=True, timeout=watchdog)
        except subprocess.TimeoutExpired:
            return None, "miri shard exceeded the wall-clock watchdog", ""
        if os.path.exists(o):
            with open(o) as f:
                return json.load(f), None, p.stderr
        return None, f"miri shard {k} exit {p.returncode}", p.stderr

    # build once (first shard alone), then the rest in parallel
    results = [one(0)]
    with concurrent.futures.ThreadPoolExecutor(max_workers=min(16, max(1, shards - 1))) as ex:
        results += list(ex.map(one, range(1, shards)))
    merged = {"evaluations": 0, "distinct_nontrivial": 0, "violations": [], "violation_signatures": [],
              "counters": {}, "observations": {}, "inconclusive": [], "samples": []}
    errs = []
    for k, (s, err, stderr) in enumerate(results):
        if s is None:
            ub = [l for l in (stderr or "").splitlines() if l.startswith("error:")]
            if ub:
                v = {"signature": "miri: " + ub[0][:200], "detail": (stderr or "")[-3000:],
                     "case": {"engine": "miri", "shard": k, "shards": shards}}
                merged["violations"].append(v)
                merged["violation_signatures"].append({"signature": v["signature"], "count": 1})
            else:
                errs.append(err or "miri shard failed")
            continue
        merged["evaluations"] += s.get("evaluations", 0)
        merged["distinct_nontrivial"] += s.get("distinct_nontrivial", 0)
        merged["violations"] += s.get("violations", [])
        merged["violation_signatures"] += s.get("violation_signatures", [])
        merged["inconclusive"] += s.get("inconclusive", [])
        for a, b in s.get("counters", {}).items():
            merged["counters"][a] = merged["counters"].get(a, 0) + b
        merged["observations"].update(s.get("observations", {}))
    if errs and not merged["evaluations"] and not merged["violations"]:
        return None, "; ".join(errs[:3]), ""
    merged["inconclusive"] += errs
    return merged, None, ""
