#!/usr/bin/env python3
"""Own mutation sweep (complements the independently seeded changes under seeded/).

Each entry is a small textual replacement in the repository. `gen` applies each one in the scratch
worktree /tmp/own, keeps those that still compile and pass the unedited suite, and writes
seeded-own/<name>.diff. `run` applies each kept diff to MUTANT_REPO (default /repo), runs the quick
check of its property (`./check <id> --tier quick`), undoes it and writes seeded-own/RESULTS.json.
"""
import json
import os
import subprocess
import sys

ROOT = os.path.dirname(os.path.dirname(os.path.abspath(__file__)))
OWN = "/tmp/own"
OUT = os.path.join(ROOT, "seeded-own")
ENV = dict(os.environ, CARGO_NET_OFFLINE="true", CARGO_TERM_COLOR="never")

A = "passkey-authenticator/src/"
C = "passkey-client/src/"
T = "passkey-types/src/"
H = "passkey-transports/src/hid.rs"
P = "public-suffix/src/lib.rs"

M = [
    # ---------------- C01
    ("c01-drop-https", "C01", C + "lib.rs", 'if !(origin.scheme().eq_ignore_ascii_case("https")) {', 'if origin.scheme().is_empty() {'),
    ("c01-return-host", "C01", C + "lib.rs", "            effective_domain = rp_id;\n        }\n\n        // Guard against local host", "            let _ = rp_id;\n        }\n\n        // Guard against local host"),
    ("c01-android-skip-etld", "C01", C + "lib.rs", "        if decode_host(effective_rp_id)\n            .as_ref()\n            .and_then(|s| self.tld_provider.effective_tld_plus_one(s).ok())\n            .is_none()\n        {\n            return Err(WebauthnError::InvalidRpId);\n        }", "        if decode_host(effective_rp_id).is_none() {\n            return Err(WebauthnError::InvalidRpId);\n        }"),
    ("c01-invert-localhost", "C01", C + "lib.rs", "            return if self.allows_insecure_localhost {", "            return if !self.allows_insecure_localhost {"),
    ("c01-boundary-prefix-any", "C01", C + "lib.rs", "prefix.is_empty() || prefix.ends_with('.') || rp_id.starts_with('.')", "prefix.is_empty() || prefix.ends_with('.') || prefix.ends_with('-') || rp_id.starts_with('.')"),
    # ---------------- C02
    ("c02-challenge-base64", "C02", C + "lib.rs", "            ty: webauthn::ClientDataType::Create,\n            challenge: encoding::base64url(&request.challenge),", "            ty: webauthn::ClientDataType::Create,\n            challenge: encoding::base64(&request.challenge),"),
    ("c02-swap-public-private", "C02", A + "authenticator/make_credential.rs", "let CoseKeyPair { public, private } = CoseKeyPair::from_secret_key(&private_key, algorithm);", "let CoseKeyPair { public: private, private: public } = CoseKeyPair::from_secret_key(&private_key, algorithm);"),
    ("c02-last-supported-alg", "C02", A + "authenticator.rs", "            .iter()\n            .find(|param| self.algs.contains(&param.alg))", "            .iter()\n            .rev()\n            .find(|param| self.algs.contains(&param.alg))"),
    ("c02-unclamp-id-len", "C02", A + "authenticator.rs", "        let value = core::cmp::min(Self::MAX, value);", "        let value = core::cmp::min(u8::MAX, value);"),
    ("c02-hash-host-not-rpid", "C02", C + "lib.rs", "                rp: ctap2::make_credential::PublicKeyCredentialRpEntity {\n                    id: rp_id.to_owned(),", "                rp: ctap2::make_credential::PublicKeyCredentialRpEntity {\n                    id: match &origin { Origin::Web(u) => u.domain().unwrap_or(rp_id).to_owned(), #[cfg(feature = \"android-asset-validation\")] _ => rp_id.to_owned() },"),
    ("c02-skip-save", "C02", A + "authenticator/make_credential.rs", "        self.store_mut()\n            .save_credential(passkey, input.user.into(), input.rp, input.options)\n            .await?;", "        if input.options.rk {\n            self.store_mut()\n                .save_credential(passkey, input.user.into(), input.rp, input.options)\n                .await?;\n        }"),
    ("c02-authdata-copy-differs", "C02", C + "lib.rs", "                authenticator_data: ctap2_response.auth_data.to_vec().into(),\n                public_key,", "                authenticator_data: { let mut v = ctap2_response.auth_data.to_vec(); if v.len() > 200 { v[33] ^= 1; } v.into() },\n                public_key,"),
    # ---------------- C03
    ("c03-sign-hash-first", "C03", A + "authenticator/get_assertion.rs", "        let mut signature_target = auth_data.to_vec();\n        signature_target.extend(input.client_data_hash);", "        let mut signature_target = input.client_data_hash.to_vec();\n        signature_target.extend(auth_data.to_vec());"),
    ("c03-type-create", "C03", C + "lib.rs", "            ty: webauthn::ClientDataType::Get,", "            ty: webauthn::ClientDataType::Create,"),
    ("c03-no-map-nocredentials", "C03", C + "lib.rs", "            ctap2::StatusCode::Ctap2(ctap2::Ctap2Code::Known(ctap2::Ctap2Error::NoCredentials)) => {\n                WebauthnError::CredentialNotFound\n            }", "            ctap2::StatusCode::Ctap2(ctap2::Ctap2Code::Known(ctap2::Ctap2Error::NoCredentials)) => {\n                WebauthnError::AuthenticatorError(0x2E)\n            }"),
    ("c03-drop-user-handle", "C03", C + "lib.rs", "                user_handle: ctap2_response.user.map(|user| user.id),", "                user_handle: ctap2_response.user.map(|user| user.id).filter(|id| id.len() > 8),"),
    # ---------------- C04
    ("c04-no-up-refusal", "C04", A + "authenticator.rs", "        if options.up && !check_result.presence {\n            return Err(Ctap2Error::OperationDenied);\n        }", "        if options.up && !check_result.presence && !check_result.verification {\n            return Err(Ctap2Error::OperationDenied);\n        }"),
    ("c04-always-flags", "C04", A + "authenticator.rs", "        if check_result.verification {\n            flags |= Flags::UV;\n        }", "        if check_result.verification || options.uv {\n            flags |= Flags::UV;\n        }\n        if options.up {\n            flags |= Flags::UP;\n        }"),
    ("c04-nocred-before-consent", "C04", A + "authenticator/get_assertion.rs", "        if input.options.rk {\n            return Err(Ctap2Error::UnsupportedOption.into());\n        }", "        if input.options.rk {\n            return Err(Ctap2Error::UnsupportedOption.into());\n        }\n        if maybe_credential.is_err() && !input.options.uv {\n            return Err(Ctap2Error::NoCredentials.into());\n        }"),
    ("c04-exclude-before-consent", "C04", A + "authenticator/make_credential.rs", "        let flags = if input.options.up {\n            self.check_user(&input.options, None).await?\n        } else {\n            return Err(Ctap2Error::InvalidOption.into());\n        };", "        if let Some(list) = input.exclude_list.as_ref().filter(|l| !l.is_empty()) {\n            if let Ok(false) = self.store().find_credentials(Some(list), &input.rp.id).await.map(|c| c.is_empty()) {\n                return Err(Ctap2Error::CredentialExcluded.into());\n            }\n        }\n        let flags = if input.options.up {\n            self.check_user(&input.options, None).await?\n        } else {\n            return Err(Ctap2Error::InvalidOption.into());\n        };"),
    # ---------------- C05
    ("c05-always-none-list", "C05", A + "authenticator/get_assertion.rs", "                    .filter(|inner| !inner.is_empty()),\n                &input.rp_id,", "                    .filter(|inner| inner.len() > 1),\n                &input.rp_id,"),
    ("c05-take-last", "C05", A + "authenticator/get_assertion.rs", ".and_then(|c| c.into_iter().next().ok_or(Ctap2Error::NoCredentials.into()));", ".and_then(|c| c.into_iter().last().ok_or(Ctap2Error::NoCredentials.into()));"),
    ("c05-exclude-any-rp", "C05", A + "authenticator/make_credential.rs", "                .find_credentials(input.exclude_list.as_deref(), &input.rp.id)", "                .find_credentials(input.exclude_list.as_deref(), input.rp.name.as_deref().unwrap_or(&input.rp.id))"),
    # ---------------- C06
    ("c06-debug-key", "C06", T + "passkey.rs", '            .field("counter", &self.counter)\n            .finish()', '            .field("counter", &self.counter)\n            .field("key", &self.key)\n            .finish()'),
    ("c06-u2f-appends-scalar", "C06", A + "u2f.rs", "        let attestation_certificate = Vec::new();", "        let attestation_certificate = signing_key.to_bytes().to_vec();"),
    # ---------------- C07
    ("c07-ignore-save-error", "C07", A + "authenticator/make_credential.rs", "            .save_credential(passkey, input.user.into(), input.rp, input.options)\n            .await?;", "            .save_credential(passkey, input.user.into(), input.rp, input.options)\n            .await\n            .or_else(|e| if u8::from(e) == 0x28 { Ok(()) } else { Err(StatusCode::from(0x7f)) })?;"),
    ("c07-counter-after-sign", "C07", A + "authenticator/get_assertion.rs", "            self.store_mut()\n                .update_credential(credential.clone())\n                .await?;\n        }", "        }\n        let counter_update = credential.counter.is_some();"),
    # ---------------- C08
    ("c08-plus-two", "C08", A + "authenticator/get_assertion.rs", "credential.counter = Some(counter.saturating_add(1));", "credential.counter = Some(counter.saturating_add(if counter == 0x7FFF_FFFF { 2 } else { 1 }));"),
    ("c08-report-old", "C08", A + "authenticator/get_assertion.rs", "        let auth_data = AuthenticatorData::new(&input.rp_id, credential.counter)\n            .set_flags(flags)\n            .set_assertion_extensions(extensions.signed)?;", "        let auth_data = AuthenticatorData::new(&input.rp_id, credential.counter.map(|c| c.saturating_sub(u32::from(extensions.unsigned.is_some()))))\n            .set_flags(flags)\n            .set_assertion_extensions(extensions.signed)?;"),
    ("c08-wrapping", "C08", A + "authenticator/get_assertion.rs", "counter.saturating_add(1)", "counter.wrapping_add(1)"),
    # ---------------- C09
    ("c09-salt-no-separator", "C09", C + "extensions/prf.rs", "            .chain(std::iter::once(&0x0))\n", "            .chain(std::iter::once(&0x0).filter(|_| prf_value.len() != 31))\n"),
    ("c09-invert-uv", "C09", A + "authenticator/extensions/hmac_secret.rs", "    let cred_random = if uv {\n        &hmac_creds.cred_with_uv", "    let cred_random = if uv || hmac_creds.cred_without_uv.is_none() {\n        &hmac_creds.cred_with_uv"),
    ("c09-eval-wins", "C09", A + "authenticator/extensions/hmac_secret.rs", "    if let Some(eval_by_cred) = request.eval_by_credential {", "    if let (Some(eval_by_cred), None) = (request.eval_by_credential, request.eval.as_ref()) {"),
    ("c09-enabled-always", "C09", A + "authenticator/extensions/hmac_secret.rs", "            return Ok(Some(AuthenticatorPrfMakeOutputs {\n                enabled: false,", "            return Ok(Some(AuthenticatorPrfMakeOutputs {\n                enabled: true,"),
    ("c09-second-salt-first", "C09", A + "authenticator/extensions/hmac_secret.rs", "            .then(|| hmac_sha256(cred_random, salt2))", "            .then(|| hmac_sha256(cred_random, if uv { salt2 } else { salts.first() }))"),
    # ---------------- C10
    ("c10-ignore-wildcard", "C10", P, "            wildcard = (u & ((1 << T::CHILDREN_BITS_WILDCARD) - 1)) != 0;", "            wildcard = (u & ((1 << T::CHILDREN_BITS_WILDCARD) - 1)) != 0 && s.len() != 7;"),
    ("c10-exception-off-by-one", "C10", P, "                    suffix = (1 + s.len())..;", "                    suffix = (s.len())..;"),
    ("c10-drop-empty-label", "C10", P, "        if domain.starts_with('.') || domain.ends_with('.') || domain.contains(\"..\") {\n            return Err(Error::EmptyLabel);", "        if domain.starts_with('.') || domain.ends_with('.') {\n            return Err(Error::EmptyLabel);"),
    # ---------------- C11
    ("c11-preferred-true", "C11", C + "lib.rs", "            } => supports_rk,", "            } => true,"),
    ("c11-always-user-handle", "C11", A + "authenticator/make_credential.rs", "            user_handle: is_passkey_rk.then(|| input.user.id.clone()),", "            user_handle: (is_passkey_rk || input.options.uv).then(|| input.user.id.clone()),"),
    ("c11-credprops-rk", "C11", C + "extensions.rs", "            let discoverable = store_info.discoverability.is_passkey_discoverable(rk);", "            let discoverable = rk || store_info.discoverability.is_passkey_discoverable(rk);"),
    # ---------------- C12
    ("c12-le-id-length", "C12", T + "ctap2/attestation_fmt.rs", "                u16::try_from(self.credential_id.len())\n                    .unwrap()\n                    .to_be_bytes(),", "                u16::try_from(self.credential_id.len())\n                    .unwrap()\n                    .to_le_bytes(),"),
    ("c12-accept-36", "C12", T + "ctap2/attestation_fmt.rs", "        if v.len() < 37 {", "        if v.len() < 36 {"),
    ("c12-reserved-bits", "C12", T + "ctap2/attestation_fmt.rs", "            Flags::from_bits(flag_byte[0]).ok_or(coset::CoseError::OutOfRangeIntegerValue)?;", "            Flags::from_bits_truncate(flag_byte[0]);"),
    ("c12-forget-ed", "C12", T + "ctap2/attestation_fmt.rs", "            Some(Value::serialized(&ext).map_err(|_| Ctap2Error::CborUnexpectedType)?);\n\n        Ok(self.set_flags(Flags::ED))\n    }\n\n    /// Set assertion", "            Some(Value::serialized(&ext).map_err(|_| Ctap2Error::CborUnexpectedType)?);\n\n        Ok(self)\n    }\n\n    /// Set assertion"),
    # ---------------- C13
    ("c13-swap-keys", "C13", T + "ctap2/get_assertion.rs", "        #[serde(rename = 0x06, default, skip_serializing_if = Option::is_none)]\n        pub user_selected: Option<bool>,\n\n        /// The contents of the associated `largeBlobKey` if present for the asserted credential,\n        /// and if `largeBlobKey` was true in the extensions input.\n        ///\n        /// This extension is currently unsupported by this library.\n        #[serde(rename = 0x07,", "        #[serde(rename = 0x07, default, skip_serializing_if = Option::is_none)]\n        pub user_selected: Option<bool>,\n\n        /// The contents of the associated `largeBlobKey` if present for the asserted credential,\n        /// and if `largeBlobKey` was true in the extensions input.\n        ///\n        /// This extension is currently unsupported by this library.\n        #[serde(rename = 0x06,"),
    ("c13-up-default-false", "C13", T + "ctap2/make_credential.rs", "    #[serde(default = \"default_true\")]\n    pub up: bool,", "    #[serde(default)]\n    pub up: bool,"),
    ("c13-status-overlap", "C13", T + "ctap2/error.rs", "            0xE0..=0xEF => Ok(Self(value)),", "            0xDF..=0xEF => Ok(Self(value.max(0xE0))),"),
    # ---------------- C14
    ("c14-no-base64-fallback", "C14", T + "utils/bytes.rs", "            .or_else(|| encoding::try_from_base64(value))\n", "            .or_else(|| encoding::try_from_base64(value).filter(|v| v.len() != 33))\n"),
    ("c14-cross-origin-last", "C14", T + "webauthn/attestation.rs", "    #[serde(default, serialize_with = \"truthiness\")]\n    pub cross_origin: Option<bool>,\n\n", "\n"),
    ("c14-strict-attestation", "C14", T + "webauthn/assertion.rs", "    #[serde(default, deserialize_with = \"ignore_unknown\")]\n    pub attestation: AttestationConveyancePreference,", "    #[serde(default)]\n    pub attestation: AttestationConveyancePreference,"),
    # ---------------- C16
    ("c16-seq-from-one", "C16", H, "                                    seq: seq.try_into().unwrap(),", "                                    seq: (seq + usize::from(self.payload_len > 7000)).try_into().unwrap(),"),
    ("c16-le-length", "C16", H, "        buf[5..7].copy_from_slice(&u16::try_from(self.payload_len).unwrap().to_be_bytes())", "        buf[5..7].copy_from_slice(&u16::try_from(self.payload_len).unwrap().to_le_bytes())"),
    ("c16-raise-limit", "C16", H, "        if rest > 0 && rest / ContHeader::MAX_PAYLOAD_SIZE + 1 > 128 {", "        if rest > 0 && rest / ContHeader::MAX_PAYLOAD_SIZE + 1 > 129 {"),
    # ---------------- C17
    ("c17-reorder-sig-base", "C17", A + "u2f.rs", "            .chain(request.application) // 2. application parameter\n            .chain(request.challenge) // 3. challenge parameter", "            .chain(request.challenge) // 3. challenge parameter\n            .chain(request.application) // 2. application parameter"),
    ("c17-le-counter", "C17", T + "u2f/authenticate.rs", "            .chain(self.counter.to_be_bytes())", "            .chain(self.counter.to_le_bytes())"),
    ("c17-wrong-status", "C17", T + "u2f/version.rs", "ResponseStatusWords::NoError.as_primitive().to_be_bytes()", "ResponseStatusWords::NoError.as_primitive().to_le_bytes()"),
    # ---------------- C18
    ("c18-make-default-options", "C18", A + "ctap2.rs", "        self.make_credential(request).await", "        let mut request = request;\n        request.options.rk = false;\n        self.make_credential(request).await"),
    # ---------------- C19
    ("c19-wrapper-drops-update", "C19", A + "credential_store.rs", "    async fn update_credential(&mut self, cred: Passkey) -> Result<(), StatusCode> {\n        self.write().await.update_credential(cred).await\n    }\n\n    async fn get_info(&self) -> StoreInfo {\n        self.read().await.get_info().await\n    }\n}\n\n#[cfg(any(feature = \"tokio\", test))]\n#[async_trait::async_trait]\nimpl<S: CredentialStore<PasskeyItem = Passkey> + Send + Sync> CredentialStore\n    for tokio::sync::Mutex<S>", "    async fn update_credential(&mut self, cred: Passkey) -> Result<(), StatusCode> {\n        match self.try_write() {\n            Ok(mut g) => g.update_credential(cred).await,\n            Err(_) => Ok(()),\n        }\n    }\n\n    async fn get_info(&self) -> StoreInfo {\n        self.read().await.get_info().await\n    }\n}\n\n#[cfg(any(feature = \"tokio\", test))]\n#[async_trait::async_trait]\nimpl<S: CredentialStore<PasskeyItem = Passkey> + Send + Sync> CredentialStore\n    for tokio::sync::Mutex<S>"),
]

M += [
    # ---------------- second sweep
    ("c02-id-not-random", "C02", A + "authenticator/make_credential.rs", "let credential_id = passkey_types::rand::random_vec(self.credential_id_length.into());", "let credential_id = { let n: usize = self.credential_id_length.into(); let mut v = passkey_types::crypto::sha256(&input.user.id).to_vec(); v.extend(passkey_types::crypto::sha256(input.rp.id.as_bytes())); v.truncate(n); v };"),
    ("c02-rpid-lowercase-store", "C02", A + "authenticator/make_credential.rs", "            rp_id: input.rp.id.clone(),", "            rp_id: input.rp.id.trim_start_matches(\"www.\").to_owned(),"),
    ("c02-origin-from-rpid", "C02", C + "lib.rs", "            ty: webauthn::ClientDataType::Create,\n            challenge: encoding::base64url(&request.challenge),\n            origin: origin.to_string(),", "            ty: webauthn::ClientDataType::Create,\n            challenge: encoding::base64url(&request.challenge),\n            origin: if request.rp.id.is_some() { format!(\"https://{rp_id}\") } else { origin.to_string() },"),
    ("c03-origin-from-rpid", "C03", C + "lib.rs", "            ty: webauthn::ClientDataType::Get,\n            challenge: encoding::base64url(&request.challenge),\n            origin: origin.to_string(),", "            ty: webauthn::ClientDataType::Get,\n            challenge: encoding::base64url(&request.challenge),\n            origin: format!(\"https://{rp_id}\"),"),
    ("c03-rpidhash-of-host", "C03", C + "lib.rs", "            .get_assertion(ctap2::get_assertion::Request {\n                rp_id: rp_id.to_owned(),", "            .get_assertion(ctap2::get_assertion::Request {\n                rp_id: rp_id.trim_start_matches(\"login.\").to_owned(),"),
    ("c04-uv-cap-any-some", "C04", A + "authenticator.rs", "        if options.uv && self.user_validation.is_verification_enabled() != Some(true) {", "        if options.uv && self.user_validation.is_verification_enabled().is_none() && !options.rk {"),
    ("c05-memorystore-all-on-ids", "C05", A + "credential_store.rs", "            .filter_map(|id| self.get(&*id.id))\n            .cloned()\n            .collect();", "            .filter_map(|id| self.get(&*id.id))\n            .chain(self.values().take(usize::from(allow_credentials.is_some_and(|l| l.len() > 1))))\n            .cloned()\n            .collect();"),
    ("c07-two-phase-save", "C07", A + "authenticator/make_credential.rs", "        self.store_mut()\n            .save_credential(passkey, input.user.into(), input.rp, input.options)\n            .await?;", "        let mut first = passkey.clone();\n        first.extensions = Default::default();\n        let ext_present = passkey.extensions.hmac_secret.is_some();\n        self.store_mut()\n            .save_credential(first, input.user.into(), input.rp, input.options)\n            .await?;\n        if ext_present {\n            self.store_mut().update_credential(passkey).await?;\n        }"),
    ("c12-le-counter", "C12", T + "ctap2/attestation_fmt.rs", "            .chain(self.counter.unwrap_or_default().to_be_bytes())", "            .chain(self.counter.unwrap_or_default().to_le_bytes())"),
    ("c12-no-at-flag", "C12", T + "ctap2/attestation_fmt.rs", "        let flags = if self.attested_credential_data.is_some() {\n            self.flags | Flags::AT\n        } else {\n            self.flags\n        };", "        let flags = self.flags;"),
    ("c12-decode-counter-le", "C12", T + "ctap2/attestation_fmt.rs", "            counter: Some(u32::from_be_bytes(counter.try_into().unwrap())),", "            counter: Some(u32::from_le_bytes(counter.try_into().unwrap())),"),
    ("c13-getinfo-swap-5-6", "C13", T + "ctap2/get_info.rs", "        #[serde(rename = 0x05, default, skip_serializing_if = Option::is_none)]", "        #[serde(rename = 0x07, default, skip_serializing_if = Option::is_none)]"),
    ("c13-null-for-absent", "C13", T + "ctap2/make_credential.rs", "        #[serde(rename = 0x04, default, skip_serializing_if = Option::is_none)]\n        pub ep_att: Option<bool>,", "        #[serde(rename = 0x04, default)]\n        pub ep_att: Option<bool>,"),
    ("c13-known-key-as-unknown", "C13", T + "utils/serde_workaround.rs", "                    Ok(Ident::from_repr(value).unwrap_or(Ident::Unknown))", "                    Ok(Ident::from_repr(value).filter(|_| value != 200).unwrap_or(Ident::Unknown))"),
    ("c13-text-key-error", "C13", T + "utils/serde_workaround.rs", "                    Ok(Ident::try_from(value).unwrap_or(Ident::Unknown))\n                }\n                fn visit_bytes", "                    if value.is_empty() { return Err(E::custom(\"empty key\")); }\n                    Ok(Ident::try_from(value).unwrap_or(Ident::Unknown))\n                }\n                fn visit_bytes"),
    ("c14-padded-base64url", "C14", T + "utils/encoding.rs", "pub fn base64url(data: &[u8]) -> String {\n    BASE64URL_NOPAD.encode(data)", "pub fn base64url(data: &[u8]) -> String {\n    if data.len() == 65 { return BASE64URL.encode(data); }\n    BASE64URL_NOPAD.encode(data)"),
    ("c14-timeout-float-trunc", "C14", T + "utils/serde.rs", "        self.visit_i64(if v.is_normal() { v as i64 } else { 0 })", "        self.visit_i64(if v.is_normal() && v < 4.0e9 { v as i64 } else { 0 })"),
    ("c16-shared-slot", "C16", H, "                    let _ = self.channels.insert(channel, message);", "                    let _ = self.channels.insert(channel & 0x7fff_ffff, message);"),
    ("c16-no-tail-zero", "C16", H, "                buf[data_len..].iter_mut().for_each(|b| *b = 0);", "                buf[data_len..].iter_mut().skip(1).for_each(|b| *b = 0);"),
    ("c17-status-in-register", "C17", T + "u2f/register.rs", "            .chain(ResponseStatusWords::NoError.as_primitive().to_be_bytes()) // NoError indicates success", "            .chain(ResponseStatusWords::NoError.as_primitive().to_le_bytes()) // NoError indicates success"),
    ("c17-handle-len-trunc", "C17", T + "u2f/register.rs", "            .chain([self.key_handle.len() as u8])", "            .chain([(self.key_handle.len() as u8) & 0x7f])"),
    ("c17-parse-p1-dropped", "C17", T + "u2f/commands.rs", "        let p1 = value[2];", "        let p1 = value[2] & 0x0f;"),
    ("c18-getinfo-transports", "C18", A + "ctap2.rs", "    async fn get_info(&self) -> get_info::Response {\n        self.get_info().await\n    }", "    async fn get_info(&self) -> get_info::Response {\n        let mut r = self.get_info().await;\n        r.transports = None;\n        r\n    }"),
    ("c19-mutex-save-trylock", "C19", A + "credential_store.rs", "        self.lock()\n            .await\n            .save_credential(cred, user, rp, options)\n            .await\n    }\n\n    async fn update_credential(&mut self, cred: Passkey) -> Result<(), StatusCode> {\n        self.lock().await.update_credential(cred).await\n    }\n\n    async fn get_info(&self) -> StoreInfo {\n        self.lock().await.get_info().await\n    }\n}\n\n#[cfg(any(feature = \"tokio\", test))]\n#[async_trait::async_trait]\nimpl<S: CredentialStore<PasskeyItem = Passkey> + Send + Sync> CredentialStore\n    for Arc<tokio::sync::RwLock<S>>", "        match self.try_lock() {\n            Ok(mut g) => g.save_credential(cred, user, rp, options).await,\n            Err(_) => Ok(()),\n        }\n    }\n\n    async fn update_credential(&mut self, cred: Passkey) -> Result<(), StatusCode> {\n        self.lock().await.update_credential(cred).await\n    }\n\n    async fn get_info(&self) -> StoreInfo {\n        self.lock().await.get_info().await\n    }\n}\n\n#[cfg(any(feature = \"tokio\", test))]\n#[async_trait::async_trait]\nimpl<S: CredentialStore<PasskeyItem = Passkey> + Send + Sync> CredentialStore\n    for Arc<tokio::sync::RwLock<S>>"),
]


def sh(cmd, cwd, timeout=3600):
    p = subprocess.run(cmd, cwd=cwd, shell=True, env=ENV, stdout=subprocess.PIPE, stderr=subprocess.STDOUT, text=True, timeout=timeout)
    return p.returncode, p.stdout


def gen():
    os.makedirs(OUT, exist_ok=True)
    kept = []
    if os.path.exists(os.path.join(OUT, "KEPT.json")):
        kept = json.load(open(os.path.join(OUT, "KEPT.json")))
    for name, prop, path, old, new in M:
        if os.path.exists(os.path.join(OUT, name + ".diff")) or os.path.exists(os.path.join(OUT, name + ".dropped")):
            continue
        sh("git checkout -- .", OWN)
        full = os.path.join(OWN, path)
        src = open(full).read()
        if src.count(old) != 1:
            print(f"{name}: anchor found {src.count(old)} times - skipped")
            continue
        open(full, "w").write(src.replace(old, new))
        rc, o = sh("cargo test --workspace --no-fail-fast --offline 2>&1 | grep -E '^test result|^error' ", OWN)
        import re
        passed = sum(int(x) for x in re.findall(r"ok\. (\d+) passed", o))
        failed = re.search(r"[1-9]\d* failed", o) is not None or re.search(r"^error", o, re.M) is not None
        rc2, o2 = sh("cargo check --offline -p passkey-client --features tokio,android-asset-validation 2>&1 | grep -E '^error' ", OWN)
        if failed or passed < 98 or o2.strip():
            print(f"{name}: does not survive the suite / build (passed={passed}, failed={failed}) - dropped")
            open(os.path.join(OUT, name + ".dropped"), "w").write(o[-2000:] + o2[-2000:])
            continue
        rc, diff = sh("git diff", OWN)
        open(os.path.join(OUT, name + ".diff"), "w").write(diff)
        kept.append({"name": name, "property": prop})
        print(f"{name}: kept")
    sh("git checkout -- .", OWN)
    json.dump(kept, open(os.path.join(OUT, "KEPT.json"), "w"), indent=1)


def run():
    repo = os.environ.get("MUTANT_REPO", "/repo")
    kept = json.load(open(os.path.join(OUT, "KEPT.json")))
    results = json.load(open(os.path.join(OUT, "RESULTS.json"))) if os.path.exists(os.path.join(OUT, "RESULTS.json")) else {}
    only = sys.argv[2:]
    for k in kept:
        if (only and k["name"] not in only) or (not only and k["name"] in results):
            continue
        rc, o = sh("git status --porcelain", repo)
        assert not o.strip(), o
        rc, o = sh(f"git apply {OUT}/{k['name']}.diff", repo)
        if rc != 0:
            print(k["name"], "does not apply", o)
            continue
        try:
            rc, o = sh(f"VDRIVE_ENGINES=native ./check {k['property']} --tier quick", os.environ.get("MUTANT_VERIF", ROOT))
            sigs = [l.strip()[:200] for l in o.splitlines() if l.strip().startswith("violated:")]
            results[k["name"]] = {"property": k["property"], "exit": rc, "violations": sigs[:3]}
            print(f"{k['name']:32s} {k['property']} exit={rc} {sigs[0][:120] if sigs else ''}", flush=True)
        finally:
            sh("git checkout -- .", repo)
    json.dump(results, open(os.path.join(OUT, "RESULTS.json"), "w"), indent=1)


if __name__ == "__main__":
    {"gen": gen, "run": run}[sys.argv[1]]()
