#!/usr/bin/env python3
"""Regenerate /verif/MANIFEST.json from the table below. Run after adding/removing a check."""
import json
import os

ROOT = os.path.dirname(os.path.dirname(os.path.abspath(__file__)))

TB = ("Trusted base: rustc, the third-party crates used as reference (sha2, hmac, p256, ciborium, serde_json, url, "
      "idna, tokio sync) and the harness itself. Verdict covers the executions produced; key material and credential "
      "ids are drawn by the library from thread_rng and are not seeded.")

CHECKS = {
    # id: (level, technique, text, design_ref, has_thorough)
    "C01": ("exploration", "reference-predicate monitor over generated (origin, RP ID) pairs incl. every PSL rule; call-log monitor at client level",
            "Every generated pair is judged by a reference predicate written from the statement (label-boundary suffix, https, registrable under the reference PSL algorithm over the .dat file, localhost gate); a sample is driven end-to-end through Client::register/authenticate with instrumented store/UV so that a rejected pair reaching the authenticator is observed.", "§4 C01"),
    "C02": ("exploration", "independent re-parse/verification oracle over registration histories with instrumented store",
            "Every successful registration is re-parsed with generic JSON/CBOR parsers and an own authenticator-data decoder, the key is checked as COSE/DER/P-256 point and against the stored private scalar, and the store delta is checked to be exactly one matching record.", "§4 C02"),
    "C03": ("exploration", "history monitor: ECDSA verification against keys registered earlier in the same history",
            "Assertions produced in seeded register/authenticate histories over several RPs are verified with p256 directly under the public key returned at registration; client data, rpIdHash, flags, ids and user handle are checked against a model built from earlier outputs.", "§4 C03"),
    "C04": ("exploration", "complete enumeration of the consent product with ordered call-log invariants",
            "The finite product operation x options x capabilities x UV outcome x pin-auth x store content is executed completely on every run; invariants over the totally ordered event log (consent before store mutation/success, truthful flags, store untouched and outcome independent of store content while consent is missing, shown credential = signing credential).", "§4 C04"),
    "C05": ("exploration", "model-store monitor (authenticator over reference store) + differential monitor of shipped stores",
            "(a) the authenticator over a contract-conforming store is checked against the model for RP binding, allow/exclude lists and find arguments; (b) shipped stores and their lock wrappers are compared with the model on generated contents and queries.", "§4 C05"),
    "C06": ("exploration", "taint scan of every returned value (CBOR/JSON/Debug, recursively decoded) for stored secrets",
            "Secrets are read back from the store after each ceremony and searched for, in raw/hex/decimal-list/base64/base64url form, in every rendering of every value handed back.", "§4 C06"),
    "C07": ("fault_enumeration", "fault injection at every store call and cancellation at every suspension point, snapshot diff + ordering monitor",
            "For each request shape, every store call of the ceremony is failed (singly with a set of status bytes, in pairs) and the ceremony is cancelled after every possible number of resumptions; store snapshots and the event log are checked against the statement.", "§4 C07"),
    "C08": ("exploration", "per-credential shadow counter over assertion histories, crash-isolated, both arithmetic profiles",
            "Histories of assertions over several credentials with boundary start values run in crash-isolating workers in the overflow-checking and the wrapping build; reported counters are compared with a shadow counter and the store after every step.", "§4 C08"),
    "C09": ("exploration", "independent HMAC-SHA-256 oracle over PRF configurations x verification x input shapes",
            "Every PRF output is recomputed with hmac/sha2 directly from the secrets read back from the store; enabled flag, capability gating and malformed-request rejection (no collaborator call) are checked on the event log.", "§4 C09"),
    "C10": ("exploration", "differential monitor: compiled table vs reference PSL algorithm over the shipped .dat, all rules",
            "Every rule of the shipped list (exhaustive) in several extensions plus arbitrary strings is looked up in the compiled table and compared with the publicsuffix.org algorithm run over the .dat file; structural clauses for all strings; one provider object shared by 8-16 threads and a second Table implementation used in the same process are compared with fresh-object / list-algorithm answers.", "§4 C10"),
    "C11": ("exploration", "complete enumeration of the discoverability product with instrumented store",
            "The full product capability x residentKey x requireResidentKey x credProps x CTAP rk is executed (plus U2F registrations under each capability); rk seen by the store, stored user handle, credProps and later assertion user handle are compared with tables written from the specs.", "§4 C11"),
    "C12": ("exploration", "own encoder/decoder as oracle; truncation and single-byte corruption sweeps",
            "to_vec is compared byte-for-byte with an own encoder, from_slice with an own decoder's accept/reject classes, over generated values and all truncations / corruptions of valid encodings; the serde (CBOR) encoding of every value is a byte string of exactly those bytes and reads back equal, in the default build and in the build with serialize_bytes_as_base64_string.", "§4 C12"),
    "C13": ("exploration", "generic-CBOR-parser oracle over generated CTAP2 messages; key injection; all 256 status bytes",
            "Serialisations are parsed with ciborium Value and compared with key tables written from the CTAP spec; round trips, unknown/duplicate/missing keys, defaults, and the complete status-byte space (in isolation and end-to-end through the client).", "§4 C13"),
    "C14": ("exploration", "presentation-variant differential monitor over generated WebAuthn JSON",
            "Each generated options document is rendered in every presentation of its binary/numeric/enum members and with unknown members, parsed, and compared with the canonical presentation; emitted credentials are re-parsed; client-data key order is checked.", "§4 C14"),
    "C15": ("exploration", "crash-isolating workers with counting allocator and CPU clock over structure-aware mutations; ASan/Miri in thorough",
            "Every public decoder is fed mutated valid encodings and random input in isolated worker processes that measure panics, aborts, stack overflow, largest allocation request, peak live bytes and thread CPU time per input.", "§4 C15"),
    "C16": ("exploration", "own packet parser + exactly-once accounting per channel over all lengths and channel interleavings",
            "Bytes written by Message::send are parsed by an own parser against the CTAPHID layout; handle_packet return values are accounted per channel (exactly once, on the last packet) for all payload lengths, for exhaustive/sampled merges of several channels, for dozens of channels at once, through buffering and faulty writers, and with injected delays between packets.", "§4 C16"),
    "C17": ("exploration", "p256 verification + own raw-format encoders/parsers over U2F histories",
            "Registration/authentication signatures are verified with p256 directly over the byte strings the U2F spec prescribes; encode() is compared with an own encoder; generated request frames are parsed back.", "§4 C17"),
    "C18": ("exploration", "differential monitor (trait route vs direct method) in crash-isolating workers",
            "Each generated request is executed on two identically prepared authenticators, once through Ctap2Api and once directly, in isolated workers (stack overflow / CPU budget); results and store effects are compared.", "§4 C18"),
    "C19": ("exploration", "exhaustive poll-order scheduler (DFS) + thread stress; TSan and Miri in thorough; offline history checker",
            "All poll orders of two concurrent ceremonies (sampled for three) over the real lock wrappers are executed with a controllable executor whose only choice points are the program's own suspension points; histories are checked offline for duplicate counters, lost credentials and deadlock.", "§4 C19"),
}

NOT_YET = "check not built yet in this session (under construction); see DESIGN.md §4"


def main():
    built = [l.strip() for l in open(os.path.join(ROOT, "tools", "built.txt")) if l.strip()] \
        if os.path.exists(os.path.join(ROOT, "tools", "built.txt")) else []
    checks = []
    na = []
    for pid in sorted(CHECKS):
        level, tech, text, ref = CHECKS[pid]
        if pid not in built:
            na.append({"property_id": pid, "reason": NOT_YET})
            continue
        checks.append({
            "property_id": pid,
            "quick_cmd": f"./check {pid} --tier quick",
            "thorough_cmd": f"./check {pid} --tier thorough",
            "evidence_file": f"/verif/evidence/{pid}.json",
            "replay_cmd_template": f"./check {pid} --replay {{path}}",
            "engine": "vdrive",
            "level_claimed": {"category": level, "text": text, "design_ref": ref},
            "level_note": TB,
            "technique": "runtime monitoring: " + tech,
        })
    m = {
        "version": 1,
        "setup_cmd": "cd /verif/harness && ( [ -f Cargo.lock ] || cp /repo/Cargo.lock Cargo.lock ) && CARGO_NET_OFFLINE=true cargo build --offline --profile verif && CARGO_NET_OFFLINE=true cargo build --offline --profile release && CARGO_NET_OFFLINE=true CARGO_TARGET_DIR=/verif/harness/target-b64 cargo build --offline --profile verif --features b64bytes,testable && CARGO_NET_OFFLINE=true cargo build --offline --profile dev0 && ( [ -f plain/Cargo.lock ] || cp Cargo.lock plain/Cargo.lock ) && CARGO_NET_OFFLINE=true CARGO_TARGET_DIR=/verif/harness/target-plain cargo build --offline --profile verif --manifest-path plain/Cargo.toml",
        "hooks": {
            "guard": "passkey_rs_verif",
            "enable": "none needed: all observation points are caller-supplied traits (CredentialStore, UserValidationMethod, EffectiveTLDProvider) and public return values; RUSTFLAGS=--cfg passkey_rs_verif is reserved and unused",
            "baseline_off_cmd": "cd /repo && cargo test --workspace --no-fail-fast --offline",
            "source_commits": [],
            "add_only": True,
        },
        "engines": [{
            "name": "vdrive", "path": "/verif/harness",
            "serves_properties": sorted(built),
            "kind_free_text": "Rust harness driving the real library through its public API with instrumented collaborators (recording/fault-injecting/yielding store, scripted user validation, logging TLD provider), monitors/oracles per property, step/cancel executor, DFS poll-order scheduler, crash-isolating workers with counting allocator; built natively, in release, with the library's alternative byte-string serialisation and test-support features, with the library crates unoptimised (dev0), under ASan/TSan, and run under Miri and valgrind memcheck by ./check",
        }],
        "checks": checks,
        "not_applicable": na,
        "notes": "Runtime monitoring and sanitizers only. ./check <ID> --tier quick|thorough; VERIF_SEED honoured. exit 0 held / 1 violation (VIOLATION line) / 2 inconclusive. known_findings.json lists recorded genuine defects and fixed ones.",
    }
    with open(os.path.join(ROOT, "MANIFEST.json"), "w") as f:
        json.dump(m, f, indent=1)
        f.write("\n")
    print("claimed:", [c["property_id"] for c in checks])


if __name__ == "__main__":
    main()
