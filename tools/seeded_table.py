#!/usr/bin/env python3
"""Regenerate the seeded-changes table in DESIGN.md from seeded/*/meta.json (+ work/cross results)."""
import glob
import json
import os
import re

ROOT = os.path.dirname(os.path.dirname(os.path.abspath(__file__)))

# one-line description and, where the first version of the check missed it, what was strengthened
DESC = {
    "C01-A": ("label comparison with zip() stops at the shorter name: RP id `login.example.com` accepted for origin `https://example.com`", "relation class *host is a parent of the RP id* added"),
    "C01-B": ("`||` for `&&` in the ASCII fast path: Unicode spellings of IDN public suffixes (`公司.cn`) judged registrable (is_valid_rp_id, Android)", ""),
    "C02-A": ("default algorithms substituted when every list entry has an unknown type: `[{type:x, alg:-257}]` registers ES256", "preference lists with unknown type strings for non-ES256 entries added"),
    "C02-B": ("client-data origin from `url.origin().unicode_serialization()`: IDN origins in Unicode form", "IDN relying party added to the ceremony workload"),
    "C03-A": ("counter bumped after the signed bytes were taken: signature over counter n, returned data n+1 (counters on)", ""),
    "C03-B": ("client drops unknown-type allow-list entries, empty list then means 'any credential of the RP'", "allow lists with unknown-type descriptors added"),
    "C04-A": ("unconfigured verification (`Some(false)`) no longer refused", ""),
    "C04-B": ("consent shows `creds.first()`, signing uses `creds.pop()`: with two matches the wrong credential signs", ""),
    "C05-A": ("allow list whose descriptors are all of unknown type treated as absent", "unknown-type descriptors added to the list classes"),
    "C05-B": ("exclude check `lookup.is_ok()` instead of 'returned something': every miss on a contract-conforming store is CredentialExcluded", ""),
    "C06-A": ("public COSE key derived by filtering with `>=`: keeps `d` (-4)", ""),
    "C06-B": ("Debug of a stored passkey prints the non-UV PRF secret", ""),
    "C07-A": ("fallible extension step moved after `save_credential`: registration fails with UserVerificationBlocked but the credential is stored", "registration shapes whose extension step fails + failed-ceremony sweep over histories added"),
    "C07-B": ("`if let Err(StatusCode::Ctap2(..))` on the counter update: CTAP1-class store errors swallowed", ""),
    "C08-A": ("counter update error only logged: assertion succeeds with a counter the store does not hold", "store refusing the k-th counter update added to the histories"),
    "C08-B": ("store write moved out of the `if let Some(counter)` guard: counter-less credentials are rewritten", ""),
    "C09-A": ("PRF at assertion keyed by *requested* uv instead of performed UV", ""),
    "C09-B": ("wrong-length pre-hashed `second` silently dropped instead of rejected", ""),
    "C10-A": ("binary search loses its upper bound: phantom rules at block boundaries, out-of-bounds panic for `*.zw` names", ""),
    "C10-B": ("`is_effective_tld` without the empty-label guard: `.bd`, `.ck` … accepted", ""),
    "C11-A": ("`preferred` honours `requireResidentKey`: one cell of the product refused", ""),
    "C11-B": ("assertion drops the user handle when UV was not performed", "second follow-up assertion (user present, not verified, verification discouraged) added"),
    "C12-A": ("encoder appends extensions before attested credential data when both are present", ""),
    "C12-B": ("header read through `Read::read` (short reads accepted): 33–36-byte inputs decode", ""),
    "C13-A": ("`*val = map.next_value()?` reads an `Option`: a null first occurrence defeats duplicate detection, null opaque members no longer round-trip", "duplicates with a null occurrence and null `attStmt` / `keyAgreement` added"),
    "C13-B": ("status 0x22 also mapped to credential-not-found", ""),
    "C14-A": ("`strip_suffix` removes one `=` only: `==`-padded base64url with `-`/`_` fails or silently drops list entries", ""),
    "C14-B": ("float presentations routed through the unsigned path: `-7.0` parses as algorithm 0", ""),
    "C15-A": ("COSE converter checks `x.len() + y.len() == 64`: 31/33-byte coordinates panic again", ""),
    "C15-B": ("`Bytes` array decoder reserves the declared remainder once its capped buffer is full: abort / 2 GiB request after 4 097 real elements", "byte-string members re-presented as integer arrays with up to 20 000 real elements and inflated declared length added"),
    "C16-A": ("tail zeroing skipped when a continuation packet 'looks full' by the init-packet size: stale bytes in padding for lengths 114, 115, 173 …", ""),
    "C16-B": ("`rest / 59 > 128` without the +1: payloads of 7610–7667 bytes accepted and then lost", ""),
    "C17-A": ("`MemoryStore::save_credential` uses `entry().or_insert`: re-registering a key handle keeps the old key", "re-registration of an (application, handle) pair on the shipped stores added"),
    "C17-B": ("`AuthenticationResponse::encode` collapses the presence byte to the UP bit", "presence flags beyond UP added"),
    "C18-A": ("trait route skips the wrapper that drops an empty allow list", ""),
    "C18-B": ("trait route checks rk support before everything else: different status for multi-fault requests", ""),
    "C19-A": ("RwLock wrappers hold the read guard while calling their own `get_info` on lookup errors: deadlock with a queued writer", "assertions without allow list + failing, suspending lookups added (the scheduler now finds the deadlock, with the schedule as witness)"),
    "C19-B": ("`MemoryStore::save_credential` evicts other credentials of the RP (`&&` for `||`)", ""),
    # ---- round 2 (seeders were told what round 1 had produced and asked for different sites / triggers)
    "C02-C": ("AAGUID zeroed in the attestation object's copy of the authenticator data only (non-zero AAGUID)", ""),
    "C02-D": ("attestation preference direct/enterprise forwards the authenticator's `fmt: \"None\"` (capital N)", "attestation conveyance preference added to the registration generator"),
    "C03-C": ("origin formatted up to `Position::AfterHost`: a non-default port is lost from the client data", ""),
    "C03-D": ("user handle withheld when the assertion carries no UV flag", ""),
    "C04-C": ("exclude-list match reported before the consent result is examined", ""),
    "C04-D": ("a failing validation step treated as 'no presence, no verification': with up=uv=false the assertion is signed", ""),
    "C07-C": ("`user_handle.take()` hoisted above the counter update: the record written back has lost its user handle", ""),
    "C07-D": ("`save_credential` only when the credential is discoverable: non-discoverable registrations succeed without the store ever accepting them", ""),
    "C09-C": ("per-credential salt lookup compares ids with `zip` (no length check): a key that is a prefix / extension of the used id matches", "allow lists and per-credential keys that are proper prefixes / extensions of the used id added (client and CTAP level)"),
    "C09-D": ("present-but-empty `allowCredentials` slips past both per-credential checks", ""),
    "C13-C": ("two adjacent optional members swapped in declaration order: keys 7 before 6 when both present", ""),
    "C13-D": ("`skip_serializing_if = Not::not` on `up`, whose default is true: `up=false` is dropped and reads back as true", ""),
    "C14-C": ("`map_while` for `filter_map`: the first unknown `pubKeyCredParams` entry cuts off everything after it", ""),
    "C14-D": ("standard base64 mapped onto the url alphabet with `+`/`/` crossed", ""),
    "C15-C": ("completing CTAPHID continuation packet copied into a 59-byte buffer unchecked: panic for packets > 64 bytes", ""),
    "C15-D": ("padding stripped with `split_at(len-2)`: panic when that offset is inside a multi-byte character", ""),
    "C16-C": ("a single-packet INIT message clears every channel's partial message", ""),
    "C16-D": ("`entry().or_insert` on a reused channel: the abandoned partial message wins over the new one", "transfers abandoned after k packets followed by a new message on the same channel added"),
    "C19-C": ("counter re-read before the increment re-runs the *query* instead of looking up the selected credential: with an id-less request and a newest-first store another credential's counter is used", "sequential warm-up assertions on every seeded credential + a conforming newest-first store answering id-less lookups added"),
    "C19-D": ("counter update result dropped via `.ok()` in a helper: a refused update no longer fails the assertion", "reference-store configurations that refuse one counter update added"),
    "C01-C": ("`origin.host_str()` for `origin.domain()`: IPv4-literal origins accepted as DNS names", ""),
    "C01-D": ("Android path checks the registrable-domain rule on the asset-link host instead of the effective RP id", ""),
    "C05-C": ("single-slot store matches the id list with `all` instead of `any`", ""),
    "C05-D": ("`get_assertion` looks the credential up under the lower-cased RP id but signs for the raw one", "an RP id that differs only in letter case added as a separate RP"),
    "C06-C": ("non-UV PRF secret derived as HMAC(UV secret, fixed label hash): evaluating the UV PRF at that one salt returns the stored secret", "NOT caught: the witness salt can only be derived from the changed source; a monitor of returned values never sees it (limit, §8)"),
    "C06-D": ("pretty Debug (`{:#?}`) of a passkey prints hex(x‖d) as 'public_key' (wrong registry constant for the private parameter)", ""),
    "C08-C": ("`checked_add` yields `None` at 2³²−1: the credential silently becomes counter-less and reports 0", ""),
    "C08-D": ("silent assertions (no presence, no verification reported) do not advance the counter", "silent assertions (up=uv=false, nothing reported) added to the histories"),
    "C10-C": ("a parent's wildcard is no longer applied when the label exists as an explicit parent-only node (nested wildcard families)", ""),
    "C10-D": ("one flipped bit in the generated table grafts `ne.jp`'s sub-tree under `ne.kr` (phantom rules no list rule points to)", "probes derived from a walk of the compiled table's own nodes added"),
    "C11-C": ("`credProps` output dropped when the registration also yields a PRF output", "PRF requested-and-configured added as a dimension of the product"),
    "C11-D": ("counter write-back after `user_handle.take()`: the first assertion on a counted credential erases its stored user handle", "signature counters on/off added as a dimension; stored handle re-checked after the assertions"),
    "C12-C": ("header-only fast path: a 37-byte input with AT/ED set decodes", ""),
    "C12-D": ("`set_flags` masks AT|ED while the extension setters still go through it: ED never set", ""),
    "C17-C": ("payload slice loses its upper bound: register frames carrying the trailing Le field are rejected", ""),
    "C17-D": ("authentication looks the credential up under standard base64(application) while registration files it under base64url", ""),
    "C18-C": ("trait `get_info` serves a cached `rk` bit that is never invalidated", "sequences of 2–4 operations on the same authenticator with store-capability flips in between added"),
    "C18-D": ("trait route enforces a 1024-byte message limit the direct methods do not have", "requests with 20–45 list entries (> 1 KiB) added"),
    # ---- round 3 (ten richest properties; seeders were given the four earlier changes per property)
    "C02-E": ("COSE `x`/`y` written as minimal-length integers (leading zero bytes dropped) while the DER converter pads: about 1 registration in 64 carries a 31-byte coordinate", ""),
    "C02-F": ("Android path validates the requested RP ID but returns the asset-link host: credential bound to / rpIdHash of `app.example.com` instead of `example.com`", "Android application origins (asset-link host, RP ID a proper suffix of it) added to the ceremony workload"),
    "C03-E": ("signature covers `client_data_hash.iter().take(32)`: caller-supplied hashes longer than 32 bytes are truncated before signing", "caller-supplied hashes of 0, 20, 33, 48 and 64 bytes added (client and CTAP level)"),
    "C03-F": ("same slip as C02-F seen from the assertion side (host returned instead of the effective RP ID on the Android path)", "Android application origins added to the ceremony workload"),
    "C04-E": ("flag derivation moved before enforcement with `UP | UV` for a verified user: outcome (presence=false, verification=true) passes a presence requirement", ""),
    "C04-F": ("client helper `map_uv` downgrades `required` when the authenticator reports no verification capability (guard covers the whole or-pattern)", ""),
    "C05-E": ("all lookup results kept, consent shows `first()`, signing uses the first *convertible* item: with a store whose items are not `Passkey`s a later-listed credential signs", "conforming store with vault items (a third unconvertible) added: part (d)"),
    "C05-F": ("`Client::register` drops exclude-list descriptors whose transport hints do not intersect the authenticator's transports; an emptied list skips the exclusion check", "client-level registrations / authentications with transport-hinted descriptors added: part (c)"),
    "C07-E": ("`counter.checked_add(1)` assigned directly: at u32::MAX the record written back has lost its counter", "authentication shapes with stored counters at u32::MAX added"),
    "C07-F": ("`Option<Passkey>::save_credential` uses `get_or_insert`: on an occupied slot registration succeeds but the old credential stays", "registrations through the shipped stores and their lock wrappers, empty or occupied, added"),
    "C09-E": ("`make_hmac_secret` no longer returns early without configuration: an authenticator without the capability stores a PRF secret", ""),
    "C09-F": ("client reuses the converted default salts for an `evalByCredential` entry whose `first` equals the default's `first` (second never compared, length check skipped)", ""),
    "C13-E": ("`FieldVisitor::visit_str` propagates the lookup error: unknown text keys fail the decode instead of being ignored", ""),
    "C13-F": ("duplicate check removed from the `deserialize_with` arm of the macro: getInfo key 9 may repeat, last wins", ""),
    "C14-E": ("`timeout` of request options uses `ignore_unknown` instead of `maybe_stringified`: string / float timeouts silently become absent", ""),
    "C14-F": ("descriptor `transports` loses `ignore_unknown_opt_vec`: an unknown transport drops the whole descriptor or fails the document", ""),
    "C15-E": ("U2F authenticate control byte checked by range `0x03..=0x08`: P1 4, 5, 6 reach `unreachable!()` in the parameter conversion", "well-formed authenticate frames under every control byte 0..255 added"),
    "C15-F": ("CTAPHID `Message::init` pre-sizes the payload buffer from the declared length: 64-byte packets on distinct channels each pin 64 KiB", "sequences of 80-2500 unfinished initialisation packets on distinct channels added"),
    "C19-E": ("`save_credential` only when the credential is discoverable (same effect as C07-D, found again independently)", ""),
    "C19-F": ("counter advanced only when the UP flag is set: silent assertions reuse the previous counter", "silent assertions (no presence / verification asked or reported) added to the scheduler configurations"),
    "C01-E": ("RP-ID validity check (with its localhost early return) moved before the suffix comparison: with insecure localhost allowed, RP ID `localhost` is accepted from any origin", ""),
    "C01-F": ("scheme check inverted from 'must be https' to 'must not be http': `ws://`, `ftp://`, `app://` origins accepted", ""),
    "C06-E": ("key and credential id cut from one 64-byte random buffer: with 64-byte ids the id starts with the private scalar", ""),
    "C06-F": ("U2F registration fills the attestation-certificate slot with `to_sec1_der()` of the private key", ""),
    "C08-E": ("`log::debug!(.., counter + 1)` before the saturating increment: with a logger installed and overflow checks on, an assertion at u32::MAX panics", "a sink logger is installed in every run (`logsink.rs`), so log arguments are evaluated"),
    "C08-F": ("counter-less credentials start counting when the authenticator has `make_credentials_with_signature_counter` on at assertion time", ""),
    "C10-E": ("implicit `*` rule takes its dot from the walk cursor: `example.za` (parent-only TLD node without wildcard) is its own suffix", ""),
    "C10-F": ("`domain.chars().nth(i)` for a byte offset in `effective_tld_plus_one`: names with multi-byte labels left of the suffix get `Err(InvalidPublicSuffix)`", "names with non-ASCII labels that no IDN rule's Unicode presentation matches are compared with the reference too; Unicode labels left of every 8th rule added"),
    "C11-E": ("`Arc<RwLock<S>>::get_info` returns a hard-coded `ForcedDiscoverable` instead of forwarding", "CTAP-level cells run over five store forms (store, Arc<Mutex>, Arc<RwLock>, Mutex, RwLock)"),
    "C11-F": ("'defensive' user-handle length filter with `<` for `<=`: a 64-byte user id is silently not stored", "user id lengths 1, 8, 64 added as a dimension of the client-level product"),
    "C12-E": ("extension setters clear the section on their nothing-to-add path but leave ED set", "a second setter call with None / empty outputs added to a quarter of the values"),
    "C12-F": ("`from_slice` keeps reserved flag bits (`from_bits_retain`) instead of rejecting them", ""),
    "C16-E": ("continuation packets numbered from `Message.sequence`: a received multi-packet message, sent again, starts numbering at k", "every delivered message is sent again and compared with the packets it arrived in"),
    "C16-F": ("receiver rejects initialisation packets announcing more than 57 + 127 x 59 bytes (one continuation packet too few)", ""),
    "C17-E": ("request parser bounds the data length by 2 x 32 + 255 (length byte forgotten): 255-byte key handles rejected", ""),
    "C17-F": ("`RegisterResponse::encode` emits the signature before the attestation certificate", "register responses with arbitrary field values (certificates of 0-1200 bytes) encoded and compared with the own concatenation"),
    "C18-E": ("trait route keeps only extension inputs `get_info` lists: the `hmac-secret` flag is dropped, store / `enabled` differ", "plain hmac-secret flag (absent / true / false) added to makeCredential requests"),
    "C18-F": ("trait route computes a log tag with `split_at(4)` of the client data hash: hashes shorter than 4 bytes panic", "client-data hashes of 0, 1, 3, 4, 20, 48 bytes added"),
    # ---- round 4 (all properties; seeders were pointed at unexercised input and usage dimensions)
    "C01-G": ("`Client::allows_insecure_localhost` forwards only when enabling: after `(true)` then `(false)` localhost stays accepted", "setter histories (opposite value first, or value / opposite / value) on verifier and client"),
    "C01-H": ("registrable-domain helper honours only two of the provider's three error variants: a custom provider answering `InvalidPublicSuffix` makes every RP ID registrable", "custom provider reports refusals with each error variant"),
    "C02-G": ("`MemoryStore::save_credential` with rk=true first removes credentials of the same RP and user id: the second registration of an account replaces the first", "sequences of client registrations into the in-memory store with repeating user ids and every residentKey preference"),
    "C02-H": ("`authData` handed to `cbor!` as `Bytes`: with the crate feature `serialize_bytes_as_base64_string` the attestation object carries it as a text string", "engine `b64feat`: the whole workload of C02 / C03 also runs against the library built with that feature"),
    "C03-G": ("Android origin formatted with base64 instead of base64url (`+` `/` for `-` `_`)", ""),
    "C03-H": ("rpIdHash taken from the stored credential's `rp_id` instead of the request's", "assertions over vault items whose converted `Passkey` carries the RP ID in another presentation (empty, upper case, trailing dot)"),
    "C04-G": ("credential re-read from the store after consent when it has a counter: another credential arriving during the prompt signs instead of the one shown", "36 cases in which a credential of the RP arrives in the store while the user is being asked"),
    "C04-H": ("`?` inside the lookup's `Ok` arm: a store answering 'nothing found' with `Ok(vec![])` yields NoCredentials before the user is asked", ""),
    "C05-G": ("single-slot store compares ids with an XOR fold over `zip`: an id that is a proper prefix / extension of the stored one (or empty) matches", "id lists with a proper prefix, an extension of a held id and the empty id"),
    "C05-H": ("exclude-list lookup skipped when the store does not advertise rk", "part (a) runs under every store capability"),
    "C06-G": ("`public_key_der_from_cose_key` takes the last two key parameters: for a stored key (which carries `d`) the 'public key' is y ‖ d", "the SubjectPublicKeyInfo the public helper derives from each stored key is scanned"),
    "C06-H": ("`.expect()` on a `Vec -> [u8; 32]` conversion prints the PRF secret in the panic message when an imported credential's secret is not 32 bytes long", "assertions with imported credentials (PRF secrets of 16-64 bytes); a panic message is scanned like any other output"),
    "C07-G": ("incremented counter signed from a local, persisted only when UP is set: a silent assertion reports a counter the store never saw", "silent assertion shapes (CTAP level)"),
    "C07-H": ("U2F registration rejects a key handle over 255 bytes only after the credential was saved", "U2F registrations with key handles of 0-300 bytes over the reference store (also refusing the save) and the shipped stores"),
    "C08-G": ("counter bumped after signing, the struct patched afterwards: the signed authenticator data carries the old counter", "the signature is verified over the returned authenticator data"),
    "C08-H": ("rollback of the counter on extension errors is not guarded: a refused PRF assertion rewrites counter-less credentials", "PRF requests also made of credentials without PRF secret (refused assertions)"),
    "C09-G": ("`make_extensions(.., input.options.up)` for `.uv`: creation-time PRF always uses the UV-gated secret", ""),
    "C09-H": ("`make_prf` rewritten as one `match` loses the 'no secrets' early return: `enabled: true` with an explicit `hmac-secret: false`", ""),
    "C10-G": ("empty-label scan moved from the input to the returned eTLD+1: `a..example.com` accepted", ""),
    "C10-H": ("process-wide 'last TLD' cache keyed by a 32-bit hash of the label, hit not compared with the label: a later lookup under an unlisted TLD with a colliding hash reuses the node", "NOT caught: needs a 32-bit hash collision that can be computed from the changed source but is not found by behaviour (limit, §8)"),
    "C11-G": ("rk support memoised in the authenticator on first use and never invalidated", "108 cells of two registrations on one authenticator whose store changes capability in between"),
    "C11-H": ("getInfo `rk` additionally requires `is_verification_enabled() != Some(false)`", "those cells run under every verification-capability report (Some(true) / Some(false) / None)"),
    "C12-G": ("encoder canonicalises the attested COSE key: a key whose parameters are not in (crv, x, y) order is emitted re-ordered", "attested keys with reversed / rotated parameter order"),
    "C12-H": ("constructor strips a trailing dot from the RP ID before hashing", "RP IDs with a trailing dot, a lone dot, upper case, leading space, trailing slash"),
    "C13-G": ("a present-but-empty (or all-unknown) `transports` list decodes as absent", ""),
    "C13-H": ("getInfo option `up` loses `default = true`: an options map without `up` decodes to false", "getInfo responses with partial option maps ({}, {rk, clientPin}, {plat, up:false})"),
    "C14-G": ("emitted `transports: Some([])` is skipped when serialising and parses back as `None`", "authenticators configured with empty / other transports lists; emitted credentials compared as values (Debug text), not only as re-serialised JSON"),
    "C14-H": ("shared list visitor allocates lazily: a list without any known entry becomes `None` (and `pubKeyCredParams: []` a hard error)", ""),
    "C15-G": ("field-identifier `visit_u128` unwraps a conversion to u64: a map key written as a bignum above 2^64 panics six decoders", "bignum-tagged map keys (tag 2 / 3, 1-17 bytes) in front of valid messages"),
    "C15-H": ("hmac-secret salt parser accepts every multiple of 32 and copies into a 64-byte array: 96, 128, … bytes panic", "decoder 29 `HmacSecretSaltOrOutput::try_from(&[u8])` (and 30: all single-byte conversions)"),
    "C16-G": ("continuation header no longer rewrites the channel bytes while tail zeroing starts at `data.len()`: for last chunks of 1-3 bytes the channel id is truncated", ""),
    "C16-H": ("fast-path slot for the last active channel: an orphan continuation for another channel drops the in-progress message", ""),
    "C17-G": ("'counter must move forward' guard with `<=`: authentication with counter 0 is refused", ""),
    "C17-H": ("key handle taken with `chunks_exact(len)`: an empty key handle panics the parser", ""),
    "C18-G": ("trait route drops exclude-list descriptors of unknown type before forwarding", "list descriptors with unknown type strings and transport hints"),
    "C18-H": ("trait route answers PinAuthInvalid when `pinProtocol` is present without `pinAuth`", "`pinProtocol` present independently of `pinAuth`"),
    "C19-G": ("old counter written back when extension processing fails: a blind write that overwrites a concurrent successful assertion's counter", "assertions refused in extension processing (after the counter advanced) next to a successful one, followed by a sequential assertion"),
    "C19-H": ("`debug_assert!(self.insert(..).is_some())` in `MemoryStore::update_credential`: in release builds the counter is never stored", "every check runs in both build profiles (release added to all quick and thorough tiers)"),
}


def main():
    rows = []
    for d in sorted(glob.glob(os.path.join(ROOT, "seeded", "C*-[A-Z]"))):
        name = os.path.basename(d)
        meta = json.load(open(os.path.join(d, "meta.json")))
        own = (meta.get("detection") or {}).get(meta["property"], {})
        cross = meta.get("cross") or {}
        others = sorted(p for p, r in cross.items() if r.get("exit") == 1 and p != meta["property"])
        desc, strengthened = DESC.get(name, ("", ""))
        first = "missed → " + strengthened if strengthened else "caught"
        now = "caught" if own.get("exit") == 1 else ("MISSED" if own else "?")
        rows.append(f"| {name} | {desc} | {first} | {now} | {', '.join(others) if others else '–'} |")
    table = "| change | what it does | first version of the check | now (`./check <id> --tier quick`) | also caught by |\n|---|---|---|---|---|\n" + "\n".join(rows)
    p = os.path.join(ROOT, "DESIGN.md")
    s = open(p).read()
    s = re.sub(r"<!-- SEEDED-TABLE-BEGIN -->.*?<!-- SEEDED-TABLE-END -->", "<!-- SEEDED-TABLE-BEGIN -->\n" + table + "\n<!-- SEEDED-TABLE-END -->", s, flags=re.S)
    open(p, "w").write(s)
    print(len(rows), "rows")


if __name__ == "__main__":
    main()
