#!/usr/bin/env python3
"""Confirm a seeded mutant and run the checks against it.

  tools/mutant.py confirm C04 A      in the scratch worktree /tmp/wt/C04: demo passes on the clean tree;
                                     with the patch the unedited suite passes and the demo fails
  tools/mutant.py detect  C04 A [props...]   apply the patch to /repo, run ./check <prop> --tier quick for the
                                     property (default: the mutant's own), undo the patch
  tools/mutant.py keep    C04 A      copy patch, demo and meta.json to /verif/seeded/C04-A/
"""
import json
import os
import re
import shutil
import subprocess
import sys

ROOT = os.path.dirname(os.path.dirname(os.path.abspath(__file__)))
WT = "/tmp/wt"
REPO = os.environ.get("MUTANT_REPO", "/repo")
ENV = dict(os.environ, CARGO_NET_OFFLINE="true", CARGO_TERM_COLOR="never")


def sh(cmd, cwd, timeout=3600):
    p = subprocess.run(cmd, cwd=cwd, shell=True, env=ENV, stdout=subprocess.PIPE, stderr=subprocess.STDOUT, text=True,
                       timeout=timeout)
    return p.returncode, p.stdout


def parse_run(out_dir):
    run = os.path.join(out_dir, "demo", "RUN.md")
    demo = [f for f in os.listdir(os.path.join(out_dir, "demo")) if f.endswith(".rs")]
    text = open(run).read() if os.path.exists(run) else open(os.path.join(out_dir, "notes.md")).read()
    text = re.sub(r"\\\n\s*", " ", text)  # join shell continuation lines
    m = re.search(r"((?:passkey[\w-]*|public-suffix)/(?:tests|examples)/)(\w*demo\w*\.rs)", text)
    dest = (m.group(1), m.group(2)) if m else None
    cmds = [l.strip().strip("`") for l in text.splitlines() if "cargo test" in l or "cargo run" in l]
    cmd = None
    for c in cmds:
        c = c[c.index("CARGO_NET_OFFLINE"):] if "CARGO_NET_OFFLINE" in c else c[c.index("cargo"):]
        c = c.split("`")[0].strip()
        if re.search(r"--test \w*demo", c) or "--example" in c:
            cmd = c
            break
    return demo, dest, cmd


def confirm(pid, letter):
    wt = os.path.join(WT, pid)
    out = os.path.join(WT, f"{pid}-out", letter)
    demo, dest, cmd = parse_run(out)
    if not (demo and dest and cmd):
        print("cannot parse RUN.md", demo, dest, cmd)
        return 2
    sh("git checkout -- . && git clean -fdq -e target -e Cargo.lock", wt)
    os.makedirs(os.path.join(wt, dest[0]), exist_ok=True)
    shutil.copy(os.path.join(out, "demo", demo[0]), os.path.join(wt, dest[0], dest[1]))
    rc_clean, o1 = sh(cmd, wt)
    print(f"[{pid}-{letter}] demo on clean tree: rc={rc_clean}")
    os.remove(os.path.join(wt, dest[0], dest[1]))
    rc, o = sh(f"git apply {out}/patch.diff", wt)
    if rc != 0:
        print("patch does not apply", o)
        return 2
    rc_suite, o2 = sh("cargo test --workspace --no-fail-fast --offline 2>&1 | grep -E '^test result|^error' ", wt)
    passed = sum(int(x) for x in re.findall(r"ok\. (\d+) passed", o2))
    failed = "FAILED" in o2 or re.search(r"[1-9]\d* failed", o2) is not None or re.search(r"^error", o2, re.M) is not None
    print(f"[{pid}-{letter}] suite with mutant: passed={passed} failed={failed}")
    shutil.copy(os.path.join(out, "demo", demo[0]), os.path.join(wt, dest[0], dest[1]))
    rc_mut, o3 = sh(cmd, wt)
    print(f"[{pid}-{letter}] demo with mutant: rc={rc_mut}")
    sh("git checkout -- . && git clean -fdq -e target -e Cargo.lock", wt)
    ok = rc_clean == 0 and rc_mut != 0 and passed >= 98 and not failed
    print(f"[{pid}-{letter}] CONFIRMED={ok}")
    return 0 if ok else 1


def detect(pid, letter, props):
    out = os.path.join(WT, f"{pid}-out", letter)
    patch = os.path.join(out, "patch.diff")
    if not os.path.exists(patch):
        patch = os.path.join(ROOT, "seeded", f"{pid}-{letter}", "patch.diff")
    rc, o = sh("git status --porcelain", REPO)
    if o.strip():
        print("refusing: repo has uncommitted changes", o)
        return 2
    rc, o = sh(f"git apply {patch}", REPO)
    if rc != 0:
        print("patch does not apply to the repo", o)
        return 2
    results = {}
    try:
        for p in props or [pid]:
            rc, o = sh(f"VDRIVE_ENGINES={os.environ.get('MUTANT_ENGINES', 'native,release,b64feat')} ./check {p} --tier quick", ROOT, timeout=3600)
            sigs = [l.strip() for l in o.splitlines() if l.strip().startswith("violated:")]
            results[p] = {"exit": rc, "violations": sigs[:6]}
            print(f"[{pid}-{letter}] check {p}: exit={rc}")
            for s in sigs[:4]:
                print("     ", s[:260])
    finally:
        sh("git checkout -- .", REPO)
    rc, o = sh("git status --porcelain", REPO)
    assert not o.strip(), o
    os.makedirs(os.path.join(ROOT, "work"), exist_ok=True)
    name = f"detect-{pid}-{letter}.json" if not os.environ.get("MUTANT_CROSS") else f"cross-{pid}-{letter}.json"
    with open(os.path.join(os.environ.get("MUTANT_OUT", os.path.join(ROOT, "work")), name), "w") as f:
        json.dump(results, f, indent=1)
    return 0


def keep(pid, letter):
    out = os.path.join(WT, f"{pid}-out", letter)
    dst = os.path.join(ROOT, "seeded", f"{pid}-{letter}")
    os.makedirs(dst, exist_ok=True)
    shutil.copy(os.path.join(out, "patch.diff"), dst)
    for f in os.listdir(os.path.join(out, "demo")):
        shutil.copy(os.path.join(out, "demo", f), dst)
    shutil.copy(os.path.join(out, "notes.md"), dst)
    det = os.path.join(ROOT, "work", f"detect-{pid}-{letter}.json")
    cross = os.path.join(ROOT, "work", "cross", f"cross-{pid}-{letter}.json")
    meta = {"property": pid, "mutant": letter,
            "cross": json.load(open(cross)) if os.path.exists(cross) else None,
            "confirmed": "tools/mutant.py confirm: demo passes on the clean tree; with the patch the unedited suite (98 tests + doctests) passes and the demo fails",
            "detection": json.load(open(det)) if os.path.exists(det) else None}
    notes = open(os.path.join(out, "notes.md")).read()
    meta["needs_to_manifest"] = notes[:1500]
    with open(os.path.join(dst, "meta.json"), "w") as f:
        json.dump(meta, f, indent=1)
    print("kept", dst)
    return 0


if __name__ == "__main__":
    a = sys.argv[1:]
    if a[0] == "confirm":
        sys.exit(confirm(a[1], a[2]))
    if a[0] == "detect":
        sys.exit(detect(a[1], a[2], a[3:]))
    if a[0] == "keep":
        sys.exit(keep(a[1], a[2]))
