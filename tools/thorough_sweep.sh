#!/bin/bash
# run every check's thorough tier at the given seeds; print one line per run (exit code, summary)
cd "$(dirname "$0")/.."
for sd in "$@"; do
  for p in C01 C02 C03 C04 C05 C06 C07 C08 C09 C10 C11 C12 C13 C14 C15 C16 C17 C18 C19; do
    out=$(VERIF_SEED=$sd ./check $p --tier thorough 2>&1); rc=$?
    echo "seed=$sd $p exit=$rc $(echo "$out" | grep -E "^C[0-9]+ thorough" | cut -c1-160)"
    if [ $rc -ne 0 ]; then echo "$out" | grep -E "violated|INCONCLUSIVE|VIOLATION" | head -5 | cut -c1-300; fi
  done
done
echo SWEEP-DONE
