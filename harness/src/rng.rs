//! Seeded PRNG (splitmix64). Every random choice of every workload comes from here,
//! derived from VERIF_SEED, so a run is reproducible up to the key material and
//! credential ids the library draws from `thread_rng` itself.

#[derive(Clone, Debug)]
pub struct Rng(pub u64);

impl Rng {
    pub fn new(seed: u64) -> Self {
        Rng(seed ^ 0x9E37_79B9_7F4A_7C15)
    }
    /// Independent stream for (seed, label, index).
    pub fn derive(seed: u64, label: &str, index: u64) -> Self {
        let mut h = seed ^ 0xA076_1D64_78BD_642F;
        for b in label.bytes() {
            h = (h ^ u64::from(b)).wrapping_mul(0x100_0000_01B3);
        }
        let mut r = Rng(h ^ index.wrapping_mul(0xD6E8_FEB8_6659_FD93));
        r.next_u64();
        r.next_u64();
        r
    }
    pub fn next_u64(&mut self) -> u64 {
        self.0 = self.0.wrapping_add(0x9E37_79B9_7F4A_7C15);
        let mut z = self.0;
        z = (z ^ (z >> 30)).wrapping_mul(0xBF58_476D_1CE4_E5B9);
        z = (z ^ (z >> 27)).wrapping_mul(0x94D0_49BB_1331_11EB);
        z ^ (z >> 31)
    }
    pub fn below(&mut self, n: usize) -> usize {
        if n == 0 {
            0
        } else {
            (self.next_u64() % (n as u64)) as usize
        }
    }
    pub fn range(&mut self, lo: usize, hi_incl: usize) -> usize {
        lo + self.below(hi_incl - lo + 1)
    }
    pub fn bool(&mut self) -> bool {
        self.next_u64() & 1 == 1
    }
    pub fn chance(&mut self, num: usize, den: usize) -> bool {
        self.below(den) < num
    }
    pub fn byte(&mut self) -> u8 {
        (self.next_u64() & 0xff) as u8
    }
    pub fn bytes(&mut self, n: usize) -> Vec<u8> {
        let mut v = Vec::with_capacity(n);
        while v.len() < n {
            let x = self.next_u64().to_le_bytes();
            let take = (n - v.len()).min(8);
            v.extend_from_slice(&x[..take]);
        }
        v
    }
    pub fn arr32(&mut self) -> [u8; 32] {
        let v = self.bytes(32);
        let mut a = [0u8; 32];
        a.copy_from_slice(&v);
        a
    }
    pub fn pick<'a, T>(&mut self, xs: &'a [T]) -> &'a T {
        &xs[self.below(xs.len())]
    }
    pub fn shuffle<T>(&mut self, xs: &mut [T]) {
        for i in (1..xs.len()).rev() {
            let j = self.below(i + 1);
            xs.swap(i, j);
        }
    }
    pub fn ascii_label(&mut self, lo: usize, hi: usize) -> String {
        let n = self.range(lo, hi);
        (0..n)
            .map(|_| char::from(b'a' + (self.below(26) as u8)))
            .collect()
    }
}

pub fn fnv(data: &[u8]) -> u64 {
    let mut h: u64 = 0xcbf2_9ce4_8422_2325;
    for b in data {
        h = (h ^ u64::from(*b)).wrapping_mul(0x100_0000_01B3);
    }
    h
}

pub fn fnv_str(s: &str) -> u64 {
    fnv(s.as_bytes())
}
