//! Instrumented collaborators: the only "hooks" the monitors need. They sit at the
//! public trait boundary of the library (CredentialStore, UserValidationMethod,
//! EffectiveTLDProvider), record every call on one logical clock, and can inject
//! faults, suspensions (Pending) and delays at exactly those existing suspension points.

use std::{
    collections::HashMap,
    future::Future,
    pin::Pin,
    sync::{
        atomic::{AtomicU64, Ordering},
        Arc, Mutex,
    },
    task::{Context, Poll},
};

use coset::{iana, CoseKey, Label};
use passkey_authenticator::{
    CredentialStore, DiscoverabilitySupport, StoreInfo, UserCheck, UserValidationMethod,
};
use passkey_types::{
    ctap2::{
        get_assertion::Options,
        make_credential::{PublicKeyCredentialRpEntity, PublicKeyCredentialUserEntity},
        Ctap2Error, StatusCode,
    },
    webauthn::PublicKeyCredentialDescriptor,
    Passkey,
};
use serde_json::{json, Value};

use crate::report::hex_short;

// ---------------------------------------------------------------------------------------------
// Event log
// ---------------------------------------------------------------------------------------------

#[derive(Clone, Debug, PartialEq)]
pub enum Ev {
    Find {
        ids: Option<Vec<Vec<u8>>>,
        rp: String,
        result: Result<Vec<Vec<u8>>, u8>,
    },
    Save {
        id: Vec<u8>,
        rp_id: String,
        rp_entity: String,
        user_entity: Vec<u8>,
        /// the display strings of the two entity arguments: RP name, user name, user display name
        names: (Option<String>, Option<String>, Option<String>),
        user_handle: Option<Vec<u8>>,
        counter: Option<u32>,
        rk: bool,
        up: bool,
        uv: bool,
        has_hmac: bool,
        result: Result<(), u8>,
    },
    Update {
        id: Vec<u8>,
        counter: Option<u32>,
        result: Result<(), u8>,
    },
    Info,
    CheckUser {
        shown: Option<Vec<u8>>,
        up: bool,
        uv: bool,
        result: Result<(bool, bool), u8>,
    },
    Tld {
        query: String,
        ok: bool,
    },
    /// ceremony boundary markers written by the driving workload
    Call {
        op: &'static str,
    },
    Return {
        op: &'static str,
        ok: bool,
    },
}

impl Ev {
    pub fn kind(&self) -> &'static str {
        match self {
            Ev::Find { .. } => "find",
            Ev::Save { .. } => "save",
            Ev::Update { .. } => "update",
            Ev::Info => "info",
            Ev::CheckUser { .. } => "check_user",
            Ev::Tld { .. } => "tld",
            Ev::Call { .. } => "call",
            Ev::Return { .. } => "return",
        }
    }
    pub fn to_json(&self) -> Value {
        match self {
            Ev::Find { ids, rp, result } => json!({"find": {
                "ids": ids.as_ref().map(|v| v.iter().map(|i| hex_short(i)).collect::<Vec<_>>()),
                "rp": rp,
                "result": match result { Ok(v) => json!(v.iter().map(|i| hex_short(i)).collect::<Vec<_>>()), Err(e) => json!({"err": e}) }}}),
            Ev::Save { id, rp_id, rp_entity, user_entity, names, rk, up, uv, counter, user_handle, has_hmac, result } => json!({"save": {
                "rp_argument": rp_entity, "user_argument": hex_short(user_entity), "names": [names.0.as_ref().map(|s| s.chars().take(40).collect::<String>()), names.1.as_ref().map(|s| s.chars().take(40).collect::<String>()), names.2.as_ref().map(|s| s.chars().take(40).collect::<String>())],
                "id": hex_short(id), "rp_id": rp_id, "rk": rk, "up": up, "uv": uv, "counter": counter,
                "user_handle": user_handle.as_ref().map(|h| hex_short(h)), "hmac": has_hmac,
                "result": match result { Ok(()) => json!("ok"), Err(e) => json!({"err": e}) }}}),
            Ev::Update { id, counter, result } => json!({"update": {"id": hex_short(id), "counter": counter,
                "result": match result { Ok(()) => json!("ok"), Err(e) => json!({"err": e}) }}}),
            Ev::Info => json!("info"),
            Ev::CheckUser { shown, up, uv, result } => json!({"check_user": {
                "shown": shown.as_ref().map(|h| hex_short(h)), "up": up, "uv": uv,
                "result": match result { Ok((p, v)) => json!({"presence": p, "verification": v}), Err(e) => json!({"err": e}) }}}),
            Ev::Tld { query, ok } => json!({"tld": {"query": query, "ok": ok}}),
            Ev::Call { op } => json!({"call": op}),
            Ev::Return { op, ok } => json!({"return": op, "ok": ok}),
        }
    }
}

#[derive(Clone, Debug)]
pub struct Stamped {
    pub t: u64,
    pub actor: usize,
    pub ev: Ev,
}

#[derive(Default)]
pub struct Log {
    clock: AtomicU64,
    events: Mutex<Vec<Stamped>>,
}

impl Log {
    pub fn new() -> Arc<Log> {
        Arc::new(Log::default())
    }
    pub fn push(&self, actor: usize, ev: Ev) -> u64 {
        // the timestamp is taken under the same lock that appends, so the vector order is the
        // clock order even with threads.
        let mut g = self.events.lock().unwrap();
        let t = self.clock.fetch_add(1, Ordering::SeqCst);
        g.push(Stamped { t, actor, ev });
        t
    }
    pub fn snapshot(&self) -> Vec<Stamped> {
        self.events.lock().unwrap().clone()
    }
    pub fn len(&self) -> usize {
        self.events.lock().unwrap().len()
    }
    pub fn clear(&self) {
        self.events.lock().unwrap().clear();
    }
    pub fn json_tail(&self, n: usize) -> Value {
        let g = self.events.lock().unwrap();
        let start = g.len().saturating_sub(n);
        json!(g[start..]
            .iter()
            .map(|s| json!({"t": s.t, "actor": s.actor, "ev": s.ev.to_json()}))
            .collect::<Vec<_>>())
    }
}

// ---------------------------------------------------------------------------------------------
// Yield helper: returns Pending `n` times (waking itself), i.e. a real suspension point.
// ---------------------------------------------------------------------------------------------

pub struct YieldN(pub usize);
impl Future for YieldN {
    type Output = ();
    fn poll(mut self: Pin<&mut Self>, cx: &mut Context<'_>) -> Poll<()> {
        if self.0 == 0 {
            Poll::Ready(())
        } else {
            self.0 -= 1;
            cx.waker().wake_by_ref();
            Poll::Pending
        }
    }
}

// ---------------------------------------------------------------------------------------------
// Credential snapshot (includes secrets; used by oracles only)
// ---------------------------------------------------------------------------------------------

#[derive(Clone, Debug, PartialEq, Eq, Hash)]
pub struct CredSnap {
    pub id: Vec<u8>,
    pub rp_id: String,
    pub user_handle: Option<Vec<u8>>,
    pub counter: Option<u32>,
    /// canonical CBOR of the stored COSE key (bit-exact comparison of the whole key)
    pub key_cbor: Vec<u8>,
    pub d: Option<Vec<u8>>,
    pub x: Option<Vec<u8>>,
    pub y: Option<Vec<u8>>,
    pub hmac_uv: Option<Vec<u8>>,
    pub hmac_no_uv: Option<Vec<u8>>,
}

pub fn cose_param(key: &CoseKey, label: i64) -> Option<Vec<u8>> {
    key.params.iter().find_map(|(k, v)| match k {
        Label::Int(i) if *i == label => v.as_bytes().cloned(),
        _ => None,
    })
}

pub fn snap_passkey(p: &Passkey) -> CredSnap {
    use coset::CborSerializable;
    CredSnap {
        id: p.credential_id.to_vec(),
        rp_id: p.rp_id.clone(),
        user_handle: p.user_handle.as_ref().map(|b| b.to_vec()),
        counter: p.counter,
        key_cbor: p.key.clone().to_vec().unwrap_or_default(),
        d: cose_param(&p.key, iana::Ec2KeyParameter::D as i64),
        x: cose_param(&p.key, iana::Ec2KeyParameter::X as i64),
        y: cose_param(&p.key, iana::Ec2KeyParameter::Y as i64),
        hmac_uv: p.extensions.hmac_secret.as_ref().map(|h| h.cred_with_uv.clone()),
        hmac_no_uv: p
            .extensions
            .hmac_secret
            .as_ref()
            .and_then(|h| h.cred_without_uv.clone()),
    }
}

impl CredSnap {
    pub fn to_json_public(&self) -> Value {
        json!({"id": hex_short(&self.id), "rp_id": self.rp_id,
            "user_handle": self.user_handle.as_ref().map(|h| hex_short(h)),
            "counter": self.counter, "has_hmac": self.hmac_uv.is_some(), "has_hmac_no_uv": self.hmac_no_uv.is_some()})
    }
}

// ---------------------------------------------------------------------------------------------
// RecStore: reference CredentialStore implementing the documented contract literally.
// ---------------------------------------------------------------------------------------------

#[derive(Clone, Copy, Debug, PartialEq, Eq, Hash)]
pub enum Kind {
    Find,
    Save,
    Update,
    Info,
}

#[derive(Clone, Copy, Debug, PartialEq, Eq)]
pub enum Disc {
    Full,
    OnlyNonDiscoverable,
    Forced,
}

impl Disc {
    pub fn to_lib(self) -> DiscoverabilitySupport {
        match self {
            Disc::Full => DiscoverabilitySupport::Full,
            Disc::OnlyNonDiscoverable => DiscoverabilitySupport::OnlyNonDiscoverable,
            Disc::Forced => DiscoverabilitySupport::ForcedDiscoverable,
        }
    }
    pub fn discoverable(self, rk: bool) -> bool {
        match self {
            Disc::Full => rk,
            Disc::OnlyNonDiscoverable => false,
            Disc::Forced => true,
        }
    }
}

#[derive(Default)]
pub struct Plan {
    /// (kind, n-th call of that kind, 0-based) -> status byte to fail with
    pub faults: HashMap<(Kind, usize), u8>,
    /// every store call of this kind returns Pending this many times before running
    pub yields: HashMap<Kind, usize>,
    pub calls: HashMap<Kind, usize>,
}

pub struct StoreState {
    pub creds: Vec<Passkey>,
    pub plan: Plan,
    /// list results newest first (the contract leaves the listing order to the store)
    pub newest_first: bool,
    /// keep one credential per (RP ID, account) as authenticatorMakeCredential prescribes ("if a credential
    /// for the same RP ID and account ID already exists on the authenticator, overwrite that credential"):
    /// the account is the user entity handed to `save_credential`
    pub one_per_account: bool,
    /// (credential id, RP entity id, user entity id) of every saved credential
    pub accounts: Vec<(Vec<u8>, String, Vec<u8>)>,
}

#[derive(Clone)]
pub struct RecStore {
    pub state: Arc<Mutex<StoreState>>,
    pub log: Arc<Log>,
    pub disc: Disc,
    pub actor: usize,
}

impl RecStore {
    pub fn new(log: Arc<Log>, disc: Disc) -> Self {
        RecStore {
            state: Arc::new(Mutex::new(StoreState {
                creds: Vec::new(),
                plan: Plan::default(),
                newest_first: false,
                one_per_account: false,
                accounts: Vec::new(),
            })),
            log,
            disc,
            actor: 0,
        }
    }
    pub fn with_actor(mut self, a: usize) -> Self {
        self.actor = a;
        self
    }
    pub fn snapshot(&self) -> Vec<CredSnap> {
        self.state.lock().unwrap().creds.iter().map(snap_passkey).collect()
    }
    pub fn passkeys(&self) -> Vec<Passkey> {
        self.state.lock().unwrap().creds.clone()
    }
    pub fn insert_raw(&self, p: Passkey) {
        self.state.lock().unwrap().creds.push(p);
    }
    pub fn set_yields(&self, k: Kind, n: usize) {
        self.state.lock().unwrap().plan.yields.insert(k, n);
    }
    pub fn set_one_per_account(&self, v: bool) {
        self.state.lock().unwrap().one_per_account = v;
    }
    pub fn set_newest_first(&self, v: bool) {
        self.state.lock().unwrap().newest_first = v;
    }
    pub fn set_all_yields(&self, n: usize) {
        for k in [Kind::Find, Kind::Save, Kind::Update, Kind::Info] {
            self.set_yields(k, n);
        }
    }
    pub fn set_fault(&self, k: Kind, nth: usize, code: u8) {
        self.state.lock().unwrap().plan.faults.insert((k, nth), code);
    }
    pub fn clear_plan(&self) {
        let mut g = self.state.lock().unwrap();
        g.plan.faults.clear();
        g.plan.calls.clear();
    }
    pub fn reset_call_counts(&self) {
        self.state.lock().unwrap().plan.calls.clear();
    }
    pub fn call_counts(&self) -> HashMap<Kind, usize> {
        self.state.lock().unwrap().plan.calls.clone()
    }
    /// Enter a call: returns (yields, fault) for this call and bumps the counter.
    fn enter(&self, k: Kind) -> (usize, Option<u8>) {
        let mut g = self.state.lock().unwrap();
        let n = *g.plan.calls.get(&k).unwrap_or(&0);
        g.plan.calls.insert(k, n + 1);
        let y = *g.plan.yields.get(&k).unwrap_or(&0);
        let f = g.plan.faults.get(&(k, n)).copied();
        (y, f)
    }
    /// The documented contract: all credentials matching the ids (when given) and the rp_id,
    /// in insertion order.
    pub fn model_find(creds: &[Passkey], ids: Option<&[Vec<u8>]>, rp_id: &str) -> Vec<Passkey> {
        creds
            .iter()
            .filter(|c| c.rp_id == rp_id)
            .filter(|c| match ids {
                None => true,
                Some(l) => l.iter().any(|i| i.as_slice() == c.credential_id.as_slice()),
            })
            .cloned()
            .collect()
    }
}

#[async_trait::async_trait]
impl CredentialStore for RecStore {
    type PasskeyItem = Passkey;

    async fn find_credentials(
        &self,
        ids: Option<&[PublicKeyCredentialDescriptor]>,
        rp_id: &str,
    ) -> Result<Vec<Passkey>, StatusCode> {
        let (y, f) = self.enter(Kind::Find);
        YieldN(y).await;
        let id_list: Option<Vec<Vec<u8>>> = ids.map(|l| l.iter().map(|d| d.id.to_vec()).collect());
        if let Some(code) = f {
            self.log.push(
                self.actor,
                Ev::Find { ids: id_list, rp: rp_id.to_string(), result: Err(code) },
            );
            return Err(StatusCode::from(code));
        }
        let found = {
            let g = self.state.lock().unwrap();
            let mut f = RecStore::model_find(&g.creds, id_list.as_deref(), rp_id);
            if g.newest_first {
                f.reverse();
            }
            f
        };
        self.log.push(
            self.actor,
            Ev::Find {
                ids: id_list,
                rp: rp_id.to_string(),
                result: Ok(found.iter().map(|p| p.credential_id.to_vec()).collect()),
            },
        );
        Ok(found)
    }

    async fn save_credential(
        &mut self,
        cred: Passkey,
        user: PublicKeyCredentialUserEntity,
        rp: PublicKeyCredentialRpEntity,
        options: Options,
    ) -> Result<(), StatusCode> {
        let (y, f) = self.enter(Kind::Save);
        YieldN(y).await;
        let mk = |result| Ev::Save {
            id: cred.credential_id.to_vec(),
            rp_id: cred.rp_id.clone(),
            rp_entity: rp.id.clone(),
            user_entity: user.id.to_vec(),
            names: (rp.name.clone(), user.name.clone(), user.display_name.clone()),
            user_handle: cred.user_handle.as_ref().map(|b| b.to_vec()),
            counter: cred.counter,
            rk: options.rk,
            up: options.up,
            uv: options.uv,
            has_hmac: cred.extensions.hmac_secret.is_some(),
            result,
        };
        if let Some(code) = f {
            self.log.push(self.actor, mk(Err(code)));
            return Err(StatusCode::from(code));
        }
        // a store that advertises "non-discoverable only" refuses what it says it cannot do
        if self.disc == Disc::OnlyNonDiscoverable && options.rk {
            self.log.push(self.actor, mk(Err(0x2B)));
            return Err(StatusCode::from(0x2B));
        }
        // single step after the last yield: a cancelled call either happened or did not
        let ev = mk(Ok(()));
        {
            let mut g = self.state.lock().unwrap();
            if g.one_per_account {
                // (a credential id is only unique within its RP here: the record that goes is the one of this RP)
                let gone: Vec<Vec<u8>> = g.accounts.iter().filter(|(_, r, u)| *r == rp.id && u.as_slice() == user.id.as_slice()).map(|(i, _, _)| i.clone()).collect();
                g.creds.retain(|c| !(c.rp_id == rp.id && gone.iter().any(|i| c.credential_id.as_slice() == i.as_slice())));
                g.accounts.retain(|(i, r, _)| !(*r == rp.id && gone.contains(i)));
            }
            g.accounts.push((cred.credential_id.to_vec(), rp.id.clone(), user.id.to_vec()));
            g.creds.push(cred);
        }
        self.log.push(self.actor, ev);
        Ok(())
    }

    async fn update_credential(&mut self, cred: Passkey) -> Result<(), StatusCode> {
        let (y, f) = self.enter(Kind::Update);
        YieldN(y).await;
        if let Some(code) = f {
            self.log.push(
                self.actor,
                Ev::Update { id: cred.credential_id.to_vec(), counter: cred.counter, result: Err(code) },
            );
            return Err(StatusCode::from(code));
        }
        let ev = Ev::Update { id: cred.credential_id.to_vec(), counter: cred.counter, result: Ok(()) };
        {
            let mut g = self.state.lock().unwrap();
            if let Some(slot) = g
                .creds
                .iter_mut()
                .find(|c| c.credential_id == cred.credential_id && c.rp_id == cred.rp_id)
            {
                *slot = cred;
            }
            // an update that names no stored record touches nothing (like an SQL UPDATE matching zero rows):
            // updating is not saving
        }
        self.log.push(self.actor, ev);
        Ok(())
    }

    async fn get_info(&self) -> StoreInfo {
        let (y, _f) = self.enter(Kind::Info);
        YieldN(y).await;
        self.log.push(self.actor, Ev::Info);
        StoreInfo { discoverability: self.disc.to_lib() }
    }
}

// ---------------------------------------------------------------------------------------------
// RecUv
// ---------------------------------------------------------------------------------------------

#[derive(Clone, Copy, Debug, PartialEq, Eq, Hash)]
pub enum UvOutcome {
    Check { presence: bool, verification: bool },
    Err(u8),
}

pub struct UvState {
    pub outcome: UvOutcome,
    /// optional script: the n-th call uses script[n] when present
    pub script: Vec<UvOutcome>,
    pub calls: usize,
    pub yields: usize,
    /// thread runs: spin/yield this many times at the suspension point
    pub spin: u32,
    /// a capability report that replaces the one given at construction (the user removed the
    /// biometric, enrolled one, ...), shared by every clone
    pub capability_now: Option<Option<bool>>,
    /// the user is only verified when the authenticator asks for verification (a prompt that shows a
    /// plain "continue" button unless a PIN / biometric is asked for)
    pub verifies_only_when_asked: bool,
}

#[derive(Clone)]
pub struct RecUv {
    pub state: Arc<Mutex<UvState>>,
    pub log: Arc<Log>,
    pub presence_enabled: bool,
    pub verification_enabled: Option<bool>,
    pub actor: usize,
    /// one-shot: a credential that arrives in the given store while the user is being asked (a sync
    /// from another device, another tab finishing a registration)
    pub arrives_during_check: Arc<Mutex<Option<(RecStore, Passkey)>>>,
    /// one-shot: anything else that happens to the world while the user is being asked
    pub during_check: Arc<Mutex<Option<Box<dyn FnOnce() + Send>>>>,
}

impl RecUv {
    pub fn new(log: Arc<Log>, outcome: UvOutcome, verification_enabled: Option<bool>) -> Self {
        RecUv {
            state: Arc::new(Mutex::new(UvState { outcome, script: vec![], calls: 0, yields: 0, spin: 0, capability_now: None, verifies_only_when_asked: false })),
            log,
            presence_enabled: true,
            verification_enabled,
            actor: 0,
            arrives_during_check: Default::default(),
            during_check: Default::default(),
        }
    }
    pub fn set_action_during_check(&self, f: Box<dyn FnOnce() + Send>) {
        *self.during_check.lock().unwrap() = Some(f);
    }
    pub fn set_arrival_during_check(&self, store: RecStore, p: Passkey) {
        *self.arrives_during_check.lock().unwrap() = Some((store, p));
    }
    pub fn ok(log: Arc<Log>) -> Self {
        RecUv::new(log, UvOutcome::Check { presence: true, verification: true }, Some(true))
    }
    pub fn with_actor(mut self, a: usize) -> Self {
        self.actor = a;
        self
    }
    pub fn set_verification_capability(&self, v: Option<bool>) {
        self.state.lock().unwrap().capability_now = Some(v);
    }
    pub fn set_outcome(&self, o: UvOutcome) {
        self.state.lock().unwrap().outcome = o;
    }
    pub fn set_yields(&self, n: usize) {
        self.state.lock().unwrap().yields = n;
    }
    pub fn set_verifies_only_when_asked(&self, v: bool) {
        self.state.lock().unwrap().verifies_only_when_asked = v;
    }
    pub fn set_spin(&self, n: u32) {
        self.state.lock().unwrap().spin = n;
    }
    pub fn calls(&self) -> usize {
        self.state.lock().unwrap().calls
    }
}

#[async_trait::async_trait]
impl UserValidationMethod for RecUv {
    type PasskeyItem = Passkey;

    async fn check_user<'a>(
        &self,
        credential: Option<&'a Passkey>,
        presence: bool,
        verification: bool,
    ) -> Result<UserCheck, Ctap2Error> {
        let (outcome, y, spin) = {
            let mut g = self.state.lock().unwrap();
            let n = g.calls;
            g.calls += 1;
            let mut o = g.script.get(n).copied().unwrap_or(g.outcome);
            if g.verifies_only_when_asked {
                if let UvOutcome::Check { presence: p, verification: v } = o {
                    o = UvOutcome::Check { presence: p, verification: v && verification };
                }
            }
            (o, g.yields, g.spin)
        };
        let shown = credential.map(|c| c.credential_id.to_vec());
        if let Some((store, p)) = self.arrives_during_check.lock().unwrap().take() {
            store.insert_raw(p);
        }
        let action = self.during_check.lock().unwrap().take();
        if let Some(f) = action {
            f();
        }
        YieldN(y).await;
        for _ in 0..spin {
            std::thread::yield_now();
        }
        match outcome {
            UvOutcome::Check { presence: p, verification: v } => {
                self.log.push(
                    self.actor,
                    Ev::CheckUser { shown, up: presence, uv: verification, result: Ok((p, v)) },
                );
                Ok(UserCheck { presence: p, verification: v })
            }
            UvOutcome::Err(code) => {
                self.log.push(
                    self.actor,
                    Ev::CheckUser { shown, up: presence, uv: verification, result: Err(code) },
                );
                // only Ctap2Error values can be returned through this trait
                Err(Ctap2Error::try_from(code).unwrap_or(Ctap2Error::OperationDenied))
            }
        }
    }

    fn is_presence_enabled(&self) -> bool {
        self.presence_enabled
    }

    fn is_verification_enabled(&self) -> Option<bool> {
        self.state.lock().unwrap().capability_now.unwrap_or(self.verification_enabled)
    }
}

// ---------------------------------------------------------------------------------------------
// RecTld: default provider or a private list, logging what it is asked.
// ---------------------------------------------------------------------------------------------

#[derive(Clone)]
pub struct RecTld {
    pub log: Arc<Log>,
    /// extra private suffix rules (plain rules only), consulted before the default list
    pub private: Arc<Vec<String>>,
    /// which error variant a refusal is reported with: 0 = whatever the list lookup says,
    /// 1 = InvalidPublicSuffix, 2 = EmptyLabel, 3 = CannotDeriveETldPlus1 (a provider is free to choose)
    pub err_variant: u8,
}

impl RecTld {
    pub fn default_list(log: Arc<Log>) -> Self {
        RecTld { log, private: Arc::new(vec![]), err_variant: 0 }
    }
    pub fn with_private(log: Arc<Log>, rules: Vec<String>) -> Self {
        RecTld { log, private: Arc::new(rules), err_variant: 0 }
    }
    pub fn reporting_errors_as(mut self, variant: u8) -> Self {
        self.err_variant = variant;
        self
    }
}

impl public_suffix::EffectiveTLDProvider for RecTld {
    fn effective_tld_plus_one<'a>(&self, domain: &'a str) -> Result<&'a str, public_suffix::Error> {
        use public_suffix::{Error, DEFAULT_PROVIDER};
        let res = (|| {
            if domain.starts_with('.') || domain.ends_with('.') || domain.contains("..") || domain.is_empty() {
                return Err(Error::EmptyLabel);
            }
            // longest private rule that is a label-aligned suffix of the domain
            let mut best: Option<&str> = None;
            for r in self.private.iter() {
                let hit = domain == r || domain.ends_with(&format!(".{r}"));
                if hit && best.map_or(true, |b| r.len() > b.len()) {
                    best = Some(r.as_str());
                }
            }
            match best {
                None => DEFAULT_PROVIDER.effective_tld_plus_one(domain),
                Some(r) => {
                    // the default list may know a longer suffix
                    let def_suffix = DEFAULT_PROVIDER.public_suffix(domain);
                    let suffix_len = def_suffix.len().max(r.len());
                    if domain.len() <= suffix_len {
                        return Err(Error::CannotDeriveETldPlus1);
                    }
                    let i = domain.len() - suffix_len - 1;
                    let start = domain[..i].rfind('.').map(|d| d + 1).unwrap_or(0);
                    Ok(&domain[start..])
                }
            }
        })();
        self.log.push(0, Ev::Tld { query: domain.to_string(), ok: res.is_ok() });
        res.map_err(|e| match self.err_variant {
            1 => Error::InvalidPublicSuffix,
            2 => Error::EmptyLabel,
            3 => Error::CannotDeriveETldPlus1,
            _ => e,
        })
    }
}

// ---------------------------------------------------------------------------------------------
// a store whose items are not `Passkey`s (e.g. vault entries): conversion fails while an entry is locked
// ---------------------------------------------------------------------------------------------

#[derive(Clone, Debug)]
pub struct VaultItem {
    pub inner: Passkey,
    pub locked: bool,
    /// what the converted `Passkey` carries as its RP ID (a vault may file entries per RP without
    /// repeating the RP ID in the entry, or keep it in another presentation)
    pub rp_as_converted: Option<String>,
}

impl TryFrom<VaultItem> for Passkey {
    type Error = ();
    fn try_from(v: VaultItem) -> Result<Passkey, ()> {
        if v.locked {
            Err(())
        } else {
            let mut p = v.inner;
            if let Some(rp) = v.rp_as_converted {
                p.rp_id = rp;
            }
            Ok(p)
        }
    }
}

/// The reference store seen through vault items; entries whose id is in `locked` cannot be converted.
#[derive(Clone)]
pub struct VaultStore {
    pub inner: RecStore,
    pub locked: Arc<Mutex<std::collections::HashSet<Vec<u8>>>>,
    pub rp_as_converted: Option<String>,
}

#[async_trait::async_trait]
impl CredentialStore for VaultStore {
    type PasskeyItem = VaultItem;

    async fn find_credentials(
        &self,
        ids: Option<&[PublicKeyCredentialDescriptor]>,
        rp_id: &str,
    ) -> Result<Vec<VaultItem>, StatusCode> {
        let found = self.inner.find_credentials(ids, rp_id).await?;
        let locked = self.locked.lock().unwrap();
        Ok(found.into_iter().map(|p| VaultItem { locked: locked.contains(&p.credential_id.to_vec()), inner: p, rp_as_converted: self.rp_as_converted.clone() }).collect())
    }

    async fn save_credential(
        &mut self,
        cred: Passkey,
        user: PublicKeyCredentialUserEntity,
        rp: PublicKeyCredentialRpEntity,
        options: Options,
    ) -> Result<(), StatusCode> {
        self.inner.save_credential(cred, user, rp, options).await
    }

    async fn update_credential(&mut self, cred: Passkey) -> Result<(), StatusCode> {
        self.inner.update_credential(cred).await
    }

    async fn get_info(&self) -> StoreInfo {
        self.inner.get_info().await
    }
}

#[derive(Clone)]
pub struct VaultUv(pub RecUv);

#[async_trait::async_trait]
impl UserValidationMethod for VaultUv {
    type PasskeyItem = VaultItem;

    async fn check_user<'a>(
        &self,
        credential: Option<&'a VaultItem>,
        presence: bool,
        verification: bool,
    ) -> Result<UserCheck, Ctap2Error> {
        self.0.check_user(credential.map(|v| &v.inner), presence, verification).await
    }

    fn is_presence_enabled(&self) -> bool {
        self.0.is_presence_enabled()
    }

    fn is_verification_enabled(&self) -> Option<bool> {
        self.0.is_verification_enabled()
    }
}
