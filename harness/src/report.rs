//! Run summary written by every property module; the python driver turns it into
//! evidence, known-finding lines and the exit code.

use serde_json::{json, Map, Value};
use std::collections::{BTreeMap, HashSet};

#[derive(Clone, Debug)]
pub struct Violation {
    /// Stable identity of *what* failed (no line numbers, no random values).
    pub signature: String,
    /// Human readable description of this instance.
    pub detail: String,
    /// Everything needed to re-run: at least {"index": n}; plus the case written out.
    pub case: Value,
}

pub struct Report {
    pub property: String,
    pub tier: String,
    pub seed: u64,
    pub rule: String,
    pub exhaustive: bool,
    pub evaluations: u64,
    distinct: HashSet<u64>,
    pub samples: Vec<Value>,
    pub sample_cap: usize,
    violations: Vec<Violation>,
    viol_counts: BTreeMap<String, u64>,
    pub counters: BTreeMap<String, u64>,
    pub observations: Map<String, Value>,
    pub inconclusive: Vec<String>,
    pub assumptions: Vec<String>,
}

impl Report {
    pub fn new(property: &str, tier: &str, seed: u64, rule: &str) -> Self {
        Report {
            property: property.to_string(),
            tier: tier.to_string(),
            seed,
            rule: rule.to_string(),
            exhaustive: false,
            evaluations: 0,
            distinct: HashSet::new(),
            samples: Vec::new(),
            sample_cap: 6,
            violations: Vec::new(),
            viol_counts: BTreeMap::new(),
            counters: BTreeMap::new(),
            observations: Map::new(),
            inconclusive: Vec::new(),
            assumptions: Vec::new(),
        }
    }
    pub fn eval(&mut self) {
        self.evaluations += 1;
    }
    /// Register a case that is non-trivial by the module's rule under its distinctness key.
    pub fn nontrivial(&mut self, key: u64) {
        self.distinct.insert(key);
    }
    pub fn nontrivial_str(&mut self, key: &str) {
        self.distinct.insert(crate::rng::fnv_str(key));
    }
    pub fn distinct_count(&self) -> usize {
        self.distinct.len()
    }
    pub fn count(&mut self, name: &str) {
        *self.counters.entry(name.to_string()).or_insert(0) += 1;
    }
    pub fn count_n(&mut self, name: &str, n: u64) {
        *self.counters.entry(name.to_string()).or_insert(0) += n;
    }
    pub fn get(&self, name: &str) -> u64 {
        self.counters.get(name).copied().unwrap_or(0)
    }
    pub fn sample(&mut self, v: Value) {
        if self.samples.len() < self.sample_cap {
            self.samples.push(v);
        }
    }
    /// Sample with a class label: keeps at most one sample per class (so samples show variety).
    pub fn sample_class(&mut self, class: &str, v: Value) {
        let key = format!("sampled:{class}");
        if self.get(&key) == 0 && self.samples.len() < 24 {
            self.count(&key);
            self.samples.push(json!({"class": class, "case": v}));
        }
    }
    pub fn violate(&mut self, signature: &str, detail: String, case: Value) {
        let c = self.viol_counts.entry(signature.to_string()).or_insert(0);
        *c += 1;
        if *c <= 3 {
            self.violations.push(Violation {
                signature: signature.to_string(),
                detail,
                case,
            });
        }
    }
    pub fn violation_total(&self) -> u64 {
        self.viol_counts.values().sum()
    }
    pub fn obs(&mut self, k: &str, v: Value) {
        self.observations.insert(k.to_string(), v);
    }
    pub fn inconclusive(&mut self, why: String) {
        if self.inconclusive.len() < 20 {
            self.inconclusive.push(why);
        }
    }
    pub fn merge_counters(&mut self, other: &BTreeMap<String, u64>) {
        for (k, v) in other {
            *self.counters.entry(k.clone()).or_insert(0) += v;
        }
    }
    pub fn to_json(&self) -> Value {
        let counters: Map<String, Value> = self
            .counters
            .iter()
            .filter(|(k, _)| !k.starts_with("sampled:"))
            .map(|(k, v)| (k.clone(), json!(v)))
            .collect();
        json!({
            "property": self.property,
            "tier": self.tier,
            "seed": self.seed,
            "rule": self.rule,
            "exhaustive": self.exhaustive,
            "evaluations": self.evaluations,
            "distinct_nontrivial": self.distinct.len(),
            "samples": self.samples,
            "counters": counters,
            "observations": self.observations,
            "violations": self.violations.iter().map(|v| json!({
                "signature": v.signature, "detail": v.detail, "case": v.case,
                "count": self.viol_counts.get(&v.signature).copied().unwrap_or(1),
            })).collect::<Vec<_>>(),
            "violation_signatures": self.viol_counts.iter().map(|(k,v)| json!({"signature":k,"count":v})).collect::<Vec<_>>(),
            "inconclusive": self.inconclusive,
            "assumptions": self.assumptions,
        })
    }
}

pub fn hex(b: &[u8]) -> String {
    let mut s = String::with_capacity(b.len() * 2);
    for x in b {
        s.push_str(&format!("{x:02x}"));
    }
    s
}

pub fn unhex(s: &str) -> Vec<u8> {
    let b = s.as_bytes();
    (0..b.len() / 2)
        .map(|i| u8::from_str_radix(std::str::from_utf8(&b[2 * i..2 * i + 2]).unwrap(), 16).unwrap())
        .collect()
}

/// Truncated hex for witnesses (keeps json small).
pub fn hex_short(b: &[u8]) -> String {
    if b.len() <= 48 {
        hex(b)
    } else {
        format!("{}..({} bytes)", hex(&b[..24]), b.len())
    }
}
