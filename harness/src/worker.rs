//! Crash-isolating case runner.
//!
//! Parent: splits the index range [0,total) over N child processes (`vdrive worker ...`), each of
//! which regenerates case i from (seed, tier, i) itself. A child writes the index it is about to
//! run into a progress file, runs the case under catch_unwind with a panic hook, measures the
//! largest single allocation request, peak live bytes and thread CPU time, and prints one `E` line
//! per interesting outcome and a final `S` summary. When a child dies (abort, stack overflow,
//! signal) the parent attributes the death to the in-flight index and restarts after it. A child
//! that burns more than `cpu_kill_s` of CPU in one case is killed and reported as a hang
//! (decided on CPU time read from /proc, never on wall time); a child that sits idle longer than
//! the wall watchdog is killed and the case reported as inconclusive.

use std::{
    alloc::{GlobalAlloc, Layout, System},
    io::{BufRead, BufReader, Read, Write},
    os::unix::fs::FileExt,
    process::{Command, Stdio},
    sync::{
        atomic::{AtomicBool, AtomicUsize, Ordering},
        Arc, Mutex,
    },
    time::{Duration, Instant},
};

use serde_json::{json, Value};

use crate::Args;

// ---------------------------------------------------------------------------------------------
// counting allocator (no addresses remembered; compiled out for sanitizer / miri builds)
// ---------------------------------------------------------------------------------------------

pub struct Counting;

static MAX_REQ: AtomicUsize = AtomicUsize::new(0);
static LIVE: AtomicUsize = AtomicUsize::new(0);
static PEAK: AtomicUsize = AtomicUsize::new(0);
static LIMIT_ON: AtomicBool = AtomicBool::new(false);
/// requests above this return null while LIMIT_ON (turns a 1 TiB reservation into a clean abort)
pub const HARD_LIMIT: usize = 1 << 30;

unsafe impl GlobalAlloc for Counting {
    unsafe fn alloc(&self, l: Layout) -> *mut u8 {
        let sz = l.size();
        MAX_REQ.fetch_max(sz, Ordering::Relaxed);
        if sz > HARD_LIMIT && LIMIT_ON.load(Ordering::Relaxed) {
            return std::ptr::null_mut();
        }
        let p = System.alloc(l);
        if !p.is_null() {
            let live = LIVE.fetch_add(sz, Ordering::Relaxed) + sz;
            PEAK.fetch_max(live, Ordering::Relaxed);
        }
        p
    }
    unsafe fn dealloc(&self, p: *mut u8, l: Layout) {
        LIVE.fetch_sub(l.size(), Ordering::Relaxed);
        System.dealloc(p, l)
    }
    unsafe fn realloc(&self, p: *mut u8, l: Layout, new: usize) -> *mut u8 {
        MAX_REQ.fetch_max(new, Ordering::Relaxed);
        if new > HARD_LIMIT && LIMIT_ON.load(Ordering::Relaxed) {
            return std::ptr::null_mut();
        }
        let q = System.realloc(p, l, new);
        if !q.is_null() {
            if new >= l.size() {
                let live = LIVE.fetch_add(new - l.size(), Ordering::Relaxed) + (new - l.size());
                PEAK.fetch_max(live, Ordering::Relaxed);
            } else {
                LIVE.fetch_sub(l.size() - new, Ordering::Relaxed);
            }
        }
        q
    }
}

#[cfg(all(feature = "count_alloc", not(miri)))]
#[global_allocator]
static GLOBAL: Counting = Counting;

pub fn alloc_counting_enabled() -> bool {
    cfg!(all(feature = "count_alloc", not(miri)))
}

pub struct AllocMark {
    live0: usize,
}
pub fn alloc_mark() -> AllocMark {
    MAX_REQ.store(0, Ordering::Relaxed);
    let live0 = LIVE.load(Ordering::Relaxed);
    PEAK.store(live0, Ordering::Relaxed);
    AllocMark { live0 }
}
impl AllocMark {
    /// (largest single request, peak live bytes above the level at the mark)
    pub fn read(&self) -> (usize, usize) {
        (MAX_REQ.load(Ordering::Relaxed), PEAK.load(Ordering::Relaxed).saturating_sub(self.live0))
    }
}

#[cfg(not(miri))]
pub fn thread_cpu_ns() -> u64 {
    // /proc/thread-self/schedstat: first field is on-CPU time in ns (no libc needed)
    if let Ok(s) = std::fs::read_to_string("/proc/thread-self/schedstat") {
        if let Some(f) = s.split_whitespace().next() {
            if let Ok(v) = f.parse::<u64>() {
                return v;
            }
        }
    }
    0
}
#[cfg(miri)]
pub fn thread_cpu_ns() -> u64 {
    0
}

// ---------------------------------------------------------------------------------------------
// what a module returns for one isolated case
// ---------------------------------------------------------------------------------------------

#[derive(Default)]
pub struct CaseOut {
    /// outcome class for the histogram (e.g. "ok", "err", "rejected-first-byte")
    pub class: String,
    /// distinctness key if the case is non-trivial by the module's rule
    pub key: Option<u64>,
    /// size of the untrusted input (0 = not a resource-checked case)
    pub input_len: usize,
    pub check_resources: bool,
    pub violations: Vec<(String, String, Value)>,
    pub sample: Option<(String, Value)>,
    pub counters: Vec<(String, u64)>,
    /// (thread CPU ns, largest allocation request, peak live bytes) measured by the module around the
    /// code under test only (input generation excluded); overrides the wrapper's own measurement
    pub measured: Option<(u64, usize, usize)>,
}

/// Measure a closure: (result, cpu ns, largest request, peak live above the starting level).
pub fn measure<T>(f: impl FnOnce() -> T) -> (T, u64, usize, usize) {
    let mark = alloc_mark();
    let c0 = thread_cpu_ns();
    let r = f();
    let cpu = thread_cpu_ns().saturating_sub(c0);
    let (mx, peak) = mark.read();
    (r, cpu, mx, peak)
}

pub struct CaseDesc {
    pub decoder: String,
    pub mutation: String,
    pub case: Value,
}

// ---------------------------------------------------------------------------------------------
// child
// ---------------------------------------------------------------------------------------------

struct PanicInfo {
    msg: String,
    loc: String,
    frame: String,
}

static LAST_PANIC: Mutex<Option<PanicInfo>> = Mutex::new(None);
static PANIC_BT_BUDGET: AtomicUsize = AtomicUsize::new(60);

fn first_repo_frame(bt: &str) -> String {
    // lines come in pairs: "  N: function" / "      at /path:line:col"
    let lines: Vec<&str> = bt.lines().collect();
    for i in 0..lines.len() {
        let l = lines[i].trim();
        if let Some(p) = l.strip_prefix("at ") {
            if p.starts_with("/repo/") || p.contains("/passkey-") || p.contains("/public-suffix/") {
                if p.contains("/verif/") {
                    continue;
                }
                let file = p.rsplitn(3, ':').last().unwrap_or(p);
                let file = file.trim_start_matches("/repo/");
                let func = if i > 0 { lines[i - 1].trim() } else { "" };
                let func = func.splitn(2, ": ").nth(1).unwrap_or(func);
                return format!("{file} {}", simplify_fn(func));
            }
        }
    }
    String::new()
}

fn simplify_fn(f: &str) -> String {
    // drop hashes and generic arguments
    let mut out = String::new();
    let mut depth = 0;
    for c in f.chars() {
        match c {
            '<' => depth += 1,
            '>' => depth -= 1,
            _ if depth == 0 => out.push(c),
            _ => {}
        }
    }
    let out = out.replace("::::", "::");
    match out.rfind("::h") {
        Some(i) if out.len() - i == 19 => out[..i].to_string(),
        _ => out,
    }
}

/// Replace digit runs by N so that messages are stable across inputs.
pub fn message_class(m: &str) -> String {
    let mut out = String::new();
    let mut in_num = false;
    for c in m.chars() {
        if c.is_ascii_digit() {
            if !in_num {
                out.push('N');
            }
            in_num = true;
        } else {
            in_num = false;
            out.push(c);
        }
    }
    out.chars().take(120).collect()
}

pub fn install_panic_hook() {
    std::panic::set_hook(Box::new(|info| {
        let msg = if let Some(s) = info.payload().downcast_ref::<&str>() {
            s.to_string()
        } else if let Some(s) = info.payload().downcast_ref::<String>() {
            s.clone()
        } else {
            "non-string panic".to_string()
        };
        let loc = info
            .location()
            .map(|l| format!("{}:{}", l.file(), l.line()))
            .unwrap_or_default();
        let frame = if PANIC_BT_BUDGET.load(Ordering::Relaxed) > 0 {
            PANIC_BT_BUDGET.fetch_sub(1, Ordering::Relaxed);
            first_repo_frame(&std::backtrace::Backtrace::force_capture().to_string())
        } else {
            String::new()
        };
        *LAST_PANIC.lock().unwrap() = Some(PanicInfo { msg, loc, frame });
    }));
}

/// Run a closure, turning a panic into (signature, detail).
pub fn catch<T>(f: impl FnOnce() -> T) -> Result<T, (String, String)> {
    match std::panic::catch_unwind(std::panic::AssertUnwindSafe(f)) {
        Ok(v) => Ok(v),
        Err(_) => {
            let p = LAST_PANIC.lock().unwrap().take();
            let (msg, loc, frame) = match p {
                Some(p) => (p.msg, p.loc, p.frame),
                None => ("panic (no hook info)".into(), String::new(), String::new()),
            };
            let mut loc_file = loc.rsplitn(2, ':').last().unwrap_or("").trim_start_matches("/repo/").to_string();
            if let Some(i) = loc_file.find("/registry/src/") {
                // dependency source: keep "<crate-version>/src/file.rs"
                let rest = &loc_file[i + "/registry/src/".len()..];
                loc_file = rest.splitn(2, '/').nth(1).unwrap_or(rest).to_string();
            }
            let site = if !frame.is_empty() {
                frame
            } else {
                loc_file
            };
            Err((
                format!("panic at {site}: {}", message_class(&msg)),
                format!("panicked at {loc}: {msg}"),
            ))
        }
    }
}

pub fn child_main(args: &Args) {
    let prop = args.get("prop").unwrap_or("").to_string();
    let from: u64 = args.get("from").and_then(|s| s.parse().ok()).unwrap_or(0);
    let to: u64 = args.get("to").and_then(|s| s.parse().ok()).unwrap_or(0);
    let progress = args.get("progress").map(|p| {
        std::fs::OpenOptions::new().create(true).write(true).truncate(false).open(p).expect("progress file")
    });
    let keys_path = args.get("keys").map(|s| s.to_string());
    install_panic_hook();
    LIMIT_ON.store(true, Ordering::Relaxed);
    let mut inner = args.clone();
    inner.prop = prop.clone();
    let stdout = std::io::stdout();
    let mut classes: std::collections::BTreeMap<String, u64> = Default::default();
    let mut counters: std::collections::BTreeMap<String, u64> = Default::default();
    let mut keys: Vec<u64> = Vec::new();
    let mut samples: Vec<Value> = Vec::new();
    let mut sampled: std::collections::HashSet<String> = Default::default();
    let mut max_alloc_seen = 0usize;
    let mut max_cpu_seen = 0u64;
    let mut ran = 0u64;
    let skip_path = args.get("skip").map(|s| s.to_string());
    let mut skip: std::collections::HashSet<String> = Default::default();
    for idx in from..to {
        if let Some(p) = &skip_path {
            if (idx - from) % 32 == 0 {
                if let Ok(t) = std::fs::read_to_string(p) {
                    skip = t.lines().map(|l| l.to_string()).collect();
                }
            }
            if !skip.is_empty() {
                let d = crate::props::iso_describe(&inner, idx);
                if skip.contains(&format!("{}\t{}", d.decoder, d.mutation)) {
                    *classes.entry("skipped-after-repeated-hang".into()).or_insert(0) += 1;
                    ran += 1;
                    continue;
                }
            }
        }
        if (idx - from) % 2000 == 1999 {
            // partial summary: a later death of this child loses at most 2000 cases of statistics
            flush_child(&keys_path, &mut keys, from, to, &mut ran, &mut classes, &mut counters, &mut samples, max_alloc_seen, max_cpu_seen);
        }
        if let Some(f) = &progress {
            let _ = f.write_at(&idx.to_le_bytes(), 0);
        }
        let mark = alloc_mark();
        let c0 = thread_cpu_ns();
        let res = catch(|| crate::props::iso_case(&inner, idx));
        let cpu = thread_cpu_ns().saturating_sub(c0);
        let (max_req, peak) = mark.read();
        ran += 1;
        let mut emit = |kind: &str, sig: String, detail: String, case: Value| {
            let line = json!({"index": idx, "kind": kind, "signature": sig, "detail": detail, "case": case});
            let mut o = stdout.lock();
            let _ = writeln!(o, "E {line}");
            let _ = o.flush();
        };
        match res {
            Err((sig, detail)) => {
                *classes.entry("panic".into()).or_insert(0) += 1;
                let d = crate::props::iso_describe(&inner, idx);
                emit("panic", format!("{} decoder={}", sig, d.decoder), detail, json!({"index": idx, "decoder": d.decoder, "mutation": d.mutation, "case": d.case}));
            }
            Ok(out) => {
                *classes.entry(out.class.clone()).or_insert(0) += 1;
                for (k, v) in &out.counters {
                    *counters.entry(k.clone()).or_insert(0) += v;
                }
                if let Some(k) = out.key {
                    keys.push(k);
                }
                if let Some((class, v)) = out.sample {
                    if samples.len() < 40 && sampled.insert(class.clone()) {
                        samples.push(json!({"class": class, "case": v}));
                    }
                }
                for (sig, detail, case) in out.violations {
                    emit("violation", sig, detail, case);
                }
                if out.check_resources {
                    let (cpu, max_req, peak) = out.measured.unwrap_or((cpu, max_req, peak));
                    max_alloc_seen = max_alloc_seen.max(max_req);
                    max_cpu_seen = max_cpu_seen.max(cpu);
                    let n = out.input_len;
                    let alloc_lim = (4usize << 20).max(64 * n);
                    let peak_lim = (16usize << 20).max(256 * n);
                    let cpu_lim = 500_000_000u64.max(20_000 * n as u64);
                    let mut res_viol = |what: &str, detail: String| {
                        let d = crate::props::iso_describe(&inner, idx);
                        emit("resource", format!("{what} decoder={} mutation={}", d.decoder, d.mutation), detail,
                            json!({"index": idx, "decoder": d.decoder, "mutation": d.mutation, "case": d.case}));
                    };
                    if alloc_counting_enabled() && max_req > alloc_lim {
                        res_viol("alloc-request", format!("single allocation request of {max_req} bytes for a {n}-byte input (limit {alloc_lim})"));
                    }
                    if alloc_counting_enabled() && peak > peak_lim {
                        res_viol("alloc-peak", format!("peak live {peak} bytes for a {n}-byte input (limit {peak_lim})"));
                    }
                    if cpu > cpu_lim {
                        res_viol("cpu", format!("{} ms thread CPU for a {n}-byte input (limit {} ms)", cpu / 1_000_000, cpu_lim / 1_000_000));
                    }
                }
            }
        }
    }
    flush_child(&keys_path, &mut keys, from, to, &mut ran, &mut classes, &mut counters, &mut samples, max_alloc_seen, max_cpu_seen);
    let mut o = stdout.lock();
    let _ = writeln!(o, "D");
    let _ = o.flush();
}

#[allow(clippy::too_many_arguments)]
fn flush_child(
    keys_path: &Option<String>,
    keys: &mut Vec<u64>,
    from: u64,
    to: u64,
    ran: &mut u64,
    classes: &mut std::collections::BTreeMap<String, u64>,
    counters: &mut std::collections::BTreeMap<String, u64>,
    samples: &mut Vec<Value>,
    max_alloc_seen: usize,
    max_cpu_seen: u64,
) {
    if let (Some(p), false) = (keys_path, keys.is_empty()) {
        let mut bytes = Vec::with_capacity(keys.len() * 8);
        for k in keys.iter() {
            bytes.extend_from_slice(&k.to_le_bytes());
        }
        if let Ok(mut f) = std::fs::OpenOptions::new().create(true).append(true).open(p) {
            let _ = f.write_all(&bytes);
        }
        keys.clear();
    }
    let summary = json!({"from": from, "to": to, "ran": *ran, "classes": classes, "counters": counters,
        "samples": samples, "max_alloc_request": max_alloc_seen, "max_cpu_ns": max_cpu_seen});
    *ran = 0;
    classes.clear();
    counters.clear();
    samples.clear();
    let stdout = std::io::stdout();
    let mut o = stdout.lock();
    let _ = writeln!(o, "S {summary}");
    let _ = o.flush();
}

// ---------------------------------------------------------------------------------------------
// parent
// ---------------------------------------------------------------------------------------------

pub struct IsoCfg {
    pub prop: String,
    pub tier: String,
    pub seed: u64,
    /// index range [start, total)
    pub start: u64,
    pub total: u64,
    pub workers: usize,
    pub cpu_kill_s: f64,
    pub wall_idle_kill_s: f64,
    pub extra: Vec<(String, String)>,
    /// alternative binary (e.g. the release-profile build)
    pub exe: Option<String>,
    /// after this many kills for the same (decoder, mutation) the remaining cases of exactly that
    /// class are skipped (counted as "skipped-after-repeated-hang"), so a known CPU-exhaustion
    /// input does not cost its kill budget thousands of times
    pub skip_after_hangs: Option<u32>,
}

#[derive(Debug, Clone)]
pub struct IsoEvent {
    pub index: u64,
    pub kind: String,
    pub signature: String,
    pub detail: String,
    pub case: Value,
}

#[derive(Default)]
pub struct IsoResult {
    pub events: Vec<IsoEvent>,
    pub classes: std::collections::BTreeMap<String, u64>,
    pub counters: std::collections::BTreeMap<String, u64>,
    pub samples: Vec<Value>,
    pub ran: u64,
    pub distinct_keys: std::collections::HashSet<u64>,
    pub inconclusive: Vec<String>,
    pub restarts: u64,
    pub max_alloc_request: u64,
    pub max_cpu_ns: u64,
    pub hang_counts: std::collections::HashMap<String, u32>,
}

fn skip_file_path(cfg: &IsoCfg) -> String {
    format!("{}/{}-{}.skip", work_dir(), cfg.prop, std::process::id())
}

fn proc_cpu_seconds(pid: u32) -> Option<f64> {
    let s = std::fs::read_to_string(format!("/proc/{pid}/stat")).ok()?;
    let rest = &s[s.rfind(')')? + 2..];
    let f: Vec<&str> = rest.split_whitespace().collect();
    // after the ")" the fields start at index 0 = state; utime is field 14 => index 11, stime index 12
    let ut: f64 = f.get(11)?.parse().ok()?;
    let st: f64 = f.get(12)?.parse().ok()?;
    Some((ut + st) / 100.0)
}

fn work_dir() -> String {
    let d = std::env::var("VDRIVE_WORK").unwrap_or_else(|_| "/verif/work".into());
    let _ = std::fs::create_dir_all(&d);
    d
}

struct Segment {
    from: u64,
    to: u64,
}

fn run_segment(cfg: &IsoCfg, seg: Segment, slot: usize, res: &Mutex<IsoResult>) {
    let exe = cfg.exe.clone().unwrap_or_else(|| std::env::current_exe().unwrap().to_string_lossy().to_string());
    let wd = work_dir();
    let tag = format!("{}-{}-{}", cfg.prop, std::process::id(), slot);
    let progress = format!("{wd}/{tag}.progress");
    let keys = format!("{wd}/{tag}.keys");
    let _ = std::fs::remove_file(&keys);
    let mut from = seg.from;
    while from < seg.to {
        let _ = std::fs::write(&progress, u64::MAX.to_le_bytes());
        let mut cmd = Command::new(&exe);
        cmd.arg("worker")
            .args(["--prop", &cfg.prop, "--tier", &cfg.tier, "--seed", &cfg.seed.to_string()])
            .args(["--from", &from.to_string(), "--to", &seg.to.to_string()])
            .args(["--progress", &progress, "--keys", &keys]);
        if cfg.skip_after_hangs.is_some() {
            cmd.args(["--skip", &skip_file_path(cfg)]);
        }
        for (k, v) in &cfg.extra {
            cmd.arg(format!("--{k}")).arg(v);
        }
        cmd.stdin(Stdio::null()).stdout(Stdio::piped()).stderr(Stdio::piped());
        cmd.env("RUST_BACKTRACE", "0");
        let mut child = match cmd.spawn() {
            Ok(c) => c,
            Err(e) => {
                res.lock().unwrap().inconclusive.push(format!("cannot spawn worker: {e}"));
                return;
            }
        };
        let pid = child.id();
        let stdout = child.stdout.take().unwrap();
        let mut stderr = child.stderr.take().unwrap();
        let done = Arc::new(AtomicBool::new(false));
        let killed: Arc<Mutex<Option<(String, f64)>>> = Arc::new(Mutex::new(None));
        // watchdog
        let wd_handle = {
            let done = done.clone();
            let killed = killed.clone();
            let progress = progress.clone();
            let cpu_kill = cfg.cpu_kill_s;
            let wall_kill = cfg.wall_idle_kill_s;
            std::thread::spawn(move || {
                let mut last_idx = u64::MAX - 1;
                let mut cpu_at_change = 0.0;
                let mut t_change = Instant::now();
                while !done.load(Ordering::SeqCst) {
                    std::thread::sleep(Duration::from_millis(100));
                    let idx = std::fs::read(&progress)
                        .ok()
                        .filter(|b| b.len() >= 8)
                        .map(|b| u64::from_le_bytes(b[..8].try_into().unwrap()))
                        .unwrap_or(u64::MAX);
                    let cpu = proc_cpu_seconds(pid).unwrap_or(0.0);
                    if idx != last_idx {
                        last_idx = idx;
                        cpu_at_change = cpu;
                        t_change = Instant::now();
                        continue;
                    }
                    if cpu - cpu_at_change > cpu_kill {
                        *killed.lock().unwrap() = Some(("cpu".into(), cpu - cpu_at_change));
                        unsafe_kill(pid);
                        return;
                    }
                    if t_change.elapsed().as_secs_f64() > wall_kill {
                        *killed.lock().unwrap() = Some(("wall".into(), t_change.elapsed().as_secs_f64()));
                        unsafe_kill(pid);
                        return;
                    }
                }
            })
        };
        let err_handle = std::thread::spawn(move || {
            let mut s = String::new();
            let _ = stderr.read_to_string(&mut s);
            s
        });
        let mut got_summary = false;
        let mut summarised = 0u64;
        for line in BufReader::new(stdout).lines() {
            let Ok(line) = line else { break };
            if line == "D" {
                got_summary = true;
                continue;
            }
            if let Some(j) = line.strip_prefix("E ") {
                if let Ok(v) = serde_json::from_str::<Value>(j) {
                    res.lock().unwrap().events.push(IsoEvent {
                        index: v["index"].as_u64().unwrap_or(0),
                        kind: v["kind"].as_str().unwrap_or("").to_string(),
                        signature: v["signature"].as_str().unwrap_or("").to_string(),
                        detail: v["detail"].as_str().unwrap_or("").to_string(),
                        case: v["case"].clone(),
                    });
                }
            } else if let Some(j) = line.strip_prefix("S ") {
                if let Ok(v) = serde_json::from_str::<Value>(j) {
                    summarised += v["ran"].as_u64().unwrap_or(0);
                    let mut r = res.lock().unwrap();
                    r.ran += v["ran"].as_u64().unwrap_or(0);
                    if let Some(m) = v["classes"].as_object() {
                        for (k, c) in m {
                            *r.classes.entry(k.clone()).or_insert(0) += c.as_u64().unwrap_or(0);
                        }
                    }
                    if let Some(m) = v["counters"].as_object() {
                        for (k, c) in m {
                            *r.counters.entry(k.clone()).or_insert(0) += c.as_u64().unwrap_or(0);
                        }
                    }
                    if let Some(a) = v["samples"].as_array() {
                        for s in a {
                            if r.samples.len() < 40 {
                                r.samples.push(s.clone());
                            }
                        }
                    }
                    r.max_alloc_request = r.max_alloc_request.max(v["max_alloc_request"].as_u64().unwrap_or(0));
                    r.max_cpu_ns = r.max_cpu_ns.max(v["max_cpu_ns"].as_u64().unwrap_or(0));
                }
            }
        }
        let status = child.wait();
        done.store(true, Ordering::SeqCst);
        let _ = wd_handle.join();
        let stderr_text = err_handle.join().unwrap_or_default();
        if got_summary {
            break;
        }
        // the child died: attribute to the in-flight index
        let idx = std::fs::read(&progress)
            .ok()
            .filter(|b| b.len() >= 8)
            .map(|b| u64::from_le_bytes(b[..8].try_into().unwrap()))
            .unwrap_or(u64::MAX);
        let mut r = res.lock().unwrap();
        r.restarts += 1;
        if idx == u64::MAX || idx < from || idx >= seg.to {
            r.inconclusive.push(format!(
                "worker for {}..{} died before starting a case: {:?} {}",
                from,
                seg.to,
                status,
                stderr_text.lines().last().unwrap_or("")
            ));
            return;
        }
        // cases of this child that ran after its last partial summary
        r.ran += (idx - from + 1).saturating_sub(summarised);
        let mut inner = Args {
            prop: cfg.prop.clone(),
            tier: cfg.tier.clone(),
            seed: cfg.seed,
            out: None,
            only: None,
            engine: None,
            extra: cfg.extra.iter().cloned().collect(),
        };
        inner.prop = cfg.prop.clone();
        let d = crate::props::iso_describe(&inner, idx);
        let case = json!({"index": idx, "decoder": d.decoder, "mutation": d.mutation, "case": d.case});
        let k = killed.lock().unwrap().clone();
        match k {
            Some((why, secs)) if why == "cpu" => {
                if let Some(n) = cfg.skip_after_hangs {
                    let key = format!("{}\t{}", d.decoder, d.mutation);
                    let c = r.hang_counts.entry(key.clone()).or_insert(0);
                    *c += 1;
                    if *c == n {
                        use std::io::Write as _;
                        if let Ok(mut f) = std::fs::OpenOptions::new().create(true).append(true).open(skip_file_path(cfg)) {
                            let _ = writeln!(f, "{key}");
                        }
                    }
                }
                r.events.push(IsoEvent {
                index: idx,
                kind: "hang".into(),
                signature: format!("cpu decoder={} mutation={}", d.decoder, d.mutation),
                detail: format!("case consumed {secs:.1} s of process CPU without returning; worker killed"),
                case,
            })},
            Some((_, secs)) => r.inconclusive.push(format!(
                "case {idx} ({}) made no progress for {secs:.0} s of wall time without using CPU; killed (inconclusive)",
                d.decoder
            )),
            None => {
                let tail: Vec<&str> = stderr_text.lines().rev().take(6).collect();
                let tail: Vec<&str> = tail.into_iter().rev().collect();
                let joined = tail.join(" | ");
                let class = if joined.contains("overflowed its stack") {
                    "stack-overflow".to_string()
                } else if joined.contains("memory allocation of") {
                    "allocation-failure-abort".to_string()
                } else {
                    format!("process-death {}", message_class(&format!("{status:?}")))
                };
                r.events.push(IsoEvent {
                    index: idx,
                    kind: "death".into(),
                    signature: format!("{class} decoder={} mutation={}", d.decoder, d.mutation),
                    detail: format!("worker died ({status:?}); stderr tail: {joined}"),
                    case,
                });
            }
        }
        from = idx + 1;
    }
    // merge keys
    if let Ok(b) = std::fs::read(&keys) {
        let mut r = res.lock().unwrap();
        for c in b.chunks_exact(8) {
            r.distinct_keys.insert(u64::from_le_bytes(c.try_into().unwrap()));
        }
    }
    let _ = std::fs::remove_file(&keys);
    let _ = std::fs::remove_file(&progress);
}

fn unsafe_kill(pid: u32) {
    let _ = Command::new("kill").args(["-9", &pid.to_string()]).status();
}

pub fn run_isolated(cfg: &IsoCfg) -> IsoResult {
    let _ = std::fs::remove_file(skip_file_path(cfg));
    let res = Mutex::new(IsoResult::default());
    let n = cfg.workers.max(1) as u64;
    // many small segments so that workers stay busy: 4 segments per worker
    let span = cfg.total.saturating_sub(cfg.start);
    let segs = (n * 4).min(span.max(1));
    let per = span.div_ceil(segs).max(1);
    let next = AtomicUsize::new(0);
    std::thread::scope(|s| {
        for _w in 0..n {
            s.spawn(|| loop {
                let k = next.fetch_add(1, Ordering::SeqCst) as u64;
                if k >= segs {
                    break;
                }
                let from = cfg.start + k * per;
                let to = (cfg.start + (k + 1) * per).min(cfg.total);
                if from >= to {
                    continue;
                }
                run_segment(cfg, Segment { from, to }, k as usize, &res);
            });
        }
    });
    let _ = std::fs::remove_file(skip_file_path(cfg));
    res.into_inner().unwrap()
}
