//! vdrive: drives the real passkey-rs code under instrumented collaborators and monitors.
//! usage: vdrive <cNN> --tier quick|thorough --seed N --out FILE [--only INDEX] [--engine NAME] [--k v ...]

pub mod collab;
pub mod exec;
pub mod logsink;
pub mod oracle;
pub mod props;
pub mod report;
pub mod rng;
pub mod util;
pub mod worker;

use std::collections::HashMap;

#[derive(Clone, Debug)]
pub struct Args {
    pub prop: String,
    pub tier: String,
    pub seed: u64,
    pub out: Option<String>,
    pub only: Option<u64>,
    pub engine: Option<String>,
    pub extra: HashMap<String, String>,
}

impl Args {
    pub fn thorough(&self) -> bool {
        self.tier == "thorough"
    }
    /// pick quick or thorough size; `VDRIVE_SCALE` (percent) scales both (sanitizer builds use it)
    pub fn size(&self, quick: usize, thorough: usize) -> usize {
        let base = if self.thorough() { thorough } else { quick };
        let scale: usize = self
            .extra
            .get("scale")
            .and_then(|s| s.parse().ok())
            .unwrap_or(100);
        (base * scale / 100).max(1)
    }
    pub fn get(&self, k: &str) -> Option<&str> {
        self.extra.get(k).map(|s| s.as_str())
    }
}

fn parse_args() -> Args {
    let mut it = std::env::args().skip(1);
    let prop = it.next().unwrap_or_else(|| {
        eprintln!("usage: vdrive <cNN|worker> --tier quick|thorough --seed N --out FILE");
        std::process::exit(2)
    });
    let mut a = Args {
        prop,
        tier: "quick".into(),
        seed: 1,
        out: None,
        only: None,
        engine: None,
        extra: HashMap::new(),
    };
    while let Some(k) = it.next() {
        let v = it.next().unwrap_or_default();
        match k.as_str() {
            "--tier" => a.tier = v,
            "--seed" => a.seed = v.parse().unwrap_or(1),
            "--out" => a.out = Some(v),
            "--only" => a.only = v.parse().ok(),
            "--engine" => a.engine = Some(v),
            other => {
                a.extra.insert(other.trim_start_matches("--").to_string(), v);
            }
        }
    }
    a
}

fn main() {
    let args = parse_args();
    logsink::install();
    if args.prop == "worker" {
        worker::child_main(&args);
        return;
    }
    let t0 = std::time::Instant::now();
    worker::install_panic_hook();
    let report = match props::dispatch(&args) {
        Some(r) => r,
        None => {
            eprintln!("unknown property module {}", args.prop);
            std::process::exit(2);
        }
    };
    let mut j = report.to_json();
    j["observations"]["log_records_formatted_in_this_process"] = serde_json::json!(logsink::RECORDS.load(std::sync::atomic::Ordering::Relaxed));
    j["wall_s"] = serde_json::json!(t0.elapsed().as_secs_f64());
    let text = serde_json::to_string_pretty(&j).unwrap();
    match &args.out {
        Some(p) => std::fs::write(p, text).expect("write summary"),
        None => println!("{text}"),
    }
}
