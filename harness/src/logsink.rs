//! A `log` sink installed in every run: applications embedding the library install loggers, so the
//! arguments of the library's log statements are evaluated and their text is observable output.
//! Records are formatted (which runs every Display/Debug the statement names) and the text is kept
//! for the monitors (C06 scans it for secret material).

use std::sync::{
    atomic::{AtomicU64, Ordering},
    Mutex,
};

pub static RECORDS: AtomicU64 = AtomicU64::new(0);
static LINES: Mutex<Vec<String>> = Mutex::new(Vec::new());
const KEEP: usize = 4096;

struct Sink;
static SINK: Sink = Sink;

impl log::Log for Sink {
    fn enabled(&self, _: &log::Metadata) -> bool {
        true
    }
    fn log(&self, r: &log::Record) {
        let line = format!("{} {}: {}", r.level(), r.target(), r.args());
        RECORDS.fetch_add(1, Ordering::Relaxed);
        if let Ok(mut g) = LINES.lock() {
            if g.len() < KEEP {
                g.push(line);
            }
        }
    }
    fn flush(&self) {}
}

pub fn install() {
    let _ = log::set_logger(&SINK);
    log::set_max_level(log::LevelFilter::Trace);
}

/// Lines logged since the last call.
pub fn drain() -> Vec<String> {
    LINES.lock().map(|mut g| std::mem::take(&mut *g)).unwrap_or_default()
}
