//! C11 — discoverability follows request and store capability and is reported truthfully.
//! Complete product on every run.

use passkey_client::{DefaultClientData, WebauthnError};
use passkey_types::webauthn::{
    AuthenticationExtensionsClientInputs, AuthenticatorSelectionCriteria, ResidentKeyRequirement, UserVerificationRequirement,
};
use serde_json::json;

use crate::{
    collab::{Disc, Ev},
    exec::block_on,
    props::c02::replay_index,
    report::Report,
    rng::fnv_str,
    util::{creation_options, descriptor, ga_request, mc_request, pk_param, request_options, status_byte_ref, url, AuthCfg, Rig},
    worker::catch,
    Args,
};

/// WebAuthn L3 §5.1.3 step "requireResidentKey" table, written from the specification.
fn map_rk(resident_key: Option<ResidentKeyRequirement>, require: bool, authenticator_supports_rk: bool) -> bool {
    match resident_key {
        Some(ResidentKeyRequirement::Required) => true,
        Some(ResidentKeyRequirement::Preferred) => authenticator_supports_rk,
        Some(ResidentKeyRequirement::Discouraged) => false,
        None => require,
    }
}

pub fn run(args: &Args) -> Report {
    let mut rep = Report::new(
        "C11",
        &args.tier,
        args.seed,
        "complete product store capability (full, non-discoverable only, forced) x residentKey (absent, discouraged, preferred, required) x requireResidentKey x credProps (absent, false, true) x signature counters on/off x PRF requested-and-configured or not at client level x user id length (1, 8, 64 bytes) at client level and rk x capability x store form (the store itself, Arc<Mutex>, Arc<RwLock>, Mutex, RwLock around it) at CTAP level, each followed by an assertion with the new credential; plus 108 cells of two registrations on one authenticator whose store changes capability in between, under every verification-capability report, each followed by assertions with every credential then held; registration requests decoded from JSON on four routes; distinct by the tuple; every tuple is non-trivial (finite product)",
    );
    rep.exhaustive = true;
    let only = replay_index(args);
    let mut index = 0u64;
    for disc in [Disc::Full, Disc::OnlyNonDiscoverable, Disc::Forced] {
        let supports_rk = disc != Disc::OnlyNonDiscoverable;
        // ---------------- client level
        for rk_req in [None, Some(ResidentKeyRequirement::Discouraged), Some(ResidentKeyRequirement::Preferred), Some(ResidentKeyRequirement::Required)] {
            for require in [false, true] {
                for cred_props in [None, Some(false), Some(true)] {
                  for (counters, prf) in [(false, false), (true, false), (false, true), (true, true)] {
                   for (uid, selection_absent, unknown_rk_text, json_route) in [(0usize, false, false, 0u8), (1, false, false, 0), (2, false, false, 0), (0, true, false, 0), (0, false, true, 0), (0, false, false, 1), (0, false, false, 2), (0, false, false, 3), (0, false, false, 4)] {
                    // the request arrives as JSON and is decoded on one of the routes serde_json offers (from a
                    // string, from a tree, from a reader, from a string whose residentKey text carries an escape)
                    // (an absent residentKey is decoded too: a Level 1 relying party writes only requireResidentKey)
                    if json_route > 0 && (counters || prf || (rk_req.is_none() && json_route == 4)) {
                        continue;
                    }
                    // the whole authenticatorSelection member absent: only meaningful where it says nothing
                    if selection_absent && (rk_req.is_some() || require) {
                        continue;
                    }
                    // the request arrives as JSON whose residentKey is a string this version does not know:
                    // it is ignored as if absent, so requireResidentKey decides
                    if unknown_rk_text && rk_req.is_some() {
                        continue;
                    }
                    let user_id: Vec<u8> = match uid {
                        0 => b"the-user".to_vec(),
                        1 => vec![0x55],
                        _ => vec![0xA7; 64],
                    };
                    index += 1;
                    if only.map_or(false, |o| o != index) {
                        continue;
                    }
                    rep.eval();
                    let case = json!({"index": index, "level": "client", "capability": format!("{disc:?}"), "residentKey": rk_req.map(|r| format!("{r:?}")), "requireResidentKey": require, "credProps": cred_props, "signature_counters": counters, "prf_requested_and_configured": prf, "user_id_len": user_id.len(), "authenticatorSelection_absent": selection_absent, "residentKey_is_an_unknown_string_in_json": unknown_rk_text, "decoded_from_json": ([serde_json::Value::Null, json!("from_str"), json!("from_value"), json!("from_reader"), json!("from_str, escaped residentKey text")][usize::from(json_route)])});
                    rep.nontrivial(fnv_str(&case.to_string()));
                    let want_rk = map_rk(rk_req, require, supports_rk);
                    let refused = want_rk && !supports_rk;
                    let discoverable = disc.discoverable(want_rk);
                    let r = catch(|| {
                        let rig = Rig::ok(disc);
                        let mut client = rig.client(AuthCfg { counters, hmac: if prf { crate::util::HmacCfg::WithoutUv } else { crate::util::HmacCfg::None }, hmac_mc: prf, ..Default::default() });
                        let mut opts = creation_options(Some("example.com"), &user_id, "n", &[1u8; 16], vec![pk_param(coset::iana::Algorithm::ES256)]);
                        opts.public_key.authenticator_selection = Some(AuthenticatorSelectionCriteria {
                            authenticator_attachment: None,
                            resident_key: rk_req,
                            require_resident_key: require,
                            user_verification: UserVerificationRequirement::Preferred,
                        });
                        if rk_req.is_none() && uid == 1 {
                            // the members a caller does not care about left to the type's Default
                            opts.public_key.authenticator_selection = Some(AuthenticatorSelectionCriteria { require_resident_key: require, ..Default::default() });
                        }
                        if selection_absent {
                            opts.public_key.authenticator_selection = None;
                        }
                        fn drop_nulls(v: &mut serde_json::Value) {
                            match v {
                                serde_json::Value::Object(m) => {
                                    m.retain(|_, x| !x.is_null());
                                    m.values_mut().for_each(drop_nulls);
                                }
                                serde_json::Value::Array(a) => a.iter_mut().for_each(drop_nulls),
                                _ => {}
                            }
                        }
                        if unknown_rk_text {
                            let mut v = serde_json::to_value(&opts).expect("options serialise");
                            v["publicKey"]["authenticatorSelection"]["residentKey"] = json!("a-value-from-the-future");
                            drop_nulls(&mut v);
                            opts = serde_json::from_value(v).expect("options with an unknown residentKey string parse");
                        }
                        if json_route > 0 {
                            let mut v = serde_json::to_value(&opts).expect("options serialise");
                            drop_nulls(&mut v);
                            let text = v.to_string();
                            opts = match json_route {
                                1 => serde_json::from_str(&text).expect("options parse from a string"),
                                2 => serde_json::from_value(v).expect("options parse from a tree"),
                                3 => serde_json::from_reader(text.as_bytes()).expect("options parse from a reader"),
                                _ => {
                                    // the second character of the residentKey text written as an escape
                                    let word = v["publicKey"]["authenticatorSelection"]["residentKey"].as_str().expect("residentKey is a string").to_string();
                                    let esc = format!("{}\\u{:04x}{}", &word[..1], word.as_bytes()[1], &word[2..]);
                                    let t2 = text.replacen(&format!("\"residentKey\":\"{word}\""), &format!("\"residentKey\":\"{esc}\""), 1);
                                    assert_ne!(t2, text, "the residentKey text was not found in the serialised options");
                                    serde_json::from_str(&t2).expect("options with an escaped residentKey text parse")
                                }
                            };
                        }
                        if cred_props.is_some() || prf {
                            opts.public_key.extensions = Some(AuthenticationExtensionsClientInputs {
                                cred_props,
                                prf: prf.then(|| passkey_types::webauthn::AuthenticationExtensionsPrfInputs { eval: Some(passkey_types::webauthn::AuthenticationExtensionsPrfValues { first: vec![1, 2, 3].into(), second: None }), eval_by_credential: None }),
                                ..Default::default()
                            });
                        }
                        let origin = url("https://example.com");
                        let reg = block_on(client.register(&origin, opts, DefaultClientData));
                        let events = rig.log.snapshot();
                        let snap = rig.store.snapshot();
                        let auth = match &reg {
                            Ok(c) => Some(block_on(client.authenticate(&origin, request_options(Some("example.com"), &[2u8; 16], Some(vec![descriptor(&c.raw_id)]), UserVerificationRequirement::Preferred), DefaultClientData))),
                            Err(_) => None,
                        };
                        // a second assertion in which the user is present but not verified
                        let auth2 = match &reg {
                            Ok(c) => {
                                rig.uv.set_outcome(crate::collab::UvOutcome::Check { presence: true, verification: false });
                                Some(block_on(client.authenticate(&origin, request_options(Some("example.com"), &[3u8; 16], Some(vec![descriptor(&c.raw_id)]), UserVerificationRequirement::Discouraged), DefaultClientData)).map(|a| a.response.user_handle.map(|h| h.to_vec())))
                            }
                            Err(_) => None,
                        };
                        let snap_after = rig.store.snapshot();
                        (reg, events, snap, auth, auth2, snap_after)
                    });
                    let (reg, events, snap, auth, auth2, snap_after) = match r {
                        Ok(v) => v,
                        Err((sig, d)) => {
                            rep.violate(&format!("client: {sig}"), d, case);
                            continue;
                        }
                    };
                    let saved_rk: Option<bool> = events.iter().find_map(|e| if let Ev::Save { rk, .. } = &e.ev { Some(*rk) } else { None });
                    match reg {
                        Err(e) => {
                            rep.count("client_refused");
                            if !refused {
                                rep.violate("client: registration failed although the request is satisfiable under the store capability", format!("{e:?}"), case.clone());
                            } else if e != WebauthnError::AuthenticatorError(0x2B) {
                                rep.count("refusal_with_other_status");
                            }
                            if !snap.is_empty() {
                                rep.violate("client: refused registration stored a credential", String::new(), case.clone());
                            }
                        }
                        Ok(c) => {
                            rep.count("client_registered");
                            if refused {
                                rep.violate("client: a required resident key was not refused by a non-discoverable-only store", String::new(), case.clone());
                            }
                            if saved_rk != Some(want_rk) {
                                rep.violate("client: rk option sent to the authenticator does not follow the WebAuthn mapping", format!("store saw rk={saved_rk:?}, mapping says {want_rk}"), case.clone());
                            }
                            let stored = snap.iter().find(|s| s.id == c.raw_id.as_slice());
                            match stored {
                                None => rep.violate("client: registered credential not in the store", String::new(), case.clone()),
                                Some(s) => {
                                    if s.user_handle.is_some() != discoverable {
                                        rep.violate("client: user handle stored differently from discoverability under the store capability", format!("stored {}, discoverable {discoverable}", s.user_handle.is_some()), case.clone());
                                    }
                                    if s.user_handle.as_deref().map_or(false, |h| h != user_id.as_slice()) {
                                        rep.violate("client: stored user handle is not the request's user id", String::new(), case.clone());
                                    }
                                    let cp = c.client_extension_results.cred_props.as_ref();
                                    if cred_props == Some(true) {
                                        if cp.and_then(|p| p.discoverable) != Some(s.user_handle.is_some()) {
                                            rep.violate("client: credProps.rk does not equal whether the stored credential is discoverable", format!("credProps {:?}, stored discoverable {}", cp.map(|p| p.discoverable), s.user_handle.is_some()), case.clone());
                                        }
                                        // ... and in the response as the relying party receives it (serialised)
                                        let wire = serde_json::to_value(&c).ok();
                                        let wire_rk = wire.as_ref().and_then(|w| w["clientExtensionResults"]["credProps"]["rk"].as_bool());
                                        if wire_rk != Some(s.user_handle.is_some()) {
                                            rep.violate("client: credProps.rk in the serialised response does not equal whether the stored credential is discoverable", format!("serialised {:?}, stored discoverable {}", wire.as_ref().map(|w| w["clientExtensionResults"]["credProps"].to_string()), s.user_handle.is_some()), case.clone());
                                        }
                                        rep.count("credprops_checked");
                                    } else if cp.is_some() {
                                        rep.violate("client: credProps output present although not requested", String::new(), case.clone());
                                    }
                                    match auth {
                                        Some(Ok(a)) => {
                                            rep.count("assertions_checked");
                                            if a.response.user_handle.is_some() != s.user_handle.is_some() {
                                                rep.violate("client: assertion returns a user handle differently from what the credential stores", format!("returned {}, stored {}", a.response.user_handle.is_some(), s.user_handle.is_some()), case.clone());
                                            }
                                            if let (Some(r), Some(h)) = (&a.response.user_handle, &s.user_handle) {
                                                if r.as_slice() != h.as_slice() {
                                                    rep.violate("client: assertion returns a different user handle than stored", String::new(), case.clone());
                                                }
                                            }
                                        }
                                        Some(Err(e)) => rep.violate("client: follow-up assertion failed", format!("{e:?}"), case.clone()),
                                        None => {}
                                    }
                                    if let Some(a) = snap_after.iter().find(|x| x.id == s.id) {
                                        if a.user_handle != s.user_handle {
                                            rep.violate("client: the stored user handle changed after assertions", format!("before {:?} after {:?}", s.user_handle.is_some(), a.user_handle.is_some()), case.clone());
                                        }
                                    }
                                    match auth2 {
                                        Some(Ok(uh)) => {
                                            rep.count("unverified_assertions_checked");
                                            if uh.as_deref() != s.user_handle.as_deref() {
                                                rep.violate("client: assertion without user verification returns a user handle differently from what the credential stores", format!("returned {}, stored {}", uh.is_some(), s.user_handle.is_some()), case.clone());
                                            }
                                        }
                                        Some(Err(e)) => rep.violate("client: follow-up assertion (user present, not verified, verification discouraged) failed", format!("{e:?}"), case.clone()),
                                        None => {}
                                    }
                                }
                            }
                        }
                    }
                    rep.sample_class(&format!("client/{disc:?}/{}", if refused { "refused" } else { "ok" }), case);
                   }
                  }
                }
            }
        }
        // ---------------- CTAP level
        for (rk, form) in [false, true].into_iter().flat_map(|rk| (0..7usize).map(move |f| (rk, f))) {
            // form 5: the request arrives as CBOR whose options map does not name "rk"
            if form == 5 && rk {
                continue;
            }
            index += 1;
            if only.map_or(false, |o| o != index) {
                continue;
            }
            rep.eval();
            let form_name = ["store", "Arc<Mutex<store>>", "Arc<RwLock<store>>", "Mutex<store>", "RwLock<store>", "store, request decoded from CBOR with an options map that does not name rk", "store, request encoded by the library and decoded again (as behind a transport)"][form];
            let case = json!({"index": index, "level": "ctap", "capability": format!("{disc:?}"), "rk": rk, "store_form": form_name});
            rep.nontrivial(fnv_str(&case.to_string()));
            let refused = rk && !supports_rk;
            let discoverable = disc.discoverable(rk);
            let r = catch(|| {
                let rig = Rig::ok(disc);
                match form {
                    0 => ctap_cell(rig.store.clone(), &rig, rk, false),
                    5 => ctap_cell(rig.store.clone(), &rig, rk, true),
                    6 => ctap_cell_through_the_wire(rig.store.clone(), &rig, rk),
                    1 => ctap_cell(std::sync::Arc::new(tokio::sync::Mutex::new(rig.store.clone())), &rig, rk, false),
                    2 => ctap_cell(std::sync::Arc::new(tokio::sync::RwLock::new(rig.store.clone())), &rig, rk, false),
                    3 => ctap_cell(tokio::sync::Mutex::new(rig.store.clone()), &rig, rk, false),
                    _ => ctap_cell(tokio::sync::RwLock::new(rig.store.clone()), &rig, rk, false),
                }
            });
            let (info_rk, reg, snap, get, get2) = match r {
                Ok(v) => v,
                Err((sig, d)) => {
                    rep.violate(&format!("ctap: {sig}"), d, case);
                    continue;
                }
            };
            if info_rk != Some(supports_rk) {
                rep.violate("ctap: get_info rk option does not reflect the store capability", format!("{info_rk:?}"), case.clone());
            }
            match reg {
                Err(b) => {
                    rep.count("ctap_refused");
                    if !refused {
                        rep.violate("ctap: make_credential failed although rk is satisfiable", format!("{b:#x}"), case.clone());
                    }
                    if !snap.is_empty() {
                        rep.violate("ctap: refused registration stored a credential", String::new(), case.clone());
                    }
                }
                Ok(()) => {
                    rep.count("ctap_registered");
                    if refused {
                        rep.violate("ctap: rk=true was not refused by a non-discoverable-only store", String::new(), case.clone());
                    }
                    let Some(s) = snap.first() else {
                        rep.violate("ctap: registered credential not in the store", String::new(), case.clone());
                        continue;
                    };
                    if s.user_handle.is_some() != discoverable {
                        rep.violate("ctap: user handle stored differently from discoverability under the store capability", format!("stored {}, discoverable {discoverable}", s.user_handle.is_some()), case.clone());
                    }
                    match get {
                        Some(Ok(uh)) => {
                            rep.count("assertions_checked");
                            if uh.is_some() != s.user_handle.is_some() || uh.as_deref() != s.user_handle.as_deref() {
                                rep.violate("ctap: assertion returns a user handle differently from what the credential stores", String::new(), case.clone());
                            }
                        }
                        Some(Err(b)) => rep.violate("ctap: follow-up assertion failed", format!("{b:#x}"), case.clone()),
                        None => {}
                    }
                    match get2 {
                        Some(Ok(uh)) => {
                            rep.count("unverified_assertions_checked");
                            if uh.as_deref() != s.user_handle.as_deref() {
                                rep.violate("ctap: assertion without user verification returns a user handle differently from what the credential stores", String::new(), case.clone());
                            }
                        }
                        Some(Err(b)) => rep.violate("ctap: follow-up assertion (not verified) failed", format!("{b:#x}"), case.clone()),
                        None => {}
                    }
                }
            }
            rep.sample_class(&format!("ctap/{disc:?}/{rk}/{form_name}"), case);
        }
    }
    // ---------------- one authenticator, the store's capability changing between two registrations,
    // under every report of the user-validation method about its verification capability
    for d1 in [Disc::Full, Disc::OnlyNonDiscoverable, Disc::Forced] {
        for d2 in [Disc::Full, Disc::OnlyNonDiscoverable, Disc::Forced] {
            for (rk1, rk2) in [(false, false), (false, true), (true, false), (true, true)] {
                for ver_cap in [Some(true), Some(false), None] {
                    index += 1;
                    if only.map_or(false, |o| o != index) {
                        continue;
                    }
                    rep.eval();
                    let case = json!({"index": index, "level": "ctap", "part": "capability changes between two registrations on one authenticator", "capability_first": format!("{d1:?}"), "capability_then": format!("{d2:?}"), "rk_first": rk1, "rk_then": rk2, "verification_capability": ver_cap});
                    rep.nontrivial(fnv_str(&case.to_string()));
                    let r = catch(|| {
                        let rig = Rig::new(d1, crate::collab::UvOutcome::Check { presence: true, verification: ver_cap == Some(true) }, ver_cap);
                        let mut auth = rig.auth(AuthCfg::default());
                        let info1 = block_on(auth.get_info()).options.map(|o| o.rk);
                        let first = block_on(auth.make_credential(mc_request("example.com", b"first", &[1u8; 32], vec![pk_param(coset::iana::Algorithm::ES256)], None, None, rk1, true, false))).map(|_| ()).map_err(|e| status_byte_ref(&e));
                        auth.store_mut().disc = d2;
                        let info2 = block_on(auth.get_info()).options.map(|o| o.rk);
                        let n_before = rig.store.snapshot().len();
                        let second = block_on(auth.make_credential(mc_request("example.com", b"second", &[2u8; 32], vec![pk_param(coset::iana::Algorithm::ES256)], None, None, rk2, true, false))).map(|_| ()).map_err(|e| status_byte_ref(&e));
                        let snap = rig.store.snapshot();
                        // every credential now held asserts under the store's present capability
                        let asserts: Vec<(Option<Vec<u8>>, Result<Option<Vec<u8>>, u8>)> = snap
                            .iter()
                            .map(|c| {
                                let r = block_on(auth.get_assertion(ga_request("example.com", &[3u8; 32], Some(vec![descriptor(&c.id)]), None, true, false)));
                                (c.user_handle.clone(), r.map(|r| r.user.map(|u| u.id.to_vec())).map_err(|e| status_byte_ref(&e)))
                            })
                            .collect();
                        (info1, first, info2, second, n_before, snap, asserts)
                    });
                    let (info1, first, info2, second, n_before, snap, asserts) = match r {
                        Ok(v) => v,
                        Err((sig, d)) => {
                            rep.violate(&format!("ctap: {sig}"), d, case);
                            continue;
                        }
                    };
                    let sup1 = d1 != Disc::OnlyNonDiscoverable;
                    let sup2 = d2 != Disc::OnlyNonDiscoverable;
                    if info1 != Some(sup1) || info2 != Some(sup2) {
                        rep.violate("ctap: get_info rk option does not reflect the store capability", format!("{info1:?} under {d1:?}, then {info2:?} under {d2:?}"), case.clone());
                    }
                    if first.is_ok() == (rk1 && !sup1) {
                        rep.violate("ctap: first registration not refused exactly when rk is asked of a non-discoverable-only store", format!("{first:?}"), case.clone());
                    }
                    rep.count("capability_change_cells");
                    for (stored, got) in &asserts {
                        match got {
                            Ok(uh) => {
                                rep.count("assertions_after_capability_change_checked");
                                if uh != stored {
                                    rep.violate("ctap: assertion returns a user handle differently from what the credential stores", format!("the credential was created under {d1:?} or {d2:?} and is used under {d2:?}: stored {:?}, returned {:?}", stored.as_ref().map(|h| h.len()), uh.as_ref().map(|h| h.len())), case.clone());
                                }
                            }
                            Err(b) => rep.violate("ctap: follow-up assertion failed", format!("{b:#x} after the capability change"), case.clone()),
                        }
                    }
                    match second {
                        Err(b) => {
                            if !(rk2 && !sup2) {
                                rep.violate("ctap: make_credential failed although rk is satisfiable under the store's present capability", format!("{b:#x}"), case.clone());
                            }
                            if snap.len() != n_before {
                                rep.violate("ctap: refused registration stored a credential", String::new(), case.clone());
                            }
                        }
                        Ok(()) => {
                            if rk2 && !sup2 {
                                rep.violate("ctap: rk=true was not refused by a store that has become non-discoverable-only", String::new(), case.clone());
                            }
                            match snap.last() {
                                Some(s) if snap.len() == n_before + 1 => {
                                    if s.user_handle.is_some() != d2.discoverable(rk2) {
                                        rep.violate("ctap: user handle stored differently from discoverability under the store's present capability", format!("stored {}, discoverable {}", s.user_handle.is_some(), d2.discoverable(rk2)), case.clone());
                                    }
                                }
                                _ => rep.violate("ctap: successful registration did not add one credential", String::new(), case.clone()),
                            }
                        }
                    }
                }
            }
        }
    }
    // ---------------- a store whose area for new credentials is full (or busy) at the first attempt and
    // accepts a second one: a registration either fails and stores nothing, or creates what was asked for
    for disc in [Disc::Full, Disc::Forced] {
        for rk_req in [ResidentKeyRequirement::Required, ResidentKeyRequirement::Preferred, ResidentKeyRequirement::Discouraged] {
            for code in [0x28u8, 0x2E, 0x01] {
                index += 1;
                if only.map_or(false, |o| o != index) {
                    continue;
                }
                rep.eval();
                let case = json!({"index": index, "level": "client", "part": "the store refuses the first save and accepts a second one", "capability": format!("{disc:?}"), "residentKey": format!("{rk_req:?}"), "status_of_the_refused_save": code});
                rep.nontrivial(fnv_str(&case.to_string()));
                let want_rk = map_rk(Some(rk_req), false, true);
                let r = catch(|| {
                    let rig = Rig::ok(disc);
                    rig.store.set_fault(crate::collab::Kind::Save, 0, code);
                    let mut client = rig.client(AuthCfg::default());
                    let mut opts = creation_options(Some("example.com"), b"the-user", "n", &[1u8; 16], vec![pk_param(coset::iana::Algorithm::ES256)]);
                    opts.public_key.authenticator_selection = Some(AuthenticatorSelectionCriteria { authenticator_attachment: None, resident_key: Some(rk_req), require_resident_key: false, user_verification: UserVerificationRequirement::Preferred });
                    opts.public_key.extensions = Some(AuthenticationExtensionsClientInputs { cred_props: Some(true), ..Default::default() });
                    let reg = block_on(client.register(&url("https://example.com"), opts, DefaultClientData));
                    (reg.map(|c| c.client_extension_results.cred_props.and_then(|p| p.discoverable)), rig.store.snapshot(), rig.log.snapshot())
                });
                match r {
                    Err((sig, d)) => rep.violate(&format!("client: {sig}"), d, case),
                    Ok((Err(_), snap, _)) => {
                        rep.count("refused_save_registration_failed");
                        if !snap.is_empty() {
                            rep.violate("client: a registration that failed stored a credential", String::new(), case);
                        }
                    }
                    Ok((Ok(props), snap, events)) => {
                        rep.count("refused_save_registration_succeeded");
                        let stored = snap.last();
                        let told: Vec<bool> = events.iter().filter_map(|e| if let Ev::Save { rk, result: Ok(()), .. } = &e.ev { Some(*rk) } else { None }).collect();
                        if stored.map(|s| s.user_handle.is_some()) != Some(disc.discoverable(want_rk)) || told != vec![want_rk] {
                            rep.violate("client: user handle stored / rk option sent differently from the WebAuthn mapping", format!("after a refused first save: stored handle {:?}, store told rk={told:?}, mapping says rk={want_rk}", stored.map(|s| s.user_handle.is_some())), case.clone());
                        }
                        if props != Some(disc.discoverable(want_rk)) {
                            rep.violate("client: credProps.rk is not whether the credential is discoverable", format!("{props:?} after a refused first save"), case);
                        }
                    }
                }
            }
        }
    }
    // ---------------- U2F registrations (the second way a new credential reaches the store): the resident-key
    // option sent with them is "not requested", so under a full or a non-discoverable-only capability the
    // record stores no user handle; under every capability a later CTAP2 assertion with the key handle
    // returns a user handle exactly when the record stores one (and then that one)
    for disc in [Disc::Full, Disc::OnlyNonDiscoverable, Disc::Forced] {
        for handle_len in [16usize, 64] {
            index += 1;
            if only.map_or(false, |o| o != index) {
                continue;
            }
            rep.eval();
            let case = json!({"index": index, "level": "u2f", "capability": format!("{disc:?}"), "key_handle_len": handle_len});
            rep.nontrivial(fnv_str(&case.to_string()));
            let r = catch(|| {
                use passkey_authenticator::U2fApi;
                let rig = Rig::ok(disc);
                let mut auth = crate::util::mk_auth(rig.store.clone(), rig.uv.clone(), AuthCfg::default());
                let handle: Vec<u8> = (0..handle_len).map(|i| 0x40 + i as u8).collect();
                let reg = block_on(auth.register(passkey_types::u2f::RegisterRequest { challenge: [7u8; 32], application: [9u8; 32] }, &handle)).map(|_| ()).map_err(|e| format!("{e:?}"));
                let snap = rig.store.snapshot();
                let told: Vec<bool> = rig.log.snapshot().iter().filter_map(|e| if let Ev::Save { rk, result: Ok(()), .. } = &e.ev { Some(*rk) } else { None }).collect();
                let get = match (&reg, snap.first()) {
                    (Ok(()), Some(s)) => Some(block_on(auth.get_assertion(ga_request(&s.rp_id, &[2u8; 32], Some(vec![descriptor(&s.id)]), None, true, false))).map(|r| r.user.map(|u| u.id.to_vec())).map_err(|e| status_byte_ref(&e))),
                    _ => None,
                };
                (reg, snap, told, get)
            });
            match r {
                Err((sig, d)) => rep.violate(&format!("u2f: {sig}"), d, case),
                Ok((Err(e), snap, _, _)) => {
                    rep.count("u2f_registration_refused");
                    if !snap.is_empty() {
                        rep.violate("u2f: a registration that failed stored a credential", e, case);
                    }
                }
                Ok((Ok(()), snap, told, get)) => {
                    rep.count("u2f_registered");
                    let Some(s) = snap.first() else {
                        rep.violate("u2f: registered credential not in the store", String::new(), case);
                        continue;
                    };
                    if told != vec![false] {
                        rep.violate("u2f: resident-key option sent with a U2F registration is not 'not requested'", format!("store told rk={told:?}"), case.clone());
                    }
                    if disc != Disc::Forced && s.user_handle.is_some() {
                        rep.violate("u2f: user handle stored although the credential is not discoverable under the store capability", format!("rk not requested, capability {disc:?}, stored handle of {} bytes", s.user_handle.as_ref().map_or(0, |h| h.len())), case.clone());
                    }
                    match get {
                        Some(Ok(uh)) => {
                            rep.count("u2f_assertions_checked");
                            if uh.as_deref() != s.user_handle.as_deref() {
                                rep.violate("u2f: assertion returns a user handle differently from what the credential stores", format!("stored {:?}, returned {:?}", s.user_handle.as_ref().map(|h| h.len()), uh.map(|h| h.len())), case.clone());
                            }
                        }
                        Some(Err(b)) => {
                            rep.count("u2f_assertion_refused");
                            rep.obs("u2f_assertion_refused_status", json!(b));
                        }
                        None => {}
                    }
                }
            }
        }
    }
    // ---------------- the library's in-memory store (which finds by id alone): a credential registered under
    // one RP ID of the origin is asserted under another one (the host itself / its registrable parent /
    // the member absent) - whatever RP ID the assertion is made under, the user handle returned is the stored one
    for (reg_rp, auth_rp) in [(Some("www.example.com"), Some("example.com")), (Some("example.com"), Some("www.example.com")), (None, Some("example.com")), (Some("example.com"), None), (Some("example.com"), Some("example.com"))] {
        for wrapped in [false, true] {
            index += 1;
            if only.map_or(false, |o| o != index) {
                continue;
            }
            rep.eval();
            let case = json!({"index": index, "level": "client", "part": "in-memory store, registered and asserted under different RP IDs of one origin", "rp_id_at_registration": reg_rp, "rp_id_at_assertion": auth_rp, "store": if wrapped {"Arc<Mutex<MemoryStore>>"} else {"MemoryStore"}});
            rep.nontrivial(fnv_str(&case.to_string()));
            let r = catch(|| {
                let log = crate::collab::Log::new();
                let uv = crate::collab::RecUv::ok(log.clone());
                let origin = url("https://www.example.com");
                let mut opts = creation_options(reg_rp, b"the-user", "n", &[1u8; 16], vec![pk_param(coset::iana::Algorithm::ES256)]);
                opts.public_key.authenticator_selection = Some(AuthenticatorSelectionCriteria { authenticator_attachment: None, resident_key: Some(ResidentKeyRequirement::Required), require_resident_key: true, user_verification: UserVerificationRequirement::Preferred });
                macro_rules! go {
                    ($store:expr) => {{
                        let mut client = passkey_client::Client::new_with_custom_tld_provider(crate::util::mk_auth($store, uv.clone(), AuthCfg::default()), crate::collab::RecTld::default_list(log.clone()));
                        let reg = block_on(client.register(&origin, opts, DefaultClientData)).map_err(|e| format!("{e:?}"))?;
                        let a = block_on(client.authenticate(&origin, request_options(auth_rp, &[2u8; 16], Some(vec![descriptor(&reg.raw_id)]), UserVerificationRequirement::Preferred), DefaultClientData)).map_err(|e| format!("{e:?}"))?;
                        Ok::<Option<Vec<u8>>, String>(a.response.user_handle.map(|h| h.to_vec()))
                    }};
                }
                if wrapped { go!(std::sync::Arc::new(tokio::sync::Mutex::new(passkey_authenticator::MemoryStore::new()))) } else { go!(passkey_authenticator::MemoryStore::new()) }
            });
            match r {
                Err((sig, d)) => rep.violate(&format!("client: {sig}"), d, case),
                Ok(Err(_)) => rep.count("memory_store_cross_rp_id_refused"),
                Ok(Ok(uh)) => {
                    rep.count("memory_store_cross_rp_id_asserted");
                    if uh.as_deref() != Some(b"the-user".as_slice()) {
                        rep.violate("client: assertion returns a user handle differently from what the credential stores", format!("the in-memory store holds the user handle; returned {:?}", uh.map(|h| h.len())), case);
                    }
                }
            }
        }
    }
    rep.obs("product_size", json!(index));
    if only.is_none() && (rep.get("client_refused") == 0 || rep.get("credprops_checked") == 0 || rep.get("assertions_checked") == 0) {
        rep.inconclusive("refusal, credProps or assertion clause never evaluated".into());
    }
    rep
}

type CtapCell = (Option<bool>, Result<(), u8>, Vec<crate::collab::CredSnap>, Option<Result<Option<Vec<u8>>, u8>>, Option<Result<Option<Vec<u8>>, u8>>);

/// One CTAP-level cell over a store form (the reference store itself or one of the library's lock
/// wrappers around it): get_info, registration, then two assertions without allow list.
/// The request goes through the library's own CBOR encoding and decoding before it reaches the
/// authenticator (what a transport front end does).
fn ctap_cell_through_the_wire(store: crate::collab::RecStore, rig: &Rig, rk: bool) -> CtapCell {
    WIRE.with(|w| w.set(true));
    let r = ctap_cell(store, rig, rk, false);
    WIRE.with(|w| w.set(false));
    r
}

thread_local! {
    static WIRE: std::cell::Cell<bool> = const { std::cell::Cell::new(false) };
}

fn ctap_cell<S>(store: S, rig: &Rig, rk: bool, decoded_without_rk: bool) -> CtapCell
where
    S: passkey_authenticator::CredentialStore<PasskeyItem = passkey_types::Passkey> + Send + Sync,
{
    let mut auth = crate::util::mk_auth(store, rig.uv.clone(), AuthCfg::default());
    let info_rk = block_on(auth.get_info()).options.map(|o| o.rk);
    let mut req = mc_request("example.com", b"the-user", &[1u8; 32], vec![pk_param(coset::iana::Algorithm::ES256)], None, None, rk, true, false);
    if decoded_without_rk {
        // through the wire: serialise, drop "rk" from the options map (key 7), deserialise
        let mut bytes = Vec::new();
        ciborium::ser::into_writer(&req, &mut bytes).expect("serialise request");
        let mut v: ciborium::Value = ciborium::de::from_reader(bytes.as_slice()).expect("parse request");
        if let ciborium::Value::Map(m) = &mut v {
            for (k, val) in m.iter_mut() {
                if k.as_integer().map(i128::from) == Some(7) {
                    if let ciborium::Value::Map(o) = val {
                        o.retain(|(n, _)| n.as_text() != Some("rk"));
                    }
                }
            }
        }
        let mut b2 = Vec::new();
        ciborium::ser::into_writer(&v, &mut b2).expect("serialise value");
        req = ciborium::de::from_reader(b2.as_slice()).expect("a request without rk in its options decodes");
    }
    if WIRE.with(|w| w.get()) {
        let mut bytes = Vec::new();
        ciborium::ser::into_writer(&req, &mut bytes).expect("serialise request");
        req = ciborium::de::from_reader(bytes.as_slice()).expect("the library's own encoding of a request decodes");
    }
    let reg = block_on(auth.make_credential(req));
    let snap = rig.store.snapshot();
    let get = match &reg {
        Ok(_) => Some(block_on(auth.get_assertion(ga_request("example.com", &[2u8; 32], None, None, true, false)))),
        Err(_) => None,
    };
    let get2 = match &reg {
        Ok(_) => {
            rig.uv.set_outcome(crate::collab::UvOutcome::Check { presence: true, verification: false });
            Some(block_on(auth.get_assertion(ga_request("example.com", &[4u8; 32], None, None, true, false))).map(|r| r.user.map(|u| u.id.to_vec())).map_err(|e| status_byte_ref(&e)))
        }
        Err(_) => None,
    };
    (info_rk, reg.map(|_| ()).map_err(|e| status_byte_ref(&e)), snap, get.map(|g| g.map(|r| r.user.map(|u| u.id.to_vec())).map_err(|e| status_byte_ref(&e))), get2)
}
