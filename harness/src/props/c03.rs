//! C03 — authentication returns a signature that verifies and is bound to the ceremony.

use serde_json::{json, Value};

use crate::{rng::Rng, worker::catch};

use crate::{
    collab::Ev,
    oracle::{self, authdata},
    props::{
        c02::{replay_index, run_histories},
        cer::{AllowSpec, Op, Outcome, Step},
    },
    report::{hex_short, Report},
    rng::fnv_str,
    Args,
};

fn case_json(history: u64, st: &Step) -> Value {
    json!({"index": history, "step": st.index, "op": st.op.json(), "config": st.cfg.json(),
        "registered_so_far": st.model.iter().map(|m| json!({"id": hex_short(&m.id), "rp": m.rp, "step": m.step})).collect::<Vec<_>>()})
}

/// Did the user-validation step report what the request required?
fn consent_given(st: &Step) -> Option<bool> {
    st.events.iter().find_map(|e| match &e.ev {
        Ev::CheckUser { up, uv, result: Ok((p, v)), .. } => Some((!*up || *p) && (!*uv || *v)),
        Ev::CheckUser { result: Err(_), .. } => Some(false),
        _ => None,
    })
}

fn eligible(st: &Step, rp: &str, allow: &Option<Vec<Vec<u8>>>) -> Vec<Vec<u8>> {
    st.before
        .iter()
        .filter(|c| c.rp_id == rp)
        .filter(|c| match allow {
            Some(l) if !l.is_empty() => l.contains(&c.id),
            _ => true,
        })
        .map(|c| c.id.clone())
        .collect()
}

#[allow(clippy::too_many_arguments)]
fn check_assertion(
    rep: &mut Report,
    level: &str,
    st: &Step,
    case: &Value,
    rp: &str,
    raw_id: &[u8],
    auth_data: &[u8],
    signed_tail: &[u8],
    signature: &[u8],
    user_handle: Option<&[u8]>,
) {
    // the key registered earlier in this history for the returned id
    let Some(m) = st.model.iter().find(|m| m.id == raw_id) else {
        rep.violate(&format!("{level}: assertion names a credential id that was never registered in this history"), hex_short(raw_id), case.clone());
        return;
    };
    if m.rp != rp {
        rep.violate(&format!("{level}: assertion made with a credential registered for another RP"), format!("credential of {:?} used for {:?}", m.rp, rp), case.clone());
    }
    let mut msg = auth_data.to_vec();
    msg.extend_from_slice(signed_tail);
    if let Err(e) = oracle::verify_es256_der(&m.x, &m.y, &msg, signature) {
        rep.violate(&format!("{level}: assertion signature does not verify under the registered public key over authData || clientDataHash"), e, case.clone());
    }
    match authdata::decode(auth_data) {
        Err(e) => rep.violate(&format!("{level}: assertion authenticator data does not decode"), format!("{e:?}"), case.clone()),
        Ok(ad) => {
            if ad.rp_id_hash != oracle::sha256(rp.as_bytes()) {
                rep.violate(&format!("{level}: assertion rpIdHash is not SHA-256 of the effective RP ID"), format!("effective {rp:?}"), case.clone());
            }
            if ad.flags & authdata::AT != 0 || ad.attested.is_some() {
                rep.violate(&format!("{level}: assertion authenticator data carries attested credential data"), format!("flags {:#x}", ad.flags), case.clone());
            }
        }
    }
    let stored = st.before.iter().find(|c| c.id == raw_id).and_then(|c| c.user_handle.clone());
    if stored.as_deref() != user_handle {
        rep.violate(
            &format!("{level}: returned user handle is not the one stored with the credential"),
            format!("stored {:?} returned {:?}", stored.as_ref().map(|h| hex_short(h)), user_handle.map(hex_short)),
            case.clone(),
        );
    }
}

pub fn monitor(rep: &mut Report, history: u64, st: &Step) {
    // "the user handle returned is the one stored with it": what is stored with a credential is not
    // altered by an assertion (only its counter may move), or the next assertion would return another
    if matches!(st.op, Op::Authenticate(_) | Op::Get(_)) {
        for b in st.before.iter() {
            if let Some(a) = st.after.iter().find(|a| a.id == b.id) {
                if a.user_handle != b.user_handle || a.rp_id != b.rp_id || a.key_cbor != b.key_cbor {
                    rep.violate("an assertion altered what is stored with a credential (user handle, RP ID or key)", format!("credential {}: user handle {:?} -> {:?}", hex_short(&b.id), b.user_handle.as_ref().map(|h| hex_short(h)), a.user_handle.as_ref().map(|h| hex_short(h))), case_json(history, st));
                }
            }
        }
    }
    match (st.op, st.outcome) {
        (Op::Authenticate(a), Outcome::Auth(res)) => {
            rep.eval();
            let case = case_json(history, st);
            let eff = a.rp_id.clone().unwrap_or_else(|| a.origin.host.clone());
            let allow_kind = match &a.allow {
                AllowSpec::Absent => "absent",
                AllowSpec::Empty => "empty",
                AllowSpec::Ids(_) => "ids",
            };
            let elig = eligible(st, &eff, &st.resolved_allow);
            let shape = format!("auth|ch{}|{}|{}|{:?}|el{}|n{}|pos{}", a.challenge.len(), allow_kind, a.cd.name(), a.uv, elig.len().min(3), st.before.len().min(6), st.index.min(20));
            match res {
                Ok(cred) => {
                    rep.count("authenticate_ok");
                    rep.nontrivial(fnv_str(&shape));
                    if cred.id != oracle::b64url(&cred.raw_id) {
                        rep.violate("client: assertion id is not the base64url of rawId", String::new(), case.clone());
                    }
                    let tail: Vec<u8> = match a.cd.supplied_hash() {
                        Some(h) => h.to_vec(),
                        None => oracle::sha256(&cred.response.client_data_json).to_vec(),
                    };
                    match serde_json::from_slice::<Value>(&cred.response.client_data_json) {
                        Ok(cd) => {
                            if cd["type"] != json!("webauthn.get") {
                                rep.violate("client: assertion clientDataJSON type is not webauthn.get", format!("{}", cd["type"]), case.clone());
                            }
                            if cd["challenge"] != json!(oracle::b64url(&a.challenge)) {
                                rep.violate("client: assertion clientDataJSON challenge is not the request challenge in base64url", String::new(), case.clone());
                            }
                            if cd["origin"] != json!(a.origin.expected()) {
                                rep.violate("client: assertion clientDataJSON origin is not the caller's origin", format!("{} vs {}", cd["origin"], a.origin.expected()), case.clone());
                            }
                        }
                        Err(e) => rep.violate("client: assertion clientDataJSON is not valid JSON", e.to_string(), case.clone()),
                    }
                    check_assertion(rep, "client", st, &case, &eff, &cred.raw_id, &cred.response.authenticator_data, &tail, &cred.response.signature, cred.response.user_handle.as_ref().map(|b| b.as_slice()));
                    rep.sample_class(&format!("authenticate/{}/{}", allow_kind, a.cd.name()), json!({"op": st.op.json(), "id": cred.id, "signature_len": cred.response.signature.len()}));
                }
                Err(e) => {
                    rep.count(&format!("authenticate_err:{e:?}"));
                    if consent_given(st) == Some(true) && elig.is_empty() {
                        rep.count("no_eligible_after_consent");
                        rep.nontrivial(fnv_str(&shape));
                        if *e != passkey_client::WebauthnError::CredentialNotFound {
                            rep.violate("client: user consented, no eligible credential, but the error is not credential-not-found", format!("{e:?}"), case.clone());
                        }
                    }
                }
            }
            if consent_given(st) == Some(true) && elig.is_empty() && res.is_ok() {
                rep.violate("client: assertion produced although no eligible credential exists", String::new(), case);
            }
        }
        (Op::Get(g), Outcome::Get(res)) => {
            rep.eval();
            let case = case_json(history, st);
            let allow_kind = match &g.allow {
                AllowSpec::Absent => "absent",
                AllowSpec::Empty => "empty",
                AllowSpec::Ids(_) => "ids",
            };
            let elig = eligible(st, &g.rp_id, &st.resolved_allow);
            let shape = format!("get|{}|up{}|uv{}|el{}|n{}|pos{}", allow_kind, g.up, g.uv, elig.len().min(3), st.before.len().min(6), st.index.min(20));
            match res {
                Ok(resp) => {
                    rep.count("get_ok");
                    rep.nontrivial(fnv_str(&shape));
                    match &resp.credential {
                        None => rep.violate("ctap: successful assertion without a credential descriptor", String::new(), case.clone()),
                        Some(d) => check_assertion(rep, "ctap", st, &case, &g.rp_id, &d.id, &resp.auth_data.to_vec(), &g.cdh, &resp.signature, resp.user.as_ref().map(|u| u.id.as_slice())),
                    }
                    if elig.is_empty() {
                        rep.violate("ctap: assertion produced although no eligible credential exists", String::new(), case);
                    }
                }
                Err(e) => {
                    let b = crate::util::status_byte_ref(e);
                    rep.count(&format!("get_err:{b:#x}"));
                    if consent_given(st) == Some(true) && elig.is_empty() {
                        rep.count("no_eligible_after_consent");
                        rep.nontrivial(fnv_str(&shape));
                        if b != 0x2e {
                            rep.violate("ctap: user consented, no eligible credential, but the status is not NO_CREDENTIALS", format!("{b:#x}"), case);
                        }
                    }
                }
            }
        }
        _ => {}
    }
}

/// Assertions over a conforming store whose items are vault entries: the converted `Passkey` carries
/// the RP ID in another presentation (or not at all). What is hashed and signed is the request's RP ID.
fn vault_assertions(rep: &mut Report, args: &Args) {
    use crate::collab::{Disc, VaultStore, VaultUv};
    use crate::util::{descriptor, ga_request, seeded_passkey, Rig};
    let only = replay_index(args);
    let n = args.size(60, 1200) as u64;
    for k in 0..n {
        let index = 30_000_000 + k;
        if only.map_or(false, |o| o != index) {
            continue;
        }
        rep.eval();
        let mut rng = Rng::derive(args.seed, "c03vault", k);
        let rp = *rng.pick(&["example.com", "login.example.org", "xn--mnchen-3ya.de"]);
        let presentation: Option<String> = match rng.below(4) {
            0 => None,
            1 => Some(String::new()),
            2 => Some(rp.to_ascii_uppercase()),
            _ => Some(format!("{rp}.")),
        };
        let rig = Rig::ok(Disc::Full);
        let id = rng.bytes(24);
        let counter = if rng.bool() { Some(rng.below(1000) as u32) } else { None };
        let (pk, x, y) = seeded_passkey(&mut rng, rp, &id, Some(b"user"), counter, None);
        rig.store.insert_raw(pk);
        let store = VaultStore { inner: rig.store.clone(), locked: Default::default(), rp_as_converted: presentation.clone() };
        let mut auth = passkey_authenticator::Authenticator::new(passkey_types::ctap2::Aaguid::new_empty(), store, VaultUv(rig.uv.clone()));
        let cdh = rng.bytes(32);
        let with_list = rng.bool();
        let case = json!({"index": index, "part": "vault-store", "rp_id": rp, "rp_id_carried_by_the_converted_item": presentation, "allow_list": with_list, "counter": counter});
        rep.nontrivial(fnv_str(&format!("vault|{rp}|{presentation:?}|{with_list}|{}", counter.is_some())));
        match catch(|| crate::exec::block_on(auth.get_assertion(ga_request(rp, &cdh, with_list.then(|| vec![descriptor(&id)]), None, true, true)))) {
            Err((sig, d)) => rep.violate(&format!("vault store: get_assertion {sig}"), d, case),
            Ok(Err(e)) => rep.violate("vault store: assertion with the only eligible credential failed", format!("{:#x}", crate::util::status_byte_ref(&e)), case),
            Ok(Ok(resp)) => {
                rep.count("vault_assertions_checked");
                let ad = resp.auth_data.to_vec();
                match authdata::decode(&ad) {
                    Ok(d) => {
                        if d.rp_id_hash != oracle::sha256(rp.as_bytes()) {
                            rep.violate("vault store: assertion rpIdHash is not SHA-256 of the requested RP ID", format!("converted item carries {presentation:?}"), case.clone());
                        }
                    }
                    Err(e) => rep.violate("vault store: authenticator data does not decode", format!("{e:?}"), case.clone()),
                }
                let mut msg = ad.clone();
                msg.extend_from_slice(&cdh);
                if let Err(e) = oracle::verify_es256_any(&x, &y, &msg, &resp.signature) {
                    rep.violate("vault store: assertion signature does not verify over authData || clientDataHash", e, case.clone());
                }
            }
        }
    }
}

pub fn run(args: &Args) -> Report {
    let mut rep = Report::new(
        "C03",
        &args.tier,
        args.seed,
        "seeded histories interleaving registrations and authentications over 3 RP ids, several users, allow lists (absent, empty, subset, unknown ids, other RP's ids), UV requirements x user-validation outcomes, all client-data modes, at client and CTAP level, plus CTAP assertions over a conforming store of vault items whose converted form carries the RP ID in another presentation; distinct by request shape (challenge length, allow-list kind, client-data mode, UV requirement, number of eligible credentials, store size) and position; non-trivial when the assertion succeeded and all clauses were evaluated, or it is the specified failure (consent given, no eligible credential)",
    );
    rep.assumptions.push("public keys are taken from the outputs of earlier registrations in the same history (parsed by the own decoder)".into());
    rep.assumptions.push("eligibility is computed with the documented store contract over the reference store".into());
    let n = args.size(500, 15_000);
    run_histories(args, &mut rep, "c03", n, 35, |rep, h, st| monitor(rep, h, st));
    if replay_index(args).map_or(true, |o| (30_000_000..40_000_000).contains(&o)) {
        vault_assertions(&mut rep, args);
    }
    if replay_index(args).is_none() && (rep.get("authenticate_ok") == 0 || rep.get("get_ok") == 0 || rep.get("no_eligible_after_consent") == 0) {
        rep.inconclusive("no successful assertion at both levels / no consented-but-no-credential case observed".into());
    }
    rep
}
