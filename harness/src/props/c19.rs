//! C19 — shared-store concurrency never reuses a counter or loses a credential.
//! Engine 1: DFS / seeded poll-order scheduler over the real lock wrappers (choice points are the
//! program's own suspension points). Engine 2: OS threads with injected delays at the user-validation
//! suspension point (also the workload for TSan and Miri). Offline checker over the recorded history.

use std::{
    collections::{HashMap, HashSet},
    sync::Arc,
};

use passkey_authenticator::{Authenticator, CredentialStore, MemoryStore};
use passkey_types::Passkey;
use serde_json::{json, Value};

use crate::{
    collab::{snap_passkey, CredSnap, Disc, Log, RecStore, RecUv, UvOutcome},
    exec::{block_on_thread, dfs_schedules, run_schedule, BoxFut, SchedEnd},
    oracle::authdata,
    props::c02::replay_index,
    report::{hex_short, Report},
    rng::{fnv, Rng},
    util::{descriptor, ga_request, mc_request, mk_auth, pk_param, seeded_passkey, status_byte_ref, AuthCfg},
    worker::catch,
    Args,
};

const RP: &str = "example.com";
const U2F_HANDLE: [u8; 20] = [0x44; 20];

#[derive(Clone, Copy, Debug, PartialEq, Eq, Hash)]
enum Cer {
    /// assertion with seeded credential k
    Assert(usize),
    /// assertion without an allow list (the in-memory store answers NoCredentials; the ceremony
    /// still takes the lock for its lookup)
    AssertAny,
    /// assertion with seeded credential k asking for neither presence nor verification, with a user
    /// validation step that reports neither
    AssertSilent(usize),
    /// assertion with seeded credential k that asks for a PRF evaluation the credential cannot serve
    /// (the authenticator has the capability, the credential holds no secret): it is refused, after the
    /// counter was advanced
    AssertRefused(usize),
    /// assertion whose allow list names both seeded credentials (k first): the store answers with both
    AssertBoth(usize),
    Register,
    /// U2F registration of one fixed key handle for one application (the caller chooses the handle)
    U2fRegister,
}

#[derive(Clone, Copy, Debug, PartialEq, Eq, Hash)]
enum StoreKind {
    Memory,
    Rec,
}
#[derive(Clone, Copy, Debug, PartialEq, Eq, Hash)]
enum LockKind {
    Mutex,
    RwLock,
}

#[derive(Clone, Debug)]
struct Config {
    name: &'static str,
    cers: Vec<Cer>,
    store: StoreKind,
    lock: LockKind,
    uv_yields: usize,
    store_yields: usize,
    /// reference store only: list newest first and let id-less lookups succeed
    newest_first: bool,
    /// reference store only: the store refuses the k-th counter update
    update_fault: Option<usize>,
    /// reference store only: the k-th lookup fails (a transient store error)
    find_fault: Option<usize>,
    /// in-memory store only (it finds by id alone): the seeded credentials' stored RP ID is spelled
    /// differently from the request's (imported, or registered through another entry point)
    alias_rp: bool,
    /// reference store only: the store keeps one credential per (RP ID, user entity) as
    /// authenticatorMakeCredential prescribes, and the registrations create discoverable credentials
    accounts: bool,
    /// 0: as usual; 1: the seeded credentials' counters are 2^31-3 and 3*2^30 (the upper half of the range);
    /// 2 / 3: every authenticator's id length comes from `CredentialIdLength::randomized` with a random
    /// source that draws its smallest / largest value
    variant: u8,
}

impl Config {
    fn json(&self) -> Value {
        json!({"configuration": self.name, "ceremonies": self.cers.iter().map(|c| format!("{c:?}")).collect::<Vec<_>>(), "store": format!("{:?}", self.store),
            "lock": format!("{:?}", self.lock), "uv_yields": self.uv_yields, "store_yields": self.store_yields, "newest_first": self.newest_first, "update_fault": self.update_fault, "find_fault": self.find_fault, "stored_rp_id_spelled_differently": self.alias_rp, "store_keeps_one_credential_per_account": self.accounts,
            "variant": (["-", "seeded counters in the upper half of the 32-bit range", "id lengths from CredentialIdLength::randomized, smallest draw", "id lengths from CredentialIdLength::randomized, largest draw"][usize::from(self.variant)])})
    }
}

#[derive(Debug, Clone)]
struct CerResult {
    cer: Cer,
    /// Ok((credential id, counter)) / Err(status)
    result: Option<Result<(Vec<u8>, u32), u8>>,
    first_step: usize,
    last_step: usize,
}

struct RunOut {
    results: Vec<CerResult>,
    end: SchedEnd,
    branching: Vec<u8>,
    choices: Vec<u8>,
    final_store: Vec<CredSnap>,
    /// the sequential warm-up assertions (credential id, counter)
    warm: Vec<(Vec<u8>, u32)>,
    /// a sequential assertion on the first credential after the concurrent phase (configurations with a
    /// refused assertion only)
    cool: Option<(Vec<u8>, u32)>,
}

fn seed_creds() -> Vec<Passkey> {
    let mut rng = Rng::derive(23, "c19seed", 0);
    (0..2).map(|k| seeded_passkey(&mut rng, RP, &[0x90 + k as u8; 16], Some(b"u"), Some(100), None).0).collect()
}

/// Build the futures of one configuration over a shared store of type S behind lock wrapper L and run
/// them under `choose`.
fn run_config(cfg: &Config, choose: &mut dyn FnMut(usize, usize) -> usize) -> RunOut {
    let log = Log::new();
    let mut creds = seed_creds();
    if cfg.variant == 1 {
        creds[0].counter = Some(0x7FFF_FFFD);
        creds[1].counter = Some(0xC000_0000);
    }
    if cfg.alias_rp {
        for c in creds.iter_mut() {
            c.rp_id = "EXAMPLE.com.".into();
        }
    }
    macro_rules! go {
        ($shared:expr, $snap:expr) => {{
            let shared = $shared;
            let mut auths: Vec<Authenticator<_, RecUv>> = Vec::new();
            for i in 0..cfg.cers.len() {
                let silent = matches!(cfg.cers[i], Cer::AssertSilent(_));
                let uv = RecUv::new(log.clone(), UvOutcome::Check { presence: !silent, verification: !silent }, Some(true)).with_actor(i);
                uv.set_yields(cfg.uv_yields);
                let hmac = if matches!(cfg.cers[i], Cer::AssertRefused(_)) { crate::util::HmacCfg::WithoutUv } else { crate::util::HmacCfg::None };
                let mut a = mk_auth(shared.clone(), uv, AuthCfg { counters: true, hmac, ..Default::default() });
                if cfg.variant >= 2 {
                    // the constructor the type's documentation recommends, over a source an application might have
                    let mut source = rand::rngs::mock::StepRng::new(if cfg.variant == 2 { 0 } else { u64::MAX }, 0);
                    a.set_make_credential_id_length(passkey_authenticator::CredentialIdLength::randomized(&mut source));
                }
                auths.push(a);
            }
            // sequential warm-up assertions on every seeded credential, completed before the concurrent phase
            let mut warm: Vec<(Vec<u8>, u32)> = Vec::new();
            for c in creds.iter() {
                let r = crate::exec::block_on(auths[0].get_assertion(ga_request(RP, &[9u8; 32], Some(vec![descriptor(&c.credential_id)]), None, true, true)));
                if let Ok(r) = r {
                    warm.push((r.credential.map(|d| d.id.to_vec()).unwrap_or_default(), authdata::decode(&r.auth_data.to_vec()).map(|d| d.counter).unwrap_or(0)));
                }
            }
            let mut tasks: Vec<BoxFut<Result<(Vec<u8>, u32), u8>>> = Vec::new();
            let accounts = cfg.accounts;
            for (who, (a, c)) in auths.iter_mut().zip(cfg.cers.iter()).enumerate() {
                let c = *c;
                let creds = &creds;
                tasks.push(Box::pin(async move {
                    match c {
                        Cer::Assert(_) | Cer::AssertAny | Cer::AssertSilent(_) | Cer::AssertRefused(_) | Cer::AssertBoth(_) => {
                            let allow = match c {
                                Cer::Assert(k) | Cer::AssertSilent(k) | Cer::AssertRefused(k) => Some(vec![descriptor(&creds[k].credential_id)]),
                                Cer::AssertBoth(k) => Some(vec![descriptor(&creds[k].credential_id), descriptor(&creds[1 - k].credential_id)]),
                                _ => None,
                            };
                            let loud = !matches!(c, Cer::AssertSilent(_));
                            let ext = matches!(c, Cer::AssertRefused(_)).then(|| passkey_types::ctap2::get_assertion::ExtensionInputs {
                                hmac_secret: None,
                                prf: Some(passkey_types::ctap2::extensions::AuthenticatorPrfInputs { eval: Some(passkey_types::ctap2::extensions::AuthenticatorPrfValues { first: [5; 32], second: None }), eval_by_credential: None }),
                            });
                            match a.get_assertion(ga_request(RP, &[1u8; 32], allow, ext, loud, loud)).await {
                                Ok(r) => {
                                    let ctr = authdata::decode(&r.auth_data.to_vec()).map(|d| d.counter).unwrap_or(0);
                                    Ok((r.credential.map(|d| d.id.to_vec()).unwrap_or_default(), ctr))
                                }
                                Err(e) => Err(status_byte_ref(&e)),
                            }
                        }
                        Cer::Register => match a.make_credential(mc_request(RP, format!("new-{who}").as_bytes(), &[2u8; 32], vec![pk_param(coset::iana::Algorithm::ES256)], None, None, accounts, true, true)).await {
                            Ok(r) => {
                                let id = authdata::decode(&r.auth_data.to_vec()).ok().and_then(|d| d.attested.map(|a| a.cred_id)).unwrap_or_default();
                                Ok((id, 0))
                            }
                            Err(e) => Err(status_byte_ref(&e)),
                        },
                        // (the "credential id" reported for a U2F registration is the public point it returned)
                        Cer::U2fRegister => match passkey_authenticator::U2fApi::register(a, passkey_types::u2f::RegisterRequest { challenge: [who as u8; 32], application: [7u8; 32] }, &U2F_HANDLE).await {
                            Ok(r) => Ok(([r.public_key.x.to_vec(), r.public_key.y.to_vec()].concat(), 0)),
                            Err(e) => Err(u8::from(e)),
                        },
                    }
                }));
            }
            let n = tasks.len();
            let r = run_schedule(tasks, |s, k| choose(s, k), 10_000);
            let mut results = Vec::new();
            for i in 0..n {
                let first = r.schedule.iter().position(|t| usize::from(*t) == i).unwrap_or(usize::MAX);
                let last = r.schedule.iter().rposition(|t| usize::from(*t) == i).unwrap_or(usize::MAX);
                results.push(CerResult { cer: cfg.cers[i], result: r.outputs[i].clone(), first_step: first, last_step: last });
            }
            drop(auths);
            let mut cool = None;
            if cfg.cers.iter().any(|c| matches!(c, Cer::AssertRefused(_))) && matches!(r.end, SchedEnd::AllDone) {
                let uv = RecUv::new(log.clone(), UvOutcome::Check { presence: true, verification: true }, Some(true)).with_actor(9);
                let mut late = mk_auth(shared.clone(), uv, AuthCfg { counters: true, ..Default::default() });
                if let Ok(r) = crate::exec::block_on(late.get_assertion(ga_request(RP, &[8u8; 32], Some(vec![descriptor(&creds[0].credential_id)]), None, true, true))) {
                    cool = Some((r.credential.map(|d| d.id.to_vec()).unwrap_or_default(), authdata::decode(&r.auth_data.to_vec()).map(|d| d.counter).unwrap_or(0)));
                }
                drop(late);
            }
            let final_store: Vec<CredSnap> = $snap(&shared);
            RunOut { results, end: r.end, branching: r.branching, choices: r.choices, final_store, warm, cool }
        }};
    }
    match (cfg.store, cfg.lock) {
        (StoreKind::Memory, LockKind::Mutex) => {
            let mut m = MemoryStore::new();
            for c in &creds {
                m.insert(c.credential_id.to_vec(), c.clone());
            }
            go!(Arc::new(tokio::sync::Mutex::new(m)), |s: &Arc<tokio::sync::Mutex<MemoryStore>>| s.try_lock().map(|g| g.values().map(snap_passkey).collect()).unwrap_or_default())
        }
        (StoreKind::Memory, LockKind::RwLock) => {
            let mut m = MemoryStore::new();
            for c in &creds {
                m.insert(c.credential_id.to_vec(), c.clone());
            }
            go!(Arc::new(tokio::sync::RwLock::new(m)), |s: &Arc<tokio::sync::RwLock<MemoryStore>>| s.try_read().map(|g| g.values().map(snap_passkey).collect()).unwrap_or_default())
        }
        (StoreKind::Rec, LockKind::Mutex) => {
            let st = RecStore::new(log.clone(), Disc::Full);
            st.set_one_per_account(cfg.accounts);
            st.set_all_yields(cfg.store_yields);
            fail_idless_lookups(&st, cfg);
            for c in &creds {
                st.insert_raw(c.clone());
            }
            let h = st.clone();
            go!(Arc::new(tokio::sync::Mutex::new(st)), |_s: &Arc<tokio::sync::Mutex<RecStore>>| h.snapshot())
        }
        (StoreKind::Rec, LockKind::RwLock) => {
            let st = RecStore::new(log.clone(), Disc::Full);
            st.set_one_per_account(cfg.accounts);
            st.set_all_yields(cfg.store_yields);
            fail_idless_lookups(&st, cfg);
            for c in &creds {
                st.insert_raw(c.clone());
            }
            let h = st.clone();
            go!(Arc::new(tokio::sync::RwLock::new(st)), |_s: &Arc<tokio::sync::RwLock<RecStore>>| h.snapshot())
        }
    }
}

/// With an id-less assertion in the configuration, the reference store's lookups fail with
/// NoCredentials (as the shipped in-memory store's do), but - unlike that store - it suspends inside
/// the call while the wrapper holds the lock: the error path of the wrappers becomes schedulable.
fn fail_idless_lookups(st: &RecStore, cfg: &Config) {
    st.set_newest_first(cfg.newest_first);
    if let Some(k) = cfg.update_fault {
        st.set_fault(crate::collab::Kind::Update, k, 0x28);
    }
    if let Some(k) = cfg.find_fault {
        st.set_fault(crate::collab::Kind::Find, k, 0x2E);
    }
    if cfg.cers.contains(&Cer::AssertAny) && !cfg.newest_first {
        for k in 0..16 {
            st.set_fault(crate::collab::Kind::Find, k, 0x2E);
        }
    }
}

pub const KNOWN_SIG: &str = "duplicate-or-stale counter, assertions on one credential with overlapping [call,return] intervals";

/// offline checker over one finished run. `intervals` are (start, end) on a logical clock.
fn check_history(rep: &mut Report, engine: &str, case: &Value, items: &[(Cer, Option<Result<(Vec<u8>, u32), u8>>, u64, u64)], final_store: &[CredSnap], deadlock: Option<String>) {
    if let Some(d) = deadlock {
        rep.violate(&format!("{engine}: deadlock - no ceremony can make progress while some are unfinished"), d, case.clone());
        return;
    }
    // registrations present afterwards
    for (cer, res, _, _) in items {
        if let (Cer::Register, Some(Ok((id, _)))) = (cer, res) {
            rep.count("registrations_checked");
            if !final_store.iter().any(|c| &c.id == id) {
                rep.violate(&format!("{engine}: a successful registration's credential is missing from the store afterwards"), hex_short(id), case.clone());
            }
        }
    }
    // ... and each of them is a credential of its own: the store holds at least as many credentials that
    // were not there before as registrations succeeded (two registrations that end up under one id
    // would both "be present")
    {
        let regs = items.iter().filter(|(cer, res, _, _)| matches!((cer, res), (Cer::Register, Some(Ok(_))))).count();
        let created = final_store.iter().filter(|c| c.id != U2F_HANDLE && !(c.id.len() == 16 && (c.id[0] == 0x90 || c.id[0] == 0x91) && c.id.iter().all(|b| *b == c.id[0]))).count();
        if created < regs {
            rep.violate(&format!("{engine}: a successful registration's credential is missing from the store afterwards"), format!("{regs} registrations succeeded, the store holds {created} credential(s) that were not seeded"), case.clone());
        }
    }
    // U2F registrations of one key handle: when they did not overlap, the store holds the key the later one returned
    let u2f: Vec<(&Vec<u8>, u64, u64)> = items.iter().filter_map(|(cer, res, s, e)| if let (Cer::U2fRegister, Some(Ok((pk, _)))) = (cer, res) { Some((pk, *s, *e)) } else { None }).collect();
    if !u2f.is_empty() {
        rep.count_n("u2f_registrations_checked", u2f.len() as u64);
        let held = final_store.iter().find(|c| c.id == U2F_HANDLE);
        match held {
            None => rep.violate(&format!("{engine}: a successful registration's credential is missing from the store afterwards"), format!("U2F key handle {}", hex_short(&U2F_HANDLE)), case.clone()),
            Some(h) => {
                let stored: Vec<u8> = [h.x.clone().unwrap_or_default(), h.y.clone().unwrap_or_default()].concat();
                let last = u2f.iter().max_by_key(|u| u.1).unwrap();
                let disjoint = u2f.iter().filter(|u| u.1 != last.1).all(|u| u.2 < last.1) && u2f.iter().filter(|u| u.1 == last.1).count() == 1;
                if disjoint && &stored != last.0 {
                    rep.violate(&format!("{engine}: the store does not hold the key a later, successful registration of the same key handle returned"), format!("stored point {}, returned point {}", hex_short(&stored), hex_short(last.0)), case.clone());
                } else if !u2f.iter().any(|u| u.0 == &stored) {
                    rep.violate(&format!("{engine}: the store holds a key no successful registration of the key handle returned"), hex_short(&stored), case.clone());
                }
            }
        }
    }
    // assertions per credential
    let mut per: HashMap<Vec<u8>, Vec<(u32, u64, u64)>> = HashMap::new();
    for (cer, res, s, e) in items {
        if let (Cer::Assert(_) | Cer::AssertAny | Cer::AssertSilent(_) | Cer::AssertBoth(_), Some(Ok((id, ctr)))) = (cer, res) {
            per.entry(id.clone()).or_default().push((*ctr, *s, *e));
        }
    }
    for (id, v) in per {
        rep.count_n("assertions_checked", v.len() as u64);
        let stored = final_store.iter().find(|c| c.id == id).and_then(|c| c.counter);
        let max = v.iter().map(|x| x.0).max().unwrap_or(0);
        // Once two assertions on this credential have overlapped, a stale write may have clobbered the
        // stored counter, so later (even sequential) assertions can repeat a value: everything from the
        // first overlap on is the recorded lost-update finding. Before it, duplicates are new violations.
        let mut first_overlap: Option<u64> = None;
        for i in 0..v.len() {
            for j in i + 1..v.len() {
                if v[i].1 <= v[j].2 && v[j].1 <= v[i].2 {
                    let t = v[i].1.max(v[j].1);
                    first_overlap = Some(first_overlap.map_or(t, |f: u64| f.min(t)));
                }
            }
        }
        let mut known = false;
        let mut clean_dup = false;
        for i in 0..v.len() {
            for j in i + 1..v.len() {
                if v[i].0 == v[j].0 {
                    let later_end = v[i].2.max(v[j].2);
                    if first_overlap.map_or(false, |f| f <= later_end) {
                        known = true;
                    } else {
                        clean_dup = true;
                    }
                }
            }
        }
        if clean_dup {
            rep.violate(&format!("{engine}: two assertions carry the same counter although no assertions on that credential had overlapped"), format!("{v:?}"), case.clone());
        }
        if known {
            rep.violate(KNOWN_SIG, format!("[{engine}] credential {}: counters/intervals {v:?}, stored {stored:?}", hex_short(&id)), case.clone());
            rep.count("duplicate_counter_runs");
        } else if stored != Some(max) {
            if first_overlap.is_some() {
                rep.violate(KNOWN_SIG, format!("[{engine}] credential {}: largest reported counter {max} but the store holds {stored:?}; {v:?}", hex_short(&id)), case.clone());
            } else {
                rep.violate(&format!("{engine}: largest reported counter is not the stored value although no assertions overlapped"), format!("max {max}, stored {stored:?}"), case.clone());
            }
        }
    }
}

fn configs(thorough: bool) -> Vec<Config> {
    let mut v = Vec::new();
    let shapes: Vec<(&'static str, Vec<Cer>)> = vec![
        ("assert||assert on one credential", vec![Cer::Assert(0), Cer::Assert(0)]),
        ("assert||assert on two credentials", vec![Cer::Assert(0), Cer::Assert(1)]),
        ("assert||register", vec![Cer::Assert(0), Cer::Register]),
        ("register||register", vec![Cer::Register, Cer::Register]),
        ("assert without allow list||register", vec![Cer::AssertAny, Cer::Register]),
        ("assert without allow list||assert", vec![Cer::AssertAny, Cer::Assert(0)]),
        ("assert naming both credentials||register", vec![Cer::AssertBoth(0), Cer::Register]),
        ("assert naming both credentials||assert on the other", vec![Cer::AssertBoth(1), Cer::Assert(0)]),
        ("refused assert||assert on one credential", vec![Cer::Assert(0), Cer::AssertRefused(0)]),
        ("refused assert||register", vec![Cer::Register, Cer::AssertRefused(0)]),
        ("silent assert||register", vec![Cer::Register, Cer::AssertSilent(0)]),
        ("silent assert||assert on two credentials", vec![Cer::Assert(1), Cer::AssertSilent(0)]),
        ("u2f register||u2f register of one key handle", vec![Cer::U2fRegister, Cer::U2fRegister]),
        ("u2f register||assert", vec![Cer::U2fRegister, Cer::Assert(0)]),
    ];
    for (name, cers) in shapes {
        for store in [StoreKind::Memory, StoreKind::Rec] {
            // what saving a second credential under an id already held means is defined for the shipped
            // stores (the record is replaced), not by the store contract: not run on the reference store
            if store == StoreKind::Rec && cers.contains(&Cer::U2fRegister) {
                continue;
            }
            for lock in [LockKind::Mutex, LockKind::RwLock] {
                for uv_yields in [1usize, 2] {
                    let sy: Vec<usize> = if store == StoreKind::Rec { if thorough { vec![0, 1] } else { vec![1] } } else { vec![0] };
                    for store_yields in sy {
                        v.push(Config { name, cers: cers.clone(), store, lock, uv_yields, store_yields, newest_first: false, update_fault: None, find_fault: None, alias_rp: false, accounts: false, variant: 0 });
                        if store == StoreKind::Memory && uv_yields == 1 && cers.iter().any(|c| matches!(c, Cer::Assert(_) | Cer::AssertBoth(_))) {
                            v.push(Config { name, cers: cers.clone(), store, lock, uv_yields, store_yields, newest_first: false, update_fault: None, find_fault: None, alias_rp: true, accounts: false, variant: 0 });
                        }
                        if store == StoreKind::Rec && uv_yields == 1 && cers.contains(&Cer::Register) {
                            // a store that files one credential per account; the registrations are for different users
                            v.push(Config { name, cers: cers.clone(), store, lock, uv_yields, store_yields, newest_first: false, update_fault: None, find_fault: None, alias_rp: false, accounts: true, variant: 0 });
                        }
                        if uv_yields == 1 && cers.iter().any(|c| matches!(c, Cer::Assert(_))) {
                            v.push(Config { name, cers: cers.clone(), store, lock, uv_yields, store_yields, newest_first: false, update_fault: None, find_fault: None, alias_rp: false, accounts: false, variant: 1 });
                        }
                        if uv_yields == 1 && store == StoreKind::Memory && cers.iter().filter(|c| matches!(c, Cer::Register)).count() == 2 {
                            for variant in [2u8, 3] {
                                v.push(Config { name, cers: cers.clone(), store, lock, uv_yields, store_yields, newest_first: false, update_fault: None, find_fault: None, alias_rp: false, accounts: false, variant });
                            }
                        }
                        if store == StoreKind::Rec && uv_yields == 1 {
                            // a conforming store that lists newest first and answers id-less lookups
                            if cers.contains(&Cer::AssertAny) {
                                v.push(Config { name, cers: cers.clone(), store, lock, uv_yields, store_yields, newest_first: true, update_fault: None, find_fault: None, alias_rp: false, accounts: false, variant: 0 });
                            }
                            // a store that refuses one counter update
                            if cers.iter().any(|c| matches!(c, Cer::Assert(_) | Cer::AssertSilent(_))) {
                                v.push(Config { name, cers: cers.clone(), store, lock, uv_yields, store_yields, newest_first: false, update_fault: Some(1), find_fault: None, alias_rp: false, accounts: false, variant: 0 });
                                // a store whose k-th lookup fails once (k counted over the whole run, warm-up included)
                                for k in [2usize, 3] {
                                    v.push(Config { name, cers: cers.clone(), store, lock, uv_yields, store_yields, newest_first: false, update_fault: None, find_fault: Some(k), alias_rp: false, accounts: false, variant: 0 });
                                }
                            }
                        }
                    }
                }
            }
        }
    }
    v
}

fn scheduler_engine(rep: &mut Report, args: &Args, only: Option<u64>) {
    let cfgs = configs(args.thorough());
    let max_runs = args.size(3_000, 60_000);
    for (ci, cfg) in cfgs.iter().enumerate() {
        let idx = ci as u64;
        if only.map_or(false, |o| o != idx) {
            continue;
        }
        let mut schedules: HashSet<u64> = HashSet::new();
        let mut finals: HashSet<u64> = HashSet::new();
        let mut dup_runs = 0u64;
        let r = catch(|| {
            dfs_schedules(
                |prefix| {
                    let mut choose = |step: usize, _n: usize| usize::from(*prefix.get(step).unwrap_or(&0));
                    let out = run_config(cfg, &mut choose);
                    rep.eval();
                    let h = fnv(&out.choices);
                    schedules.insert(h);
                    let mut fs: Vec<String> = out.final_store.iter().map(|c| format!("{}:{:?}", hex_short(&c.id), c.counter)).collect();
                    fs.sort();
                    finals.insert(fnv(fs.join("|").as_bytes()));
                    let overlapped = out.results.iter().enumerate().any(|(i, a)| out.results.iter().skip(i + 1).any(|b| a.first_step <= b.last_step && b.first_step <= a.last_step));
                    if overlapped {
                        rep.nontrivial(h ^ (idx << 48));
                    }
                    let case = json!({"index": idx, "engine": "scheduler", "config": cfg.json(), "schedule": out.choices, "results": out.results.iter().map(|r| format!("{:?}", r.result)).collect::<Vec<_>>()});
                    let mut items: Vec<_> = out.results.iter().map(|r| (r.cer, r.result.clone(), r.first_step as u64 + 2, (r.last_step as u64).saturating_add(2))).collect();
                    for w in &out.warm {
                        items.push((Cer::Assert(0), Some(Ok(w.clone())), 0, 0));
                    }
                    if let Some(c) = &out.cool {
                        items.push((Cer::Assert(0), Some(Ok(c.clone())), 1_000_000, 1_000_000));
                        rep.count("cool_down_assertions");
                    }
                    let before = rep.get("duplicate_counter_runs");
                    let dl = match &out.end {
                        SchedEnd::Deadlock { unfinished } => Some(format!("unfinished ceremonies {unfinished:?} after schedule {:?}", out.choices)),
                        SchedEnd::StepCap => Some("step cap reached".into()),
                        SchedEnd::AllDone => None,
                    };
                    check_history(rep, "scheduler", &case, &items, &out.final_store, dl);
                    if rep.get("duplicate_counter_runs") > before {
                        dup_runs += 1;
                    }
                    if out.results.iter().any(|r| matches!(r.result, Some(Err(_)))) {
                        rep.count("ceremonies_failed_in_schedules");
                    }
                    out.branching
                },
                max_runs,
            )
        });
        match r {
            Ok((runs, complete)) => {
                rep.count_n("schedules_run", runs as u64);
                if complete {
                    rep.count("configurations_enumerated_completely");
                } else {
                    rep.count("configurations_truncated_at_cap");
                }
                rep.sample_class(&format!("scheduler/{}", cfg.name), json!({"config": cfg.json(), "schedules": runs, "distinct_schedules": schedules.len(), "distinct_final_states": finals.len(), "complete": complete, "runs_with_duplicate_counters": dup_runs}));
            }
            Err((sig, d)) => rep.violate(&format!("scheduler {sig}"), d, json!({"index": idx, "config": cfg.json()})),
        }
    }
    // three ceremonies: seeded sampling
    let n3 = args.size(400, 20_000) as u64;
    for k in 0..n3 {
        let idx = 1000 + k;
        if only.map_or(false, |o| o != idx) {
            continue;
        }
        let mut rng = Rng::derive(args.seed, "c19-3", k);
        let cers = match rng.below(3) {
            0 => vec![Cer::Assert(0), Cer::Assert(0), Cer::Register],
            1 => vec![Cer::Assert(0), Cer::Assert(0), Cer::Assert(0)],
            _ => vec![Cer::Assert(0), Cer::Register, Cer::Assert(1)],
        };
        let cfg = Config { name: "three mixed", cers, store: *rng.pick(&[StoreKind::Memory, StoreKind::Rec]), lock: *rng.pick(&[LockKind::Mutex, LockKind::RwLock]), uv_yields: rng.range(1, 2), store_yields: rng.below(2), newest_first: rng.chance(1, 4), update_fault: if rng.chance(1, 4) { Some(rng.below(3)) } else { None }, find_fault: if rng.chance(1, 5) { Some(rng.range(2, 5)) } else { None }, alias_rp: false, accounts: false, variant: 0 };
        let r = catch(|| {
            let mut r2 = rng.clone();
            let mut choose = |_s: usize, n: usize| r2.below(n);
            run_config(&cfg, &mut choose)
        });
        match r {
            Ok(out) => {
                rep.eval();
                rep.nontrivial(fnv(&out.choices) ^ (idx << 40));
                let case = json!({"index": idx, "engine": "scheduler-sampled", "config": cfg.json(), "schedule": out.choices});
                let mut items: Vec<_> = out.results.iter().map(|r| (r.cer, r.result.clone(), r.first_step as u64 + 2, (r.last_step as u64).saturating_add(2))).collect();
                for w in &out.warm {
                    items.push((Cer::Assert(0), Some(Ok(w.clone())), 0, 0));
                }
                let dl = match &out.end {
                    SchedEnd::Deadlock { unfinished } => Some(format!("unfinished {unfinished:?}")),
                    SchedEnd::StepCap => Some("step cap".into()),
                    SchedEnd::AllDone => None,
                };
                check_history(rep, "scheduler", &case, &items, &out.final_store, dl);
                rep.count("sampled_three_way_schedules");
            }
            Err((sig, d)) => rep.violate(&format!("scheduler {sig}"), d, json!({"index": idx, "config": cfg.json()})),
        }
    }
    // a credential registered through U2F by one authenticator and then asserted (CTAP2, the key handle in the
    // allow list) by several authenticators sharing the store, one ceremony after the other, whatever the
    // authenticators' own setting for new credentials is: U2F-registered credentials count, so the counters are
    // pairwise distinct and the largest is the stored one
    let mut u2f_idx = 900u64;
    for lock in [LockKind::Mutex, LockKind::RwLock] {
        for (reg_counters, assert_counters) in [(false, false), (false, true), (true, false), (true, true)] {
            u2f_idx += 1;
            let idx = u2f_idx;
            if only.map_or(false, |o| o != idx) {
                continue;
            }
            rep.eval();
            let case = json!({"index": idx, "engine": "sequential", "part": "U2F registration, then CTAP2 assertions with the key handle from three authenticators in turn", "lock": format!("{lock:?}"), "registering_authenticator_creates_counters": reg_counters, "asserting_authenticators_create_counters": assert_counters});
            rep.nontrivial(fnv(case.to_string().as_bytes()));
            let r = catch(|| {
                let log = crate::collab::Log::new();
                macro_rules! go {
                    ($shared:expr, $snap:expr) => {{
                        let shared = $shared;
                        let uv = |i: usize| RecUv::new(log.clone(), UvOutcome::Check { presence: true, verification: true }, Some(true)).with_actor(i);
                        let mut reg = mk_auth(shared.clone(), uv(0), AuthCfg { counters: reg_counters, ..Default::default() });
                        let registered = crate::exec::block_on(passkey_authenticator::U2fApi::register(&mut reg, passkey_types::u2f::RegisterRequest { challenge: [3u8; 32], application: [7u8; 32] }, &U2F_HANDLE)).is_ok();
                        let after_reg: Vec<CredSnap> = $snap(&shared);
                        let rp = after_reg.iter().find(|c| c.id == U2F_HANDLE).map(|c| c.rp_id.clone()).unwrap_or_default();
                        let mut others = vec![reg, mk_auth(shared.clone(), uv(1), AuthCfg { counters: assert_counters, ..Default::default() }), mk_auth(shared.clone(), uv(2), AuthCfg { counters: assert_counters, ..Default::default() })];
                        let mut counters: Vec<Result<u32, u8>> = Vec::new();
                        for k in 0..7usize {
                            let a = &mut others[k % 3];
                            counters.push(crate::exec::block_on(a.get_assertion(ga_request(&rp, &[k as u8; 32], Some(vec![descriptor(&U2F_HANDLE)]), None, true, true))).map(|r| authdata::decode(&r.auth_data.to_vec()).map(|d| d.counter).unwrap_or(0)).map_err(|e| status_byte_ref(&e)));
                        }
                        drop(others);
                        let fin: Vec<CredSnap> = $snap(&shared);
                        (registered, counters, fin)
                    }};
                }
                match lock {
                    LockKind::Mutex => go!(Arc::new(tokio::sync::Mutex::new(MemoryStore::new())), |s: &Arc<tokio::sync::Mutex<MemoryStore>>| s.try_lock().map(|g| g.values().map(snap_passkey).collect()).unwrap_or_default()),
                    LockKind::RwLock => go!(Arc::new(tokio::sync::RwLock::new(MemoryStore::new())), |s: &Arc<tokio::sync::RwLock<MemoryStore>>| s.try_read().map(|g| g.values().map(snap_passkey).collect()).unwrap_or_default()),
                }
            });
            match r {
                Err((sig, d)) => rep.violate(&format!("sequential {sig}"), d, case),
                Ok((registered, counters, fin)) => {
                    if !registered {
                        rep.count("u2f_shared_registration_refused");
                        continue;
                    }
                    let Some(stored) = fin.iter().find(|c| c.id == U2F_HANDLE) else {
                        rep.violate("sequential: a successful U2F registration's credential is not in the shared store afterwards", String::new(), case);
                        continue;
                    };
                    let ok: Vec<u32> = counters.iter().filter_map(|c| c.as_ref().ok().copied()).collect();
                    rep.count_n("u2f_shared_assertions_checked", ok.len() as u64);
                    if ok.len() < 2 {
                        rep.count("u2f_shared_assertions_refused");
                        rep.obs("u2f_shared_assertion_statuses", json!(format!("{counters:?}")));
                        continue;
                    }
                    let mut d = ok.clone();
                    d.sort_unstable();
                    d.dedup();
                    if d.len() != ok.len() {
                        rep.violate("sequential: two assertions on one U2F-registered credential carry the same counter although no two ceremonies overlapped", format!("counters {ok:?}, stored {:?}", stored.counter), case.clone());
                    } else if stored.counter != ok.iter().max().copied() {
                        rep.violate("sequential: largest reported counter of a U2F-registered credential is not the stored value although no two ceremonies overlapped", format!("counters {ok:?}, stored {:?}", stored.counter), case.clone());
                    }
                }
            }
        }
    }
}

// ---------------------------------------------------------------------------------------------
// thread engine
// ---------------------------------------------------------------------------------------------

fn thread_round(rep: &mut Report, seed: u64, idx: u64, threads: usize, per_thread: usize, engine: &str) {
    let mut rng = Rng::derive(seed, "c19t", idx);
    let lock_rw = rng.bool();
    let creds = seed_creds();
    let mut m = MemoryStore::new();
    for c in &creds {
        m.insert(c.credential_id.to_vec(), c.clone());
    }
    let log = Log::new();
    let results: Arc<std::sync::Mutex<Vec<(Cer, Option<Result<(Vec<u8>, u32), u8>>, u64, u64)>>> = Default::default();
    let case = json!({"index": idx, "engine": engine, "threads": threads, "ceremonies_per_thread": per_thread, "lock": if lock_rw {"RwLock"} else {"Mutex"}});
    macro_rules! spawn_all {
        ($shared:expr) => {{
            let shared = $shared;
            let mut handles = Vec::new();
            for t in 0..threads {
                let shared = shared.clone();
                let log = log.clone();
                let results = results.clone();
                let creds = creds.clone();
                let mut trng = Rng::derive(seed, "c19tt", idx * 64 + t as u64);
                handles.push(std::thread::spawn(move || {
                    let uv = RecUv::new(log.clone(), UvOutcome::Check { presence: true, verification: true }, Some(true)).with_actor(t);
                    let mut auth = mk_auth(shared, uv.clone(), AuthCfg { counters: true, ..Default::default() });
                    for _ in 0..per_thread {
                        uv.set_yields(trng.below(3));
                        uv.set_spin(trng.below(40) as u32);
                        let cer = match trng.below(6) {
                            0 => Cer::Register,
                            1 => Cer::Assert(1),
                            2 => Cer::AssertAny,
                            _ => Cer::Assert(0),
                        };
                        let t0 = log.push(t, crate::collab::Ev::Call { op: "ceremony" });
                        let res = match cer {
                            Cer::Assert(_) | Cer::AssertAny => {
                                let allow = match cer {
                                    Cer::Assert(k) => Some(vec![descriptor(&creds[k].credential_id)]),
                                    _ => None,
                                };
                                block_on_thread(auth.get_assertion(ga_request(RP, &[1u8; 32], allow, None, true, true)), 200).map(|r| match r {
                                    Ok(r) => Ok((r.credential.map(|d| d.id.to_vec()).unwrap_or_default(), authdata::decode(&r.auth_data.to_vec()).map(|d| d.counter).unwrap_or(0))),
                                    Err(e) => Err(status_byte_ref(&e)),
                                })
                            }
                            Cer::AssertSilent(_) | Cer::AssertRefused(_) | Cer::AssertBoth(_) | Cer::U2fRegister => unreachable!("not generated by the thread engine"),
                            Cer::Register => block_on_thread(auth.make_credential(mc_request(RP, b"new", &[2u8; 32], vec![pk_param(coset::iana::Algorithm::ES256)], None, None, false, true, true)), 200).map(|r| match r {
                                Ok(r) => Ok((authdata::decode(&r.auth_data.to_vec()).ok().and_then(|d| d.attested.map(|a| a.cred_id)).unwrap_or_default(), 0)),
                                Err(e) => Err(status_byte_ref(&e)),
                            }),
                        };
                        let t1 = log.push(t, crate::collab::Ev::Return { op: "ceremony", ok: matches!(res, Some(Ok(_))) });
                        results.lock().unwrap().push((cer, res, t0, t1));
                    }
                }));
            }
            let mut panicked = false;
            for h in handles {
                panicked |= h.join().is_err();
            }
            panicked
        }};
    }
    let (panicked, final_store): (bool, Vec<CredSnap>) = if lock_rw {
        let shared = Arc::new(tokio::sync::RwLock::new(m));
        let p = spawn_all!(shared.clone());
        let fs = shared.try_read().map(|g| g.values().map(snap_passkey).collect()).unwrap_or_default();
        (p, fs)
    } else {
        let shared = Arc::new(tokio::sync::Mutex::new(m));
        let p = spawn_all!(shared.clone());
        let fs = shared.try_lock().map(|g| g.values().map(snap_passkey).collect()).unwrap_or_default();
        (p, fs)
    };
    rep.eval();
    if panicked {
        rep.violate(&format!("{engine}: a ceremony thread panicked"), String::new(), case.clone());
    }
    let items = results.lock().unwrap().clone();
    let stuck = items.iter().filter(|i| i.1.is_none()).count();
    let dl = if stuck > 0 { Some(format!("{stuck} ceremonies made no progress for 10 s of idle parking")) } else { None };
    // distinctness: the observed order of ceremony boundaries
    let order: Vec<u8> = log.snapshot().iter().filter(|e| matches!(e.ev, crate::collab::Ev::Call { .. } | crate::collab::Ev::Return { .. })).map(|e| e.actor as u8).collect();
    let overlapped = items.iter().enumerate().any(|(i, a)| items.iter().skip(i + 1).any(|b| a.2 <= b.3 && b.2 <= a.3));
    if overlapped {
        rep.nontrivial(fnv(&order) ^ idx);
        rep.count("thread_rounds_with_overlap");
    }
    check_history(rep, engine, &case, &items, &final_store, dl);
    rep.count_n("thread_ceremonies", items.len() as u64);
    rep.sample_class(&format!("{engine}/round"), json!({"case": case, "ceremonies": items.len(), "overlapping": overlapped, "boundary_order_head": order.iter().take(40).collect::<Vec<_>>()}));
}

pub fn run(args: &Args) -> Report {
    let mut rep = Report::new(
        "C19",
        &args.tier,
        args.seed,
        "engine 1: all poll orders (DFS over the runnable set at every step; capped) of two concurrent ceremonies {assert||assert on one credential, on two, assert||register, register||register} x store {MemoryStore, reference store} x wrapper {Arc<Mutex>, Arc<RwLock>} x user validation yielding 1-2 times (x store yielding 0-1), plus seeded poll orders of three ceremonies; engine 2: 2-8 OS threads x 20-200 ceremonies with seeded spin/yield delays at the user-validation suspension point (also run under TSan and Miri in thorough); distinct by hash of the schedule (choice sequence) resp. of the observed order of ceremony boundaries; non-trivial when at least two ceremonies overlapped",
    );
    rep.assumptions.push("ceremonies suspend only at collaborator yields and contended tokio locks, so choosing the poll order at those points reaches every interleaving the program has at suspension-point granularity".into());
    let engine = args.engine.clone().unwrap_or_else(|| "native".into());
    let only = replay_index(args);
    let shard: u64 = args.get("shard").and_then(|s| s.parse().ok()).unwrap_or(0);
    match engine.as_str() {
        "miri" => {
            crate::util::MIRI_REAL_KEYS.store(true, std::sync::atomic::Ordering::Relaxed);
            // tiny: 2 threads x 2 ceremonies, schedule varied by the miri seed / shard
            thread_round(&mut rep, args.seed + shard, 5_000_000 + shard, 2, 2, "miri-threads");
        }
        "tsan" => {
            for k in 0..args.size(10, 60) as u64 {
                thread_round(&mut rep, args.seed, 4_000_000 + k, 2 + (k % 7) as usize, 30, "tsan-threads");
            }
        }
        _ => {
            scheduler_engine(&mut rep, args, only);
            let rounds = args.size(12, 150) as u64;
            for k in 0..rounds {
                let idx = 3_000_000 + k;
                if only.map_or(true, |o| o == idx) {
                    thread_round(&mut rep, args.seed, idx, 2 + (k % 7) as usize, if args.thorough() { 200 } else { 40 }, "threads");
                }
            }
        }
    }
    if only.is_none() && engine == "native" && (rep.get("configurations_enumerated_completely") == 0 || rep.get("registrations_checked") == 0 || rep.get("assertions_checked") == 0 || rep.get("thread_rounds_with_overlap") == 0) {
        rep.inconclusive("no configuration was enumerated completely, or registrations / assertions / overlapping thread rounds were not observed".into());
    }
    rep
}
