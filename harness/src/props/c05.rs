//! C05 — credentials are used only for their own RP and as the allow/exclude lists say.
//! (a) authenticator over a contract-conforming store; (b) shipped stores against the contract.

use std::sync::Arc;

use passkey_authenticator::{CredentialStore, MemoryStore};
use passkey_types::{webauthn::PublicKeyCredentialDescriptor, Passkey};
use serde_json::{json, Value};

use crate::{
    collab::{Disc, Ev, RecStore, RecUv, UvOutcome},
    exec::block_on,
    oracle::{self, authdata},
    props::c02::replay_index,
    report::{hex_short, Report},
    rng::{fnv_str, Rng},
    util::{descriptor, ga_request, mc_request, mk_auth, pk_param, seeded_passkey, status_byte_ref, AuthCfg, Rig},
    worker::catch,
    Args,
};

const RPS: [&str; 5] = ["alpha.example", "beta.example", "gamma.example", "unknown.example", "Alpha.Example"];

struct Content {
    creds: Vec<Passkey>,
}

fn gen_content(rng: &mut Rng) -> Content {
    let mut creds = Vec::new();
    let mut n = 0u8;
    for rp in &RPS[..3] {
        let k = rng.range(0, 4);
        for _ in 0..k {
            n += 1;
            // ids of the lengths this library generates and of others (imported / synced credentials,
            // security-key key handles): a held id is any byte string up to 1023 bytes
            let len = *rng.pick(&[16usize, 16, 16, 16, 32, 64, 65, 128, 255, 2]);
            let id: Vec<u8> = {
                let mut v = rng.bytes(len - 1);
                v.push(n);
                v
            };
            // identical user handles across RPs
            let ctr = if rng.bool() { Some(rng.below(100) as u32) } else { None };
            // (a third are non-discoverable credentials: no user handle is stored with them)
            let uh: Option<&[u8]> = if rng.chance(1, 3) { None } else { Some(b"same-user-handle") };
            let (pk, _, _) = seeded_passkey(rng, rp, &id, uh, ctr, None);
            creds.push(pk);
        }
    }
    rng.shuffle(&mut creds);
    Content { creds }
}

fn content_json(c: &Content) -> Value {
    json!(c.creds.iter().map(|p| json!({"id": hex_short(&p.credential_id), "rp": p.rp_id})).collect::<Vec<_>>())
}

/// id list for a query about `rp`: (class, ids)
/// descriptors for an id list; `known_types` false = every descriptor carries an unknown type string
fn descriptors(ids: &Option<Vec<Vec<u8>>>, known_types: bool) -> Option<Vec<PublicKeyCredentialDescriptor>> {
    ids.as_ref().map(|l| l.iter().map(|i| crate::util::descriptor_typed(i, known_types)).collect())
}

fn gen_ids(rng: &mut Rng, c: &Content, rp: &str) -> (&'static str, Option<Vec<Vec<u8>>>) {
    let own: Vec<Vec<u8>> = c.creds.iter().filter(|p| p.rp_id == rp).map(|p| p.credential_id.to_vec()).collect();
    let foreign: Vec<Vec<u8>> = c.creds.iter().filter(|p| p.rp_id != rp).map(|p| p.credential_id.to_vec()).collect();
    match rng.below(13) {
        // long lists (relying parties list every credential of an account): 9-24 entries, one of them held
        11 | 12 if !own.is_empty() => {
            let n = rng.range(9, 24);
            let mut v: Vec<Vec<u8>> = (0..n).map(|_| rng.bytes(16)).collect();
            let at = if rng.bool() { rng.below(8) } else { rng.below(n) };
            v[at] = rng.pick(&own).clone();
            ("long-list-with-one-hit", Some(v))
        }
        11 | 12 => ("long-list-of-misses", Some((0..rng.range(9, 24)).map(|_| rng.bytes(16)).collect())),
        // ids that share a prefix with a held id but are not it (shorter, longer, empty)
        8 if !own.is_empty() => {
            let o = rng.pick(&own).clone();
            ("proper-prefix-of-held-id", Some(vec![o[..o.len() / 2].to_vec()]))
        }
        9 if !own.is_empty() => {
            let mut o = rng.pick(&own).clone();
            o.push(rng.byte());
            ("extension-of-held-id", Some(vec![o]))
        }
        10 => ("empty-id", Some(vec![vec![]])),
        0 => ("absent", None),
        1 => ("empty", Some(vec![])),
        2 if !own.is_empty() => ("hit", Some(vec![rng.pick(&own).clone()])),
        3 if !own.is_empty() => ("hit+miss", Some(vec![rng.bytes(16), rng.pick(&own).clone()])),
        4 if !foreign.is_empty() => ("other-rp-id", Some(vec![rng.pick(&foreign).clone()])),
        5 if !foreign.is_empty() && !own.is_empty() => ("other-rp-id+hit", Some(vec![rng.pick(&foreign).clone(), rng.pick(&own).clone()])),
        6 if own.len() > 1 => ("all-own-reversed", Some(own.iter().rev().cloned().collect())),
        _ => ("miss", Some(vec![rng.bytes(16)])),
    }
}

// ---------------------------------------------------------------------------------------------
// (a) authenticator over the reference store
// ---------------------------------------------------------------------------------------------

fn part_a(rep: &mut Report, seed: u64, index: u64) {
    let mut rng = Rng::derive(seed, "c05a", index);
    let content = gen_content(&mut rng);
    // the store capability is irrelevant to lookups and exclusion (registrations here ask for rk = false)
    let disc = *rng.pick(&[Disc::Full, Disc::Full, Disc::Forced, Disc::OnlyNonDiscoverable]);
    let rig = Rig::ok(disc);
    for p in &content.creds {
        rig.store.insert_raw(p.clone());
    }
    let prf_capable = rng.bool();
    let mut auth = rig.auth(AuthCfg { counters: rng.bool(), hmac: if prf_capable { crate::util::HmacCfg::WithoutUv } else { crate::util::HmacCfg::None }, ..Default::default() });
    let n_ops = rng.range(3, 10);
    for step in 0..n_ops {
        rep.eval();
        let rp = *rng.pick(&RPS);
        let snapshot = rig.store.snapshot();
        let cur = Content { creds: rig.store.passkeys() };
        let (class, ids) = gen_ids(&mut rng, &cur, rp);
        let is_get = rng.chance(2, 3);
        let case = json!({"index": index, "part": "a", "step": step, "op": if is_get {"get_assertion"} else {"make_credential"}, "rp": rp, "list_class": class,
            "list": ids.as_ref().map(|l| l.iter().map(|i| hex_short(i)).collect::<Vec<_>>()), "store": content_json(&cur), "store_capability": format!("{disc:?}")});
        rig.log.clear();
        let known_types = !rng.chance(1, 5);
        let case = {
            let mut c = case;
            c["descriptor_types_known"] = json!(known_types);
            c
        };
        let list: Option<Vec<PublicKeyCredentialDescriptor>> = descriptors(&ids, known_types);
        let nonempty = ids.as_ref().map_or(false, |l| !l.is_empty());
        let own_first = snapshot.iter().find(|c| c.rp_id == rp).map(|c| c.id.clone());
        let key = format!("a|{}|{class}|t{known_types}|rp{}|n{}", is_get, RPS.iter().position(|r| *r == rp).unwrap(), snapshot.len().min(8));
        if is_get {
            // a third of the assertions carry per-credential PRF inputs whose keys need not be in the
            // allow list (the platform checks that, the authenticator is not entitled to rely on it)
            let ext = rng.chance(1, 3).then(|| {
                let mut by = std::collections::HashMap::new();
                for _ in 0..rng.range(1, 2) {
                    let key: Vec<u8> = if !cur.creds.is_empty() && rng.chance(3, 4) { rng.pick(&cur.creds).credential_id.to_vec() } else { rng.bytes(16) };
                    by.insert(key.into(), passkey_types::ctap2::extensions::AuthenticatorPrfValues { first: [3; 32], second: None });
                }
                passkey_types::ctap2::get_assertion::ExtensionInputs { hmac_secret: None, prf: Some(passkey_types::ctap2::extensions::AuthenticatorPrfInputs { eval: rng.bool().then(|| passkey_types::ctap2::extensions::AuthenticatorPrfValues { first: [4; 32], second: None }), eval_by_credential: Some(by) }) }
            });
            // one assertion in six asks for neither presence nor verification, and the user-validation step
            // reports neither: the same credential is selected as ever
            let silent = rng.chance(1, 6);
            if silent {
                rig.uv.set_outcome(UvOutcome::Check { presence: false, verification: false });
                rep.count("a_silent_requests");
            }
            let res = catch(|| block_on(auth.get_assertion(ga_request(rp, &[5u8; 32], list, if silent { None } else { ext }, !silent, false))));
            rig.uv.set_outcome(UvOutcome::Check { presence: true, verification: true });
            let res = match res {
                Ok(r) => r,
                Err((sig, d)) => {
                    rep.violate(&format!("a: get_assertion {sig}"), d, case);
                    continue;
                }
            };
            // arguments the store received
            let finds: Vec<(Option<Vec<Vec<u8>>>, String)> = rig.log.snapshot().iter().filter_map(|e| if let Ev::Find { ids, rp, .. } = &e.ev { Some((ids.clone(), rp.clone())) } else { None }).collect();
            let want_ids = if nonempty { ids.clone() } else { None };
            if finds.len() != 1 || finds[0].1 != rp || finds[0].0 != want_ids {
                rep.violate("a: lookup arguments are not (request RP ID, allow list iff non-empty)", format!("store saw {:?}", finds.iter().map(|f| (f.0.as_ref().map(|l| l.len()), f.1.clone())).collect::<Vec<_>>()), case.clone());
            }
            match res {
                Ok(resp) => {
                    rep.count("a_get_ok");
                    rep.nontrivial(fnv_str(&key));
                    let used = resp.credential.as_ref().map(|d| d.id.to_vec()).unwrap_or_default();
                    match snapshot.iter().find(|c| c.id == used) {
                        None => rep.violate("a: assertion made with a credential that is not in the store", hex_short(&used), case.clone()),
                        Some(c) => {
                            if c.rp_id != rp {
                                rep.violate("a: assertion for one RP made with a credential bound to another RP", format!("requested {rp:?}, credential of {:?}", c.rp_id), case.clone());
                            }
                        }
                    }
                    if nonempty {
                        if !ids.as_ref().unwrap().contains(&used) {
                            rep.violate("a: assertion made with a credential not named in the non-empty allow list", hex_short(&used), case.clone());
                        }
                    } else if Some(&used) != own_first.as_ref() {
                        rep.violate("a: absent/empty allow list did not select the first credential the store lists for the RP", format!("used {} first {:?}", hex_short(&used), own_first.as_ref().map(|i| hex_short(i))), case.clone());
                    }
                    if let Ok(ad) = authdata::decode(&resp.auth_data.to_vec()) {
                        if ad.rp_id_hash != oracle::sha256(rp.as_bytes()) {
                            rep.violate("a: rpIdHash of the assertion is not that of the requested RP", String::new(), case.clone());
                        }
                    }
                }
                Err(e) => {
                    rep.count(&format!("a_get_err:{:#x}", status_byte_ref(&e)));
                    rep.nontrivial(fnv_str(&key));
                    // "no credentials" is the answer to a lookup that listed none: when the store listed a
                    // credential for the request, the first one listed is selected
                    let listed: usize = rig.log.snapshot().iter().filter_map(|e| if let Ev::Find { result: Ok(l), .. } = &e.ev { Some(l.len()) } else { None }).sum();
                    if status_byte_ref(&e) == 0x2E && listed > 0 {
                        rep.violate("a: no-credentials answered although the store listed a credential for the request", format!("{listed} listed; silent request: {silent}"), case.clone());
                    }
                }
            }
        } else {
            // the exclusion answer comes first whatever else is wrong with the request (CTAP2 puts the
            // exclude list first so that platforms can probe with throw-away requests)
            let params = match rng.below(6) {
                0 => vec![pk_param(coset::iana::Algorithm::RS256)],
                1 => vec![],
                _ => vec![pk_param(coset::iana::Algorithm::ES256)],
            };
            let mut req = mc_request(rp, b"same-user-handle", &[6u8; 32], params, list, None, false, true, false);
            if rng.chance(1, 8) {
                req.pin_auth = Some(vec![1, 2, 3].into());
                req.pin_protocol = Some(1);
            }
            let res = catch(|| block_on(auth.make_credential(req)));
            let res = match res {
                Ok(r) => r,
                Err((sig, d)) => {
                    rep.violate(&format!("a: make_credential {sig}"), d, case);
                    continue;
                }
            };
            let should_exclude = nonempty && snapshot.iter().any(|c| c.rp_id == rp && ids.as_ref().unwrap().contains(&c.id));
            let after = rig.store.snapshot();
            if nonempty {
                let finds: Vec<(Option<Vec<Vec<u8>>>, String)> = rig.log.snapshot().iter().filter_map(|e| if let Ev::Find { ids, rp, .. } = &e.ev { Some((ids.clone(), rp.clone())) } else { None }).collect();
                if finds.len() != 1 || finds[0].1 != rp || finds[0].0 != ids {
                    rep.violate("a: exclude-list lookup arguments are not (request RP ID, exclude list)", format!("{} lookups", finds.len()), case.clone());
                }
            }
            rep.nontrivial(fnv_str(&key));
            match res {
                Ok(_) => {
                    rep.count("a_make_ok");
                    if should_exclude {
                        rep.violate("a: registration succeeded although the exclude list names a credential held for the same RP", String::new(), case.clone());
                    }
                }
                Err(e) => {
                    let b = status_byte_ref(&e);
                    rep.count(&format!("a_make_err:{b:#x}"));
                    if b == 0x19 {
                        rep.count("a_excluded");
                        if !should_exclude {
                            rep.violate("a: registration refused as excluded although no listed credential is held for the same RP", format!("list class {class}"), case.clone());
                        }
                    } else if should_exclude {
                        rep.violate("a: exclude-list hit reported with a status other than credential-excluded", format!("{b:#x}"), case.clone());
                    }
                    if after != snapshot {
                        rep.violate("a: refused registration changed the store", format!("{b:#x}"), case.clone());
                    }
                }
            }
        }
    }
}

// ---------------------------------------------------------------------------------------------
// (b) shipped stores against the contract
// ---------------------------------------------------------------------------------------------

fn find_ids<S: CredentialStore<PasskeyItem = Passkey>>(s: &S, ids: Option<&[PublicKeyCredentialDescriptor]>, rp: &str) -> Vec<Vec<u8>> {
    match block_on(s.find_credentials(ids, rp)) {
        Ok(v) => v.into_iter().map(|p| p.credential_id.to_vec()).collect(),
        Err(_) => vec![],
    }
}

fn classify(base: &str, got: &[Vec<u8>], want: &[Vec<u8>], content: &Content, rp: &str, ids: &Option<Vec<Vec<u8>>>) -> Option<String> {
    let mut g = got.to_vec();
    let mut w = want.to_vec();
    g.sort();
    w.sort();
    if g == w {
        return None;
    }
    // most specific first, so that a new kind of disagreement is not filed under a recorded one
    let not_listed = ids.as_ref().map_or(false, |l| got.iter().any(|i| !l.contains(i)));
    let foreign = got.iter().any(|i| content.creds.iter().any(|c| c.credential_id.as_slice() == i.as_slice() && c.rp_id != rp));
    let missing_own = want.iter().any(|i| !got.contains(i));
    let kind = if not_listed {
        "returns a credential that is not in the id list"
    } else if ids.is_none() && got.is_empty() && !want.is_empty() {
        "returns nothing for an id-less lookup although the RP has credentials"
    } else if missing_own && ids.is_some() {
        "does not return a listed credential of the RP"
    } else if foreign {
        "returns a credential bound to another RP"
    } else {
        "disagrees with the lookup contract"
    };
    Some(format!("b: shipped store {base} {kind}"))
}

fn part_b(rep: &mut Report, seed: u64, index: u64) {
    let mut rng = Rng::derive(seed, "c05b", index);
    let content = gen_content(&mut rng);
    // ---- MemoryStore and its wrappers
    let mut mem = MemoryStore::new();
    for p in &content.creds {
        mem.insert(p.credential_id.to_vec(), p.clone());
    }
    let arc_mutex = Arc::new(tokio::sync::Mutex::new(mem.clone()));
    let arc_rw = Arc::new(tokio::sync::RwLock::new(mem.clone()));
    let mutex = tokio::sync::Mutex::new(mem.clone());
    let rw = tokio::sync::RwLock::new(mem.clone());
    // ---- Option<Passkey> and wrappers
    let single: Option<Passkey> = content.creds.first().cloned();
    let single_content = Content { creds: single.clone().into_iter().collect() };
    let o_arc_mutex = Arc::new(tokio::sync::Mutex::new(single.clone()));
    let o_rw = tokio::sync::RwLock::new(single.clone());
    for q in 0..12 {
        let rp = *rng.pick(&RPS);
        for (base, cont) in [("MemoryStore", &content), ("Option<Passkey>", &single_content)] {
            rep.eval();
            let (class, ids) = gen_ids(&mut rng, cont, rp);
            let list: Option<Vec<PublicKeyCredentialDescriptor>> = ids.as_ref().map(|l| l.iter().map(|i| descriptor(i)).collect());
            let want: Vec<Vec<u8>> = RecStore::model_find(&cont.creds, ids.as_deref(), rp).into_iter().map(|p| p.credential_id.to_vec()).collect();
            let case = json!({"index": index, "part": "b", "query": q, "store": base, "rp": rp, "list_class": class,
                "list": ids.as_ref().map(|l| l.iter().map(|i| hex_short(i)).collect::<Vec<_>>()), "content": content_json(cont)});
            let res = catch(|| {
                if base == "MemoryStore" {
                    let g = find_ids(&mem, list.as_deref(), rp);
                    let w = vec![
                        ("Arc<Mutex<_>>", find_ids(&arc_mutex, list.as_deref(), rp)),
                        ("Arc<RwLock<_>>", find_ids(&arc_rw, list.as_deref(), rp)),
                        ("Mutex<_>", find_ids(&mutex, list.as_deref(), rp)),
                        ("RwLock<_>", find_ids(&rw, list.as_deref(), rp)),
                    ];
                    (g, w)
                } else {
                    let g = find_ids(&single, list.as_deref(), rp);
                    let w = vec![("Arc<Mutex<_>>", find_ids(&o_arc_mutex, list.as_deref(), rp)), ("RwLock<_>", find_ids(&o_rw, list.as_deref(), rp))];
                    (g, w)
                }
            });
            let (got, wrapped) = match res {
                Ok(v) => v,
                Err((sig, d)) => {
                    rep.violate(&format!("b: {base} lookup {sig}"), d, case);
                    continue;
                }
            };
            let discriminates = cont.creds.iter().map(|c| c.rp_id.as_str()).collect::<std::collections::HashSet<_>>().len() >= 2 || cont.creds.len() >= 2 || base != "MemoryStore";
            if discriminates {
                rep.nontrivial(fnv_str(&format!("b|{base}|{class}|{}|n{}|w{}", RPS.iter().position(|r| *r == rp).unwrap(), cont.creds.len().min(6), want.len().min(3))));
            }
            if let Some(sig) = classify(base, &got, &want, cont, rp, &ids) {
                rep.violate(&sig, format!("returned {:?}, contract says {:?}", got.iter().map(|i| hex_short(i)).collect::<Vec<_>>(), want.iter().map(|i| hex_short(i)).collect::<Vec<_>>()), case.clone());
            } else {
                rep.count(&format!("b_agree:{base}"));
            }
            for (wname, wgot) in wrapped {
                let mut a = wgot.clone();
                let mut b = got.clone();
                a.sort();
                b.sort();
                if a != b {
                    rep.violate(&format!("b: lock wrapper {wname} over {base} returns something different from the wrapped store"), String::new(), case.clone());
                }
                rep.count("b_wrapper_lookups");
            }
            rep.sample_class(&format!("b/{base}/{class}"), json!({"case": case, "returned": got.len(), "contract": want.len()}));
        }
    }
    // save / update through the wrappers land in the wrapped store
    let (extra, _, _) = seeded_passkey(&mut rng, "delta.example", &[0xD1; 16], None, Some(3), None);
    let mut h = arc_mutex.clone();
    let user = passkey_types::ctap2::make_credential::PublicKeyCredentialUserEntity { id: vec![1].into(), name: None, display_name: None, icon_url: None };
    let rp = passkey_types::ctap2::make_credential::PublicKeyCredentialRpEntity { id: "delta.example".into(), name: None };
    let opts = passkey_types::ctap2::get_assertion::Options { rk: false, up: true, uv: false };
    let _ = block_on(h.save_credential(extra.clone(), user, rp, opts));
    let present = block_on(arc_mutex.lock()).contains_key(&vec![0xD1u8; 16]);
    if !present {
        rep.violate("b: save through Arc<Mutex<_>> did not reach the wrapped store", String::new(), json!({"index": index, "part": "b"}));
    }
    let mut upd = extra.clone();
    upd.counter = Some(4);
    let mut h2 = arc_rw.clone();
    let _ = block_on(h2.update_credential(upd));
    let c = block_on(arc_rw.read()).get(&vec![0xD1u8; 16]).and_then(|p| p.counter);
    if c != Some(4) {
        rep.violate("b: update through Arc<RwLock<_>> did not reach the wrapped store", format!("{c:?}"), json!({"index": index, "part": "b"}));
    }
}

// ---------------------------------------------------------------------------------------------
// (c) the same rule through the client: descriptors carry transport hints as relying parties send them
// ---------------------------------------------------------------------------------------------

fn hinted(id: &[u8], rng: &mut Rng) -> PublicKeyCredentialDescriptor {
    use passkey_types::webauthn::AuthenticatorTransport as T;
    let all = [T::Usb, T::Nfc, T::Ble, T::Hybrid, T::Internal];
    let transports = match rng.below(5) {
        0 => None,
        1 => Some(vec![]),
        2 => Some(vec![T::Usb, T::Nfc]),
        3 => Some(vec![T::Internal, T::Hybrid]),
        _ => Some((0..rng.range(1, 3)).map(|_| *rng.pick(&all)).collect()),
    };
    PublicKeyCredentialDescriptor { ty: passkey_types::webauthn::PublicKeyCredentialType::PublicKey, id: id.to_vec().into(), transports }
}

fn part_c(rep: &mut Report, seed: u64, index: u64) {
    use passkey_client::DefaultClientData;
    let mut rng = Rng::derive(seed, "c05c", index);
    let content = gen_content(&mut rng);
    let rig = Rig::ok(Disc::Full);
    for p in &content.creds {
        rig.store.insert_raw(p.clone());
    }
    let mut client = rig.client(AuthCfg { counters: rng.bool(), ..Default::default() });
    for step in 0..rng.range(2, 6) {
        rep.eval();
        let rp = *rng.pick(&RPS[..4]);
        let snapshot = rig.store.snapshot();
        let cur = Content { creds: rig.store.passkeys() };
        let (class, ids) = gen_ids(&mut rng, &cur, rp);
        let list: Option<Vec<PublicKeyCredentialDescriptor>> = ids.as_ref().map(|l| l.iter().map(|i| hinted(i, &mut rng)).collect());
        let nonempty = ids.as_ref().map_or(false, |l| !l.is_empty());
        let is_get = rng.bool();
        let case = json!({"index": index, "part": "c", "step": step, "op": if is_get {"authenticate"} else {"register"}, "rp": rp, "list_class": class,
            "list": list.as_ref().map(|l| l.iter().map(|d| json!({"id": hex_short(&d.id), "transports": d.transports.as_ref().map(|t| t.iter().map(|x| format!("{x:?}")).collect::<Vec<_>>())})).collect::<Vec<_>>()),
            "store": content_json(&cur)});
        let origin = crate::util::url(&format!("https://{rp}"));
        rep.nontrivial(fnv_str(&format!("c|{is_get}|{class}|rp{}|n{}|h{}", RPS.iter().position(|r| *r == rp).unwrap(), snapshot.len().min(8),
            list.as_ref().map_or(0, |l| l.iter().filter(|d| d.transports.as_ref().map_or(false, |t| !t.is_empty())).count().min(2)))));
        if is_get {
            let mut opts = crate::util::request_options(Some(rp), &[7u8; 16], list, passkey_types::webauthn::UserVerificationRequirement::Discouraged);
            // a quarter of the requests arrive as JSON; half of those name the allow list `allowList`, the
            // member name older platform services write (the type documents it as accepted)
            if rng.chance(1, 4) {
                if let Ok(mut v) = serde_json::to_value(&opts) {
                    fn drop_nulls(v: &mut Value) {
                        match v {
                            Value::Object(m) => {
                                m.retain(|_, x| !x.is_null());
                                m.values_mut().for_each(drop_nulls);
                            }
                            Value::Array(a) => a.iter_mut().for_each(drop_nulls),
                            _ => {}
                        }
                    }
                    drop_nulls(&mut v);
                    let legacy = rng.bool();
                    if legacy {
                        if let Some(m) = v["publicKey"].as_object_mut() {
                            if let Some(l) = m.remove("allowCredentials") {
                                m.insert("allowList".into(), l);
                            }
                        }
                    }
                    match serde_json::from_value::<passkey_types::webauthn::CredentialRequestOptions>(v) {
                        Ok(parsed) => {
                            rep.count(if legacy { "c_requests_through_json_with_the_legacy_list_name" } else { "c_requests_through_json" });
                            opts = parsed;
                        }
                        Err(e) => rep.violate("c: request options do not parse from their own JSON", e.to_string(), case.clone()),
                    }
                }
            }
            let own_first = snapshot.iter().find(|c| c.rp_id == rp).map(|c| c.id.clone());
            match catch(|| block_on(client.authenticate(&origin, opts, DefaultClientData))) {
                Err((sig, d)) => rep.violate(&format!("c: authenticate {sig}"), d, case),
                Ok(Ok(cred)) => {
                    rep.count("c_get_ok");
                    let used = cred.raw_id.to_vec();
                    match snapshot.iter().find(|c| c.id == used) {
                        None => rep.violate("c: assertion made with a credential that is not in the store", hex_short(&used), case.clone()),
                        Some(c) if c.rp_id != rp => rep.violate("c: assertion for one RP made with a credential bound to another RP", c.rp_id.clone(), case.clone()),
                        _ => {}
                    }
                    if nonempty {
                        if !ids.as_ref().unwrap().contains(&used) {
                            rep.violate("c: assertion made with a credential not named in the non-empty allow list", hex_short(&used), case.clone());
                        }
                    } else if Some(&used) != own_first.as_ref() {
                        rep.violate("c: absent/empty allow list did not select the first credential the store lists for the RP", hex_short(&used), case.clone());
                    }
                }
                Ok(Err(_)) => {
                    rep.count("c_get_err");
                    let eligible = snapshot.iter().any(|c| c.rp_id == rp && (!nonempty || ids.as_ref().unwrap().contains(&c.id)));
                    // the property restricts which credential may sign; it does not promise success
                    if eligible {
                        rep.count("c_get_err_although_eligible");
                    }
                }
            }
        } else {
            let mut opts = crate::util::creation_options(Some(rp), b"same-user-handle", "n", &[8u8; 16], vec![pk_param(coset::iana::Algorithm::ES256)]);
            opts.public_key.exclude_credentials = list;
            // a quarter of the requests arrive as JSON whose ids are base64url text as relying parties write
            // it: not necessarily the canonical encoding (the unused low bits of the last symbol may be set)
            if rng.chance(1, 4) {
                if let Ok(mut v) = serde_json::to_value(&opts) {
                    if let Some(l) = v["publicKey"]["excludeCredentials"].as_array_mut() {
                        for d in l.iter_mut() {
                            let bytes: Vec<u8> = d["id"].as_array().map(|a| a.iter().filter_map(|x| x.as_u64().map(|b| b as u8)).collect()).unwrap_or_default();
                            d["id"] = json!(oracle::b64url_spare_bits_set(&bytes));
                        }
                    }
                    // members the struct holds as None are written as null by the derive; a relying party
                    // leaves them out
                    fn drop_nulls(v: &mut Value) {
                        match v {
                            Value::Object(m) => {
                                m.retain(|_, x| !x.is_null());
                                m.values_mut().for_each(drop_nulls);
                            }
                            Value::Array(a) => a.iter_mut().for_each(drop_nulls),
                            _ => {}
                        }
                    }
                    drop_nulls(&mut v);
                    match serde_json::from_value::<passkey_types::webauthn::CredentialCreationOptions>(v) {
                        Ok(parsed) => {
                            rep.count("c_requests_through_json");
                            opts = parsed;
                        }
                        Err(e) => rep.violate("c: options with base64url ids whose last symbol has spare bits set do not parse", e.to_string(), case.clone()),
                    }
                }
            }
            let should_exclude = nonempty && snapshot.iter().any(|c| c.rp_id == rp && ids.as_ref().unwrap().contains(&c.id));
            let res = catch(|| block_on(client.register(&origin, opts, DefaultClientData)));
            let after = rig.store.snapshot();
            match res {
                Err((sig, d)) => rep.violate(&format!("c: register {sig}"), d, case),
                Ok(Ok(_)) => {
                    rep.count("c_make_ok");
                    if should_exclude {
                        rep.violate("c: registration succeeded although the exclude list names a credential held for the same RP", String::new(), case.clone());
                    }
                }
                Ok(Err(e)) => {
                    let excluded = matches!(e, passkey_client::WebauthnError::AuthenticatorError(0x19));
                    if excluded {
                        rep.count("c_excluded");
                    }
                    if excluded != should_exclude {
                        rep.violate("c: credential-excluded reported exactly when it should not be (or another error when it should)", format!("{e:?}, list class {class}"), case.clone());
                    }
                    if after != snapshot {
                        rep.violate("c: refused registration changed the store", format!("{e:?}"), case.clone());
                    }
                }
            }
        }
    }
}

// ---------------------------------------------------------------------------------------------
// (d) a conforming store whose items are not `Passkey`s: some entries cannot be converted
// ---------------------------------------------------------------------------------------------

fn part_d(rep: &mut Report, seed: u64, index: u64) {
    use crate::collab::{VaultStore, VaultUv};
    let mut rng = Rng::derive(seed, "c05d", index);
    let content = gen_content(&mut rng);
    let rig = Rig::ok(Disc::Full);
    for p in &content.creds {
        rig.store.insert_raw(p.clone());
    }
    let locked: std::collections::HashSet<Vec<u8>> = content.creds.iter().filter(|_| rng.chance(1, 3)).map(|p| p.credential_id.to_vec()).collect();
    let store = VaultStore { inner: rig.store.clone(), locked: Arc::new(std::sync::Mutex::new(locked.clone())), rp_as_converted: None };
    let mut auth = passkey_authenticator::Authenticator::new(passkey_types::ctap2::Aaguid::new_empty(), store, VaultUv(rig.uv.clone()));
    for step in 0..rng.range(2, 6) {
        rep.eval();
        let rp = *rng.pick(&RPS[..4]);
        let snapshot = rig.store.snapshot();
        let cur = Content { creds: rig.store.passkeys() };
        let (class, ids) = gen_ids(&mut rng, &cur, rp);
        let list = descriptors(&ids, true);
        let nonempty = ids.as_ref().map_or(false, |l| !l.is_empty());
        let case = json!({"index": index, "part": "d", "step": step, "rp": rp, "list_class": class, "list": ids.as_ref().map(|l| l.iter().map(|i| hex_short(i)).collect::<Vec<_>>()),
            "store": content_json(&cur), "unconvertible": locked.iter().map(|i| hex_short(i)).collect::<Vec<_>>()});
        rig.log.clear();
        let listed: Vec<&crate::collab::CredSnap> = snapshot.iter().filter(|c| c.rp_id == rp && (!nonempty || ids.as_ref().unwrap().contains(&c.id))).collect();
        let first_locked = listed.first().map_or(false, |c| locked.contains(&c.id));
        rep.nontrivial(fnv_str(&format!("d|{class}|rp{}|n{}|l{}|f{first_locked}", RPS.iter().position(|r| *r == rp).unwrap(), listed.len().min(4), listed.iter().filter(|c| locked.contains(&c.id)).count().min(3))));
        match catch(|| block_on(auth.get_assertion(ga_request(rp, &[5u8; 32], list, None, true, false)))) {
            Err((sig, d)) => rep.violate(&format!("d: get_assertion {sig}"), d, case),
            Ok(Ok(resp)) => {
                rep.count("d_get_ok");
                let used = resp.credential.as_ref().map(|d| d.id.to_vec()).unwrap_or_default();
                let shown = rig.log.snapshot().iter().rev().find_map(|e| if let Ev::CheckUser { shown, .. } = &e.ev { Some(shown.clone()) } else { None }).flatten();
                if locked.contains(&used) {
                    rep.violate("d: assertion made with a store item that cannot be converted into a credential", hex_short(&used), case.clone());
                }
                match snapshot.iter().find(|c| c.id == used) {
                    None => rep.violate("d: assertion made with a credential that is not in the store", hex_short(&used), case.clone()),
                    Some(c) if c.rp_id != rp => rep.violate("d: assertion for one RP made with a credential bound to another RP", c.rp_id.clone(), case.clone()),
                    _ => {}
                }
                if nonempty && !ids.as_ref().unwrap().contains(&used) {
                    rep.violate("d: assertion made with a credential not named in the non-empty allow list", hex_short(&used), case.clone());
                }
                if !nonempty && listed.first().map(|c| &c.id) != Some(&used) {
                    rep.violate("d: absent/empty allow list did not select the first credential the store lists for the RP", format!("used {} first listed {:?}", hex_short(&used), listed.first().map(|c| hex_short(&c.id))), case.clone());
                }
                if shown.as_ref() != Some(&used) {
                    rep.violate("d: the credential shown to the user is not the one that signed", format!("shown {:?} used {}", shown.as_ref().map(|s| hex_short(s)), hex_short(&used)), case.clone());
                }
            }
            Ok(Err(e)) => {
                rep.count(&format!("d_get_err:{:#x}", status_byte_ref(&e)));
                if first_locked {
                    rep.count("d_first_listed_unconvertible_refused");
                }
            }
        }
    }
}

// ---------------------------------------------------------------------------------------------
// (e) the U2F entry point over the reference store: the application parameter is the relying party
// ---------------------------------------------------------------------------------------------

fn part_e(rep: &mut Report, seed: u64, index: u64) {
    use passkey_authenticator::U2fApi;
    use passkey_types::{ctap2::Flags, u2f};
    let mut rng = Rng::derive(seed, "c05u2f", index);
    let rig = Rig::ok(Disc::Full);
    let mut auth = rig.auth(AuthCfg::default());
    let app_a = rng.arr32();
    let app_b = rng.arr32();
    let handle_a = rng.bytes(rng.clone().range(1, 64));
    let case = json!({"index": index, "part": "e", "applications": [hex_short(&app_a), hex_short(&app_b)], "key_handle_len": handle_a.len()});
    rep.eval();
    rep.nontrivial(fnv_str(&format!("e|{}", handle_a.len())));
    if catch(|| block_on(auth.register(u2f::RegisterRequest { challenge: rng.arr32(), application: app_a }, &handle_a))).map_or(true, |r| r.is_err()) {
        rep.violate("e: u2f registration failed on the reference store", String::new(), case);
        return;
    }
    let mut try_auth = |application: [u8; 32], challenge: [u8; 32]| {
        let req = u2f::AuthenticationRequest { parameter: u2f::AuthenticationParameter::EnforceUserPresence, challenge, application, key_handle: handle_a.clone() };
        catch(|| block_on(auth.authenticate(req, 1, Flags::UP)).is_ok())
    };
    // the credential answers for its own application, whatever the challenge ...
    match try_auth(app_a, rng.arr32()) {
        Ok(true) => rep.count("e_own_application_ok"),
        Ok(false) => rep.violate("e: u2f authentication for the credential's own application finds no credential", String::new(), case.clone()),
        Err((sig, d)) => rep.violate(&format!("e: u2f authenticate {sig}"), d, case.clone()),
    }
    // ... and for no other application, not even when the challenge happens to be its application parameter
    for (label, challenge) in [("random challenge", rng.arr32()), ("challenge = the credential's application parameter", app_a)] {
        match try_auth(app_b, challenge) {
            Ok(false) => rep.count("e_other_application_refused"),
            Ok(true) => rep.violate("e: u2f assertion for one application made with a credential bound to another application", label.to_string(), case.clone()),
            Err((sig, d)) => rep.violate(&format!("e: u2f authenticate {sig}"), d, case.clone()),
        }
    }
}

/// end-to-end consequence over the shipped in-memory store: credential of RP A, assertion requested for RP B
// ---------------------------------------------------------------------------------------------
// (f) the exclusion rule while another ceremony holds the shared store's lock
// ---------------------------------------------------------------------------------------------

/// Two ceremonies on one store shared through a lock wrapper, the store suspending inside its calls
/// (so the wrapper's lock is held across a suspension point): a registration whose exclude list names
/// a held credential, next to another ceremony. Every poll order is run. In each of them the
/// registration is refused as excluded and creates nothing.
fn part_f(rep: &mut Report, index: u64) {
    use crate::exec::{dfs_schedules, run_schedule, BoxFut, SchedEnd};
    const RP: &str = "alpha.example";
    let k = index - 6_000_000;
    let rwlock = k & 1 == 1;
    let other_is_assertion = k & 2 != 0;
    let store_yields = 1 + ((k >> 2) & 1) as usize;
    let uv_yields = ((k >> 3) & 1) as usize;
    let cj = json!({"index": index, "part": "f", "wrapper": if rwlock {"Arc<RwLock>"} else {"Arc<Mutex>"}, "other_ceremony": if other_is_assertion {"assertion on the held credential"} else {"registration of another user"},
        "store_suspends_per_call": store_yields, "user_validation_suspends": uv_yields});
    let mut schedules = 0u64;
    let r = catch(|| {
        dfs_schedules(
            |prefix| {
                rep.eval();
                let log = crate::collab::Log::new();
                let st = RecStore::new(log.clone(), Disc::Full);
                let mut rng = Rng::derive(5, "c05f", k);
                let held = vec![0x51u8; 16];
                let (p, _, _) = seeded_passkey(&mut rng, RP, &held, Some(b"held-user"), Some(3), None);
                st.insert_raw(p);
                st.set_all_yields(store_yields);
                let handle = st.clone();
                macro_rules! go {
                    ($shared:expr) => {{
                        let shared = $shared;
                        let mut auths = Vec::new();
                        for i in 0..2 {
                            let uv = RecUv::new(log.clone(), UvOutcome::Check { presence: true, verification: true }, Some(true)).with_actor(i);
                            uv.set_yields(uv_yields);
                            auths.push(mk_auth(shared.clone(), uv, AuthCfg { counters: true, ..Default::default() }));
                        }
                        let mut it = auths.iter_mut();
                        let (a0, a1) = (it.next().unwrap(), it.next().unwrap());
                        let held = &held;
                        let tasks: Vec<BoxFut<Result<(), u8>>> = vec![
                            Box::pin(async move {
                                if other_is_assertion {
                                    a0.get_assertion(ga_request(RP, &[1u8; 32], Some(vec![descriptor(held)]), None, true, true)).await.map(|_| ()).map_err(|e| status_byte_ref(&e))
                                } else {
                                    a0.make_credential(mc_request(RP, b"other-user", &[2u8; 32], vec![pk_param(coset::iana::Algorithm::ES256)], None, None, true, true, true)).await.map(|_| ()).map_err(|e| status_byte_ref(&e))
                                }
                            }),
                            Box::pin(async move {
                                a1.make_credential(mc_request(RP, b"dup-user", &[3u8; 32], vec![pk_param(coset::iana::Algorithm::ES256)], Some(vec![descriptor(&[0xEEu8; 16]), descriptor(held)]), None, true, true, true))
                                    .await
                                    .map(|_| ())
                                    .map_err(|e| status_byte_ref(&e))
                            }),
                        ];
                        run_schedule(tasks, |s, _n| usize::from(*prefix.get(s).unwrap_or(&0)), 10_000)
                    }};
                }
                let out = if rwlock { go!(Arc::new(tokio::sync::RwLock::new(st))) } else { go!(Arc::new(tokio::sync::Mutex::new(st))) };
                schedules += 1;
                rep.nontrivial(fnv_str(&format!("f|{k}|{:?}", out.choices)));
                let case = json!({"case": cj, "schedule": out.choices});
                if out.end != SchedEnd::AllDone {
                    rep.violate("f: the two ceremonies do not both finish", format!("{:?}", out.end), case);
                    return out.branching;
                }
                match &out.outputs[1] {
                    Some(Err(0x19)) => rep.count("f_excluded"),
                    Some(Ok(())) => rep.violate("f: registration succeeded although the exclude list names a credential held for the RP (another ceremony held the store's lock)", format!("schedule {:?}", out.choices), case.clone()),
                    other => rep.violate("f: registration naming a held credential in its exclude list ended with another status than credential-excluded", format!("{other:?} in schedule {:?}", out.choices), case.clone()),
                }
                if handle.snapshot().iter().any(|c| c.user_handle.as_deref() == Some(b"dup-user".as_slice())) {
                    rep.violate("f: an excluded registration left a credential in the store", format!("schedule {:?}", out.choices), case);
                }
                out.branching
            },
            4000,
        )
    });
    match r {
        Ok((_, complete)) => {
            rep.count_n("f_schedules", schedules);
            if complete {
                rep.count("f_configurations_enumerated_completely");
            }
        }
        Err((sig, d)) => rep.violate(&format!("f: {sig}"), d, cj),
    }
}

fn part_b_e2e(rep: &mut Report, seed: u64, index: u64) {
    let mut rng = Rng::derive(seed, "c05e", index);
    rep.eval();
    let log = crate::collab::Log::new();
    let uv = RecUv::new(log.clone(), UvOutcome::Check { presence: true, verification: true }, Some(true));
    let id = rng.bytes(16);
    let (pk, _, _) = seeded_passkey(&mut rng, "alpha.example", &id, Some(b"u"), Some(1), None);
    for (base, use_option) in [("MemoryStore", false), ("Option<Passkey>", true)] {
        let case = json!({"index": index, "part": "b-e2e", "store": base, "credential_rp": "alpha.example", "requested_rp": "beta.example"});
        let res = catch(|| {
            if use_option {
                let mut a = mk_auth(Some(pk.clone()), uv.clone(), AuthCfg::default());
                block_on(a.get_assertion(ga_request("beta.example", &[1u8; 32], Some(vec![descriptor(&id)]), None, true, false))).is_ok()
            } else {
                let mut m = MemoryStore::new();
                m.insert(id.clone(), pk.clone());
                let mut a = mk_auth(m, uv.clone(), AuthCfg::default());
                block_on(a.get_assertion(ga_request("beta.example", &[1u8; 32], Some(vec![descriptor(&id)]), None, true, false))).is_ok()
            }
        });
        match res {
            Ok(true) => rep.violate(&format!("b: authenticator over shipped store {base} asserts for one RP with a credential bound to another RP"), String::new(), case),
            Ok(false) => rep.count("b_e2e_refused"),
            Err((sig, d)) => rep.violate(&format!("b: e2e {sig}"), d, case),
        }
        rep.nontrivial(fnv_str(&format!("e2e|{base}")));
    }
}

pub fn run(args: &Args) -> Report {
    let mut rep = Report::new(
        "C05",
        &args.tier,
        args.seed,
        "(a) get_assertion / make_credential over a reference store holding 0-4 credentials for each of 3 RPs (identical user handles) with allow/exclude lists absent, empty, hit, hit+miss, miss, ids of another RP, all reversed, proper prefix / extension of a held id, the empty id, under every store capability; (b) the same contents in MemoryStore, Option<Passkey> and their lock wrappers queried with generated (id list, RP) pairs and compared with the contract; (c) the same rule through Client::register / authenticate with descriptors carrying transport hints (absent, empty, usb+nfc, internal+hybrid, random); (d) get_assertion over a conforming store whose items are vault entries, a third of which cannot be converted into a credential; (e) U2F registration and authentication over the reference store with another application parameter and a challenge equal to the credential's application; (f) all poll orders of a registration whose exclude list names a held credential next to another ceremony on a suspending store shared through Arc<Mutex> / Arc<RwLock>; held ids of 2-255 bytes; distinct by (part, store type, list class, RP, content size); non-trivial when the id list or RP id discriminates (>= 2 RPs or >= 2 credentials involved)",
    );
    rep.assumptions.push("the documented contract: find_credentials returns all credentials matching the ids (when given) and the rp_id; Err(NoCredentials) is equivalent to an empty result".into());
    let only = replay_index(args);
    let n = args.size(400, 8000) as u64;
    for i in 0..n {
        if only.map_or(true, |o| o == i) {
            let r = catch(|| part_a(&mut rep, args.seed, i));
            if let Err((sig, d)) = r {
                rep.violate(&format!("a: {sig}"), d, json!({"index": i}));
            }
        }
    }
    for i in 0..n / 2 {
        let idx = 1_000_000 + i;
        if only.map_or(true, |o| o == idx) {
            part_b(&mut rep, args.seed, idx);
        }
    }
    for i in 0..n / 2 {
        let idx = 3_000_000 + i;
        if only.map_or(true, |o| o == idx) {
            if let Err((sig, d)) = catch(|| part_c(&mut rep, args.seed, idx)) {
                rep.violate(&format!("c: {sig}"), d, json!({"index": idx}));
            }
        }
        let idx = 4_000_000 + i;
        if only.map_or(true, |o| o == idx) {
            if let Err((sig, d)) = catch(|| part_d(&mut rep, args.seed, idx)) {
                rep.violate(&format!("d: {sig}"), d, json!({"index": idx}));
            }
        }
        let idx = 5_000_000 + i;
        if i % 4 == 0 && only.map_or(true, |o| o == idx) {
            if let Err((sig, d)) = catch(|| part_e(&mut rep, args.seed, idx)) {
                rep.violate(&format!("e: {sig}"), d, json!({"index": idx}));
            }
        }
    }
    for i in 0..16 {
        let idx = 6_000_000 + i;
        if only.map_or(true, |o| o == idx) {
            part_f(&mut rep, idx);
        }
    }
    for i in 0..4 {
        let idx = 2_000_000 + i;
        if only.map_or(true, |o| o == idx) {
            part_b_e2e(&mut rep, args.seed, idx);
        }
    }
    if only.is_none() && (rep.get("a_get_ok") == 0 || rep.get("a_excluded") == 0 || rep.get("b_wrapper_lookups") == 0 || rep.get("c_excluded") == 0 || rep.get("c_get_ok") == 0 || rep.get("d_get_ok") == 0 || rep.get("d_first_listed_unconvertible_refused") == 0) {
        rep.inconclusive("no successful assertion / no exclusion / no wrapper lookup observed".into());
    }
    rep
}
