//! C12 — authenticator data binary encoding follows the WebAuthn layout and round-trips.

use ciborium::value::Value as Cbor;
use coset::{iana, CborSerializable, CoseKeyBuilder};
use passkey_types::{
    ctap2::{get_assertion, make_credential, Aaguid, AttestedCredentialData, AuthenticatorData, Flags},
    Bytes,
};
use serde_json::{json, Value};

use crate::{
    oracle::{self, authdata},
    props::c02::replay_index,
    report::{hex_short, Report},
    rng::{fnv, Rng},
    worker::catch,
    Args,
};

#[derive(Clone, Debug)]
enum Ext {
    None,
    MakeBool(bool),
    MakeMc(Vec<u8>),
    MakeBoth(bool, Vec<u8>),
    Get(Vec<u8>),
}

#[derive(Clone, Debug)]
struct Spec {
    rp: String,
    counter: Option<u32>,
    up: bool,
    uv: bool,
    be_bs: bool,
    attested: Option<([u8; 16], usize)>,
    ext: Ext,
    /// after the extension setter: 0 nothing, 1 the make setter with None, 2 the assertion setter with
    /// None, 3 the make setter with empty outputs (setter calls that have nothing to add), 4 the same
    /// setter once more with the same content
    followup: u8,
    /// order of the attested key's parameters: 0 as the builder emits them (crv, x, y), 1 reversed,
    /// 2 rotated - a COSE key is a map, an imported key may list its members in any order; 3 with a kid, 4 with key_ops, 5 with a base IV, 6 without the algorithm member, 7 a compressed point, 8 an Ed25519 key
    key_order: u8,
    /// the attested section is set on a value that already has one: 0 no, 1 the setter is called twice
    /// (another section first), 2 a value carrying another section is encoded, decoded, and the setter
    /// is called on the decoded value (as when an attestation is rewritten before it is passed on)
    replaced: u8,
}

impl Spec {
    fn json(&self, index: u64) -> Value {
        json!({"index": index, "rp": self.rp, "counter": self.counter, "up": self.up, "uv": self.uv, "set_be_bs": self.be_bs,
            "attested": self.attested.map(|(a, l)| json!({"aaguid": hex_short(&a), "credential_id_len": l})), "extensions": format!("{:?}", self.ext).chars().take(60).collect::<String>(), "second_setter_call_with_nothing_to_add": self.followup, "attested_key_parameter_order": self.key_order, "attested_section_replaces_an_earlier_one": self.replaced})
    }
}

fn gen(seed: u64, idx: u64) -> Spec {
    let mut rng = Rng::derive(seed, "c12", idx);
    let rps = ["example.com", "", "a", "xn--bcher-kva.de", "login.example.co.uk", "\u{1F600}.example", "future.1password.com", "example.com.", ".", "EXAMPLE.com", " example.com", "example.com/"];
    let id_lens = [0usize, 1, 16, 32, 64, 255, 256, 1023, 4096, 65_535];
    let mut aag = [0u8; 16];
    aag.copy_from_slice(&rng.bytes(16));
    Spec {
        rp: if rng.chance(1, 5) { rng.ascii_label(0, 40) } else { rps[rng.below(rps.len())].to_string() },
        counter: match rng.below(6) {
            0 => None,
            1 => Some(0),
            2 => Some(1),
            3 => Some(u32::MAX),
            4 => Some(0x0102_0304),
            _ => Some(rng.next_u64() as u32),
        },
        up: rng.bool(),
        uv: rng.bool(),
        be_bs: rng.bool(),
        attested: if rng.chance(2, 3) {
            let l = if idx % 97 == 0 { 65_535 } else { id_lens[rng.below(id_lens.len() - 1)] };
            Some((if rng.chance(1, 4) { [0; 16] } else { aag }, l))
        } else {
            None
        },
        ext: match rng.below(7) {
            0 => Ext::MakeBool(rng.bool()),
            1 => {
                let l = if rng.chance(1, 6) { *rng.pick(&[990usize, 1008, 1009, 1024, 2000, 5000]) } else { rng.range(0, 80) };
                Ext::MakeMc(rng.bytes(l))
            }
            2 => Ext::MakeBoth(rng.bool(), rng.bytes(48)),
            3 => {
                let l = if rng.chance(1, 6) { *rng.pick(&[1000usize, 1008, 1009, 1024, 2000, 5000]) } else { rng.range(0, 80) };
                Ext::Get(rng.bytes(l))
            }
            _ => Ext::None,
        },
        followup: if rng.chance(1, 3) { rng.range(1, 4) as u8 } else { 0 },
        key_order: if rng.chance(1, 3) { rng.range(1, 8) as u8 } else { 0 },
        replaced: { let mut r = Rng::derive(seed, "c12repl", idx); if r.chance(1, 4) { r.range(1, 2) as u8 } else { 0 } },
    }
}

struct Built {
    value: AuthenticatorData,
    cred_id: Vec<u8>,
    key_bytes: Vec<u8>,
    ext_bytes: Option<Vec<u8>>,
}

fn build(s: &Spec, idx: u64) -> Result<Built, String> {
    let mut rng = Rng::derive(99, "c12key", idx);
    let mut ad = AuthenticatorData::new(&s.rp, s.counter);
    let mut f = Flags::empty();
    if s.up {
        f |= Flags::UP;
    }
    if s.uv {
        f |= Flags::UV;
    }
    if s.be_bs {
        f |= Flags::BE | Flags::BS;
    }
    ad = ad.set_flags(f);
    let mut cred_id = Vec::new();
    let mut key_bytes = Vec::new();
    if let Some((aaguid, len)) = s.attested {
        // a real EC2 key
        let (pk, x, y) = crate::util::seeded_passkey(&mut rng, "k", &[1], None, None, None);
        let _ = pk;
        let mut key = CoseKeyBuilder::new_ec2_pub_key(iana::EllipticCurve::P_256, x, y).algorithm(iana::Algorithm::ES256).build();
        match s.key_order {
            1 => key.params.reverse(),
            2 => key.params.rotate_left(1),
            // optional COSE_Key members a hand-built or imported key may carry
            3 => key.key_id = vec![0x6b, 0x69, 0x64],
            4 => {
                key.key_ops.insert(coset::KeyOperation::Assigned(iana::KeyOperation::Verify));
            }
            5 => key.base_iv = vec![7; 8],
            // shorter encodings than the usual 77 bytes: no algorithm member, a compressed point
            // (y given by its sign), an Ed25519 key
            6 => key.alg = None,
            7 => {
                let x = key.params.iter().find(|(l, _)| *l == coset::Label::Int(iana::Ec2KeyParameter::X as i64)).and_then(|(_, v)| v.as_bytes().cloned()).unwrap_or_default();
                key = CoseKeyBuilder::new_ec2_pub_key_y_sign(iana::EllipticCurve::P_256, x, true).build();
            }
            8 => key = CoseKeyBuilder::new_okp_key().algorithm(iana::Algorithm::EdDSA).param(iana::OkpKeyParameter::Crv as i64, ciborium::Value::from(iana::EllipticCurve::Ed25519 as i64)).param(iana::OkpKeyParameter::X as i64, ciborium::Value::Bytes(vec![0x42; 32])).build(),
            _ => {}
        }
        key_bytes = key.clone().to_vec().map_err(|e| format!("{e:?}"))?;
        cred_id = rng.bytes(len);
        let acd = AttestedCredentialData::new(Aaguid::from(aaguid), cred_id.clone(), key).map_err(|e| format!("constructor refused a {len}-byte id: {e:?}"))?;
        if s.replaced > 0 {
            let other_key = CoseKeyBuilder::new_ec2_pub_key(iana::EllipticCurve::P_256, vec![0x11; 32], vec![0x22; 32]).algorithm(iana::Algorithm::ES256).build();
            let other = AttestedCredentialData::new(Aaguid::from([0x5A; 16]), b"an-earlier-credential".to_vec(), other_key).map_err(|e| format!("{e:?}"))?;
            ad = ad.set_attested_credential_data(other);
            if s.replaced == 2 {
                ad = AuthenticatorData::from_slice(&ad.to_vec()).map_err(|e| format!("authenticator data with an attested section does not decode: {e:?}"))?;
            }
        }
        ad = ad.set_attested_credential_data(acd);
    }
    let mut ext_bytes = None;
    let text = |s: &str| Cbor::Text(s.to_string());
    // byte-string members of the extension outputs: CBOR byte strings, or - in the build with the library's
    // feature serialize_bytes_as_base64_string, whose documented meaning is exactly that - base64url text
    let bytes_member = |v: &Vec<u8>| if B64_BUILD.load(std::sync::atomic::Ordering::Relaxed) { Cbor::Text(oracle::b64url(v)) } else { Cbor::Bytes(v.clone()) };
    match &s.ext {
        Ext::None => {}
        Ext::MakeBool(b) => {
            ad = ad.set_make_credential_extensions(Some(make_credential::SignedExtensionOutputs { hmac_secret: Some(*b), hmac_secret_mc: None })).map_err(|e| format!("{e:?}"))?;
            ext_bytes = Some(oracle::cbor_ser(&Cbor::Map(vec![(text("hmac-secret"), Cbor::Bool(*b))])));
        }
        Ext::MakeMc(v) => {
            ad = ad.set_make_credential_extensions(Some(make_credential::SignedExtensionOutputs { hmac_secret: None, hmac_secret_mc: Some(Bytes::from(v.clone())) })).map_err(|e| format!("{e:?}"))?;
            ext_bytes = Some(oracle::cbor_ser(&Cbor::Map(vec![(text("hmac-secret-mc"), bytes_member(v))])));
        }
        Ext::MakeBoth(b, v) => {
            ad = ad.set_make_credential_extensions(Some(make_credential::SignedExtensionOutputs { hmac_secret: Some(*b), hmac_secret_mc: Some(Bytes::from(v.clone())) })).map_err(|e| format!("{e:?}"))?;
            ext_bytes = Some(oracle::cbor_ser(&Cbor::Map(vec![(text("hmac-secret"), Cbor::Bool(*b)), (text("hmac-secret-mc"), bytes_member(v))])));
        }
        Ext::Get(v) => {
            ad = ad.set_assertion_extensions(Some(get_assertion::SignedExtensionOutputs { hmac_secret: Some(Bytes::from(v.clone())) })).map_err(|e| format!("{e:?}"))?;
            ext_bytes = Some(oracle::cbor_ser(&Cbor::Map(vec![(text("hmac-secret"), bytes_member(v))])));
        }
    }
    if s.followup == 4 {
        ad = match &s.ext {
            Ext::None => ad,
            Ext::MakeBool(b) => ad.set_make_credential_extensions(Some(make_credential::SignedExtensionOutputs { hmac_secret: Some(*b), hmac_secret_mc: None })).map_err(|e| format!("{e:?}"))?,
            Ext::MakeMc(v) => ad.set_make_credential_extensions(Some(make_credential::SignedExtensionOutputs { hmac_secret: None, hmac_secret_mc: Some(Bytes::from(v.clone())) })).map_err(|e| format!("{e:?}"))?,
            Ext::MakeBoth(b, v) => ad.set_make_credential_extensions(Some(make_credential::SignedExtensionOutputs { hmac_secret: Some(*b), hmac_secret_mc: Some(Bytes::from(v.clone())) })).map_err(|e| format!("{e:?}"))?,
            Ext::Get(v) => ad.set_assertion_extensions(Some(get_assertion::SignedExtensionOutputs { hmac_secret: Some(Bytes::from(v.clone())) })).map_err(|e| format!("{e:?}"))?,
        };
    }
    ad = match s.followup {
        1 => ad.set_make_credential_extensions(None).map_err(|e| format!("{e:?}"))?,
        2 => ad.set_assertion_extensions(None).map_err(|e| format!("{e:?}"))?,
        3 => ad.set_make_credential_extensions(Some(make_credential::SignedExtensionOutputs { hmac_secret: None, hmac_secret_mc: None })).map_err(|e| format!("{e:?}"))?,
        _ => ad,
    };
    Ok(Built { value: ad, cred_id, key_bytes, ext_bytes })
}

fn check_value(rep: &mut Report, s: &Spec, idx: u64, sweeps: bool, corrupt_all: bool) {
    rep.eval();
    let case = s.json(idx);
    let built = match catch(|| build(s, idx)) {
        Ok(Ok(b)) => b,
        Ok(Err(e)) => {
            rep.violate("constructor or setter refused a valid value", e, case);
            return;
        }
        Err((sig, d)) => {
            rep.violate(&format!("construction {sig}"), d, case);
            return;
        }
    };
    let bytes = match catch(|| built.value.to_vec()) {
        Ok(b) => b,
        Err((sig, d)) => {
            rep.violate(&format!("to_vec {sig}"), d, case);
            return;
        }
    };
    // a second setter call that has nothing to add may keep or drop the section - the statement fixes
    // neither - but the ED bit must follow whichever it did
    let mut built = built;
    if s.followup != 0 && bytes.len() >= 37 && bytes[32] & authdata::ED == 0 {
        built.ext_bytes = None;
    }
    // ---- layout against the own encoder
    let want_flags_core = (if s.up { authdata::UP } else { 0 }) | (if s.uv { authdata::UV } else { 0 }) | (if s.attested.is_some() { authdata::AT } else { 0 }) | (if built.ext_bytes.is_some() { authdata::ED } else { 0 });
    if bytes.len() >= 37 {
        let got_flags = bytes[32];
        let mask = authdata::UP | authdata::UV | authdata::AT | authdata::ED;
        if got_flags & mask != want_flags_core {
            rep.violate("encoded flags: UP/UV/AT/ED bits do not match what was set / which sections are present", format!("got {got_flags:#04x}, expected core bits {want_flags_core:#04x}"), case.clone());
        }
        if got_flags & authdata::RESERVED != 0 {
            rep.violate("encoded flags contain reserved bits", format!("{got_flags:#04x}"), case.clone());
        }
        let att = s.attested.as_ref().map(|(a, _)| (a, built.cred_id.as_slice(), built.key_bytes.as_slice()));
        let want = authdata::encode(&oracle::sha256(s.rp.as_bytes()), got_flags, s.counter.unwrap_or(0), att, built.ext_bytes.as_deref());
        if want != bytes {
            let first = want.iter().zip(bytes.iter()).position(|(a, b)| a != b).unwrap_or(want.len().min(bytes.len()));
            rep.violate(
                "encoding differs from rpIdHash || flags || counter_be || [aaguid || len_be || id || key] || [ext]",
                format!("first difference at offset {first} (section: {}); lengths {} vs {}", section_of(first, s, &built), bytes.len(), want.len()),
                case.clone(),
            );
        }
    } else {
        rep.violate("encoding shorter than 37 bytes", format!("{}", bytes.len()), case.clone());
        return;
    }
    // ---- round trip
    match catch(|| AuthenticatorData::from_slice(&bytes)) {
        Err((sig, d)) => rep.violate(&format!("from_slice {sig}"), d, case.clone()),
        Ok(Err(e)) => rep.violate("decoding the encoder's own output fails", format!("{e:?}"), case.clone()),
        Ok(Ok(back)) => {
            let same = back.rp_id_hash() == built.value.rp_id_hash()
                && back.counter == Some(s.counter.unwrap_or(0))
                && back.attested_credential_data == built.value.attested_credential_data
                && back.extensions == built.value.extensions
                && u8::from(back.flags) == bytes[32];
            if !same {
                rep.violate("decoding the encoding does not return an equal value", format!("decoded counter {:?}, flags {:#04x}", back.counter, u8::from(back.flags)), case.clone());
            }
            if back.to_vec() != bytes {
                rep.violate("re-encoding the decoded value gives different bytes", String::new(), case.clone());
            }
        }
    }
    // ---- the serde route (what a CTAP2 response carries as authData): a CBOR byte string holding exactly those
    // bytes, in every build configuration, and reading it back gives the value again
    match catch(|| {
        let mut w = Vec::new();
        ciborium::ser::into_writer(&built.value, &mut w).map_err(|e| format!("{e:?}"))?;
        let v: Cbor = ciborium::de::from_reader(w.as_slice()).map_err(|e| format!("{e:?}"))?;
        let back = if bytes.len() <= 4000 { Some(ciborium::de::from_reader::<AuthenticatorData, _>(w.as_slice()).map(|b| b.to_vec()).map_err(|e| format!("{e:?}"))) } else { None };
        Ok::<_, String>((v, back))
    }) {
        Err((sig, d)) => rep.violate(&format!("serde encoding of authenticator data {sig}"), d, case.clone()),
        Ok(Err(e)) => rep.violate("authenticator data does not serialise through serde", e, case.clone()),
        Ok(Ok((v, back))) => {
            rep.count("serde_encodings_checked");
            match &v {
                Cbor::Bytes(b) if *b == bytes => {}
                Cbor::Bytes(b) => rep.violate("serde encoding of authenticator data holds other bytes than to_vec()", format!("{} bytes against {}", b.len(), bytes.len()), case.clone()),
                other => rep.violate("serde encoding of authenticator data is not a CBOR byte string of the specified layout", format!("major type of {}", match other { Cbor::Text(_) => "text", Cbor::Array(_) => "array", Cbor::Map(_) => "map", _ => "other" }), case.clone()),
            }
            match back {
                Some(Ok(b)) if b == bytes => rep.count("serde_round_trips_checked"),
                Some(Ok(_)) => rep.violate("decoding the serde encoding does not return an equal value", String::new(), case.clone()),
                Some(Err(e)) => rep.violate("decoding the serde encoding of the encoder's own output fails", e, case.clone()),
                None => rep.count("serde_round_trip_skipped_above_4000_bytes"),
            }
        }
    }
    let nontrivial = s.attested.is_some() || built.ext_bytes.is_some();
    let shape = format!("{}|{:?}|{}{}{}|{:?}|{}", s.rp.len().min(8), s.counter.map(|c| c.leading_zeros() / 8), s.up, s.uv, s.be_bs, s.attested.map(|a| a.1), std::mem::discriminant(&s.ext) == std::mem::discriminant(&Ext::None));
    if nontrivial {
        rep.nontrivial(fnv(shape.as_bytes()));
    }
    rep.sample_class(&format!("value/at{}/ed{}", s.attested.is_some(), built.ext_bytes.is_some()), json!({"spec": case, "encoded_len": bytes.len(), "encoded_head": hex_short(&bytes)}));
    if !sweeps || bytes.len() > 600 {
        return;
    }
    // ---- every truncation
    for cut in 0..bytes.len() {
        rep.eval();
        let t = &bytes[..cut];
        judge_decode(rep, t, &case, &format!("truncate@{cut}"), idx);
    }
    rep.count_n("truncations", bytes.len() as u64);
    // ---- single-byte corruptions
    let mut rng = Rng::derive(5, "c12c", idx);
    let positions: Vec<usize> = if corrupt_all { (0..bytes.len()).collect() } else { (0..40).map(|_| rng.below(bytes.len())).chain(32..37.min(bytes.len())).collect() };
    for p in positions {
        let vals: Vec<u8> = if corrupt_all { vec![bytes[p] ^ 0x01, bytes[p] ^ 0x80, bytes[p].wrapping_add(1), 0xff, 0x00, rng.byte()] } else { vec![bytes[p] ^ (1 << rng.below(8)), rng.byte()] };
        for v in vals {
            if v == bytes[p] {
                continue;
            }
            rep.eval();
            let mut m = bytes.clone();
            m[p] = v;
            judge_decode(rep, &m, &case, &format!("corrupt@{p}={v:#04x}"), idx);
            rep.count("corruptions");
        }
    }
}

fn section_of(off: usize, s: &Spec, b: &Built) -> &'static str {
    if off < 32 {
        "rpIdHash"
    } else if off == 32 {
        "flags"
    } else if off < 37 {
        "counter"
    } else if s.attested.is_some() {
        let a = off - 37;
        if a < 16 {
            "aaguid"
        } else if a < 18 {
            "credential id length"
        } else if a < 18 + b.cred_id.len() {
            "credential id"
        } else if a < 18 + b.cred_id.len() + b.key_bytes.len() {
            "COSE key"
        } else {
            "extensions"
        }
    } else {
        "extensions"
    }
}

/// own decoder rejects for one of the stated reasons  ==>  from_slice must reject
fn judge_decode(rep: &mut Report, input: &[u8], case: &Value, mutation: &str, idx: u64) {
    let own = authdata::decode(input);
    let lib = catch(|| AuthenticatorData::from_slice(input).map(|_| ()));
    let mut c = case.clone();
    c["mutation"] = json!(mutation);
    c["input"] = json!(hex_short(input));
    match lib {
        Err((sig, d)) => rep.violate(&format!("from_slice {sig}"), d, c),
        Ok(res) => {
            let class = match &own {
                Err(authdata::Reject::TooShort) => Some("shorter than 37 bytes"),
                Err(authdata::Reject::ReservedBits) => Some("reserved flag bits set"),
                Err(authdata::Reject::AttestedTruncated) => Some("flagged attested-credential section missing or truncated"),
                Err(authdata::Reject::ExtensionsMissingOrTruncated) => Some("flagged extension section missing or truncated"),
                _ => None,
            };
            if let Some(why) = class {
                rep.count(&format!("must_reject:{why}"));
                rep.nontrivial(fnv(format!("{idx}|{mutation}").as_bytes()));
                if res.is_ok() {
                    rep.violate(&format!("from_slice accepts an input that is {why}"), String::new(), c);
                }
            } else {
                rep.count(if res.is_ok() { "structurally_valid_accepted" } else { "structurally_valid_rejected (not judged)" });
            }
        }
    }
}

static B64_BUILD: std::sync::atomic::AtomicBool = std::sync::atomic::AtomicBool::new(false);

pub fn run(args: &Args) -> Report {
    B64_BUILD.store(args.engine.as_deref() == Some("b64feat"), std::sync::atomic::Ordering::Relaxed);
    let mut rep = Report::new(
        "C12",
        &args.tier,
        args.seed,
        "generated authenticator data (RP ids, counters None/0/1/2^32-1/random, UP/UV/BE/BS through set_flags, AAGUIDs, credential ids of 0..65535 bytes, real EC2 keys, make/get extension outputs) checked against an own encoder and decoder, the serde (CBOR) encoding of every value being a byte string of exactly those bytes that reads back equal; every truncation and seeded (thorough: every) single-byte corruption of encodings up to 600 bytes; distinct by value shape resp. (value, mutation); non-trivial when an optional section is present or the own decoder classifies the mutated input as one the statement says must be rejected",
    );
    rep.assumptions.push("coset serialises the COSE key (trusted base); a corruption that yields another structurally valid encoding may be accepted or rejected; trailing bytes are not judged".into());
    let miri = args.engine.as_deref() == Some("miri");
    let n = if miri { 6 } else { args.size(1500, 20_000) } as u64;
    let sweep_every = if miri { 3 } else if args.thorough() { 10 } else { 8 };
    let only = replay_index(args);
    let shard: u64 = args.get("shard").and_then(|s| s.parse().ok()).unwrap_or(0);
    let shards: u64 = args.get("shards").and_then(|s| s.parse().ok()).unwrap_or(1);
    for i in 0..n {
        let i = i * shards + shard;
        if only.map_or(false, |o| o != i) {
            continue;
        }
        let s = gen(args.seed, i);
        check_value(&mut rep, &s, i, i % sweep_every == 0 || only.is_some(), args.thorough() && !miri);
    }
    // ---- constructor guard: ids longer than 65535 bytes are refused
    if only.is_none() && shard == 0 {
        // lengths beyond 32 bits too (the vector is zero pages the constructor never touches); not under the
        // interpreter or the address sanitizer, where a 4 GiB request is refused or slow
        let engine = args.engine.as_deref().unwrap_or("native");
        let huge: &[usize] = if miri || engine == "asan" || engine == "memcheck" || usize::BITS < 64 { &[] } else { &[(1usize << 32) + 5] };
        for len in [65_535usize, 65_536, 65_537, 100_000, 16_777_216].iter().chain(huge.iter()).copied() {
            rep.eval();
            let key = CoseKeyBuilder::new_ec2_pub_key(iana::EllipticCurve::P_256, vec![1; 32], vec![2; 32]).algorithm(iana::Algorithm::ES256).build();
            let r = catch(|| AttestedCredentialData::new(Aaguid::new_empty(), vec![0u8; len], key).is_ok());
            let case = json!({"index": 9_000_000 + len as u64, "constructor": "AttestedCredentialData::new", "credential_id_len": len});
            rep.nontrivial(fnv(format!("ctor{len}").as_bytes()));
            match r {
                Ok(ok) => {
                    if ok != (len <= 65_535) {
                        rep.violate("AttestedCredentialData::new does not refuse exactly the ids longer than 65535 bytes", format!("len {len} accepted={ok}"), case);
                    }
                    rep.count("constructor_guard_checked");
                }
                Err((sig, d)) => rep.violate(&format!("AttestedCredentialData::new {sig}"), d, case),
            }
        }
    }
    if only.is_none() && !miri && (rep.get("truncations") == 0 || rep.get("corruptions") == 0 || rep.get("must_reject:reserved flag bits set") == 0) {
        rep.inconclusive("sweeps did not run or never produced a must-reject input".into());
    }
    rep
}
