//! C13 — CTAP2 messages use the specified integer keys and round-trip through CBOR;
//! status bytes convert both ways; client maps "no credentials" only.

use std::collections::HashMap;

use ciborium::value::Value as Cbor;
use coset::{iana, CoseKeyBuilder};
use passkey_client::{DefaultClientData, WebauthnError};
use passkey_types::{
    ctap2::{
        self,
        extensions::{AuthenticatorPrfGetOutputs, AuthenticatorPrfInputs, AuthenticatorPrfMakeOutputs, AuthenticatorPrfValues, HmacGetSecretInput},
        get_assertion, get_info, make_credential, Aaguid, AttestedCredentialData, AuthenticatorData, Flags, StatusCode,
    },
    webauthn::{self, AuthenticatorTransport, PublicKeyCredentialDescriptor, PublicKeyCredentialParameters, PublicKeyCredentialType, UserVerificationRequirement},
    Bytes,
};
use serde::{de::DeserializeOwned, Serialize};
use serde_json::{json, Value};

use crate::{
    collab::{Disc, Kind},
    exec::block_on,
    oracle,
    props::c02::replay_index,
    report::{hex_short, Report},
    rng::{fnv, Rng},
    util::{creation_options, pk_param, request_options, seeded_passkey, url, AuthCfg, Rig},
    worker::catch,
    Args,
};

/// member tables written from the CTAP specification: (key, name, required)
type Table = &'static [(u8, &'static str, bool)];
const MC_REQ: Table = &[(1, "clientDataHash", true), (2, "rp", true), (3, "user", true), (4, "pubKeyCredParams", true), (5, "excludeList", false), (6, "extensions", false), (7, "options", false), (8, "pinUvAuthParam", false), (9, "pinUvAuthProtocol", false)];
const MC_RESP: Table = &[(1, "fmt", true), (2, "authData", true), (3, "attStmt", true), (4, "epAtt", false), (5, "largeBlobKey", false), (6, "unsignedExtensionOutputs", false)];
const GA_REQ: Table = &[(1, "rpId", true), (2, "clientDataHash", true), (3, "allowList", false), (4, "extensions", false), (5, "options", false), (6, "pinUvAuthParam", false), (7, "pinUvAuthProtocol", false)];
const GA_RESP: Table = &[(1, "credential", false), (2, "authData", true), (3, "signature", true), (4, "user", false), (5, "numberOfCredentials", false), (6, "userSelected", false), (7, "largeBlobKey", false), (8, "unsignedExtensionOutputs", false)];
const GI_RESP: Table = &[(1, "versions", true), (2, "extensions", false), (3, "aaguid", true), (4, "options", false), (5, "maxMsgSize", false), (6, "pinUvAuthProtocols", false), (9, "transports", false)];
const HMAC_IN: Table = &[(1, "keyAgreement", true), (2, "saltEnc", true), (3, "saltAuth", true), (4, "pinUvAuthProtocol", false)];

pub(crate) fn ser<T: Serialize>(v: &T) -> Result<Vec<u8>, String> {
    let mut out = Vec::new();
    ciborium::ser::into_writer(v, &mut out).map_err(|e| format!("{e:?}"))?;
    Ok(out)
}
fn de<T: DeserializeOwned>(b: &[u8]) -> Result<T, String> {
    ciborium::de::from_reader::<T, _>(b).map_err(|e| format!("{e:?}"))
}

/// order-insensitive canonical form for nested maps (HashMap members serialise in random order)
fn canon(v: &Cbor) -> Cbor {
    match v {
        Cbor::Map(m) => {
            let mut e: Vec<(Cbor, Cbor)> = m.iter().map(|(k, v)| (canon(k), canon(v))).collect();
            e.sort_by_key(|(k, _)| oracle::cbor_ser(k));
            Cbor::Map(e)
        }
        Cbor::Array(a) => Cbor::Array(a.iter().map(canon).collect()),
        Cbor::Tag(t, b) => Cbor::Tag(*t, Box::new(canon(b))),
        other => other.clone(),
    }
}

fn gen_bytes(rng: &mut Rng, max: usize) -> Bytes {
    // now and then a byte string longer than a CBOR reader's scratch buffer (4 KiB in ciborium)
    if rng.chance(1, 40) {
        let l = *rng.pick(&[4096usize, 4097, 5000, 70_000]);
        return rng.bytes(l).into();
    }
    let l = *rng.pick(&[0usize, 1, 16, 32, 64, 100]);
    rng.bytes(l.min(max)).into()
}

fn gen_descriptor(rng: &mut Rng) -> PublicKeyCredentialDescriptor {
    PublicKeyCredentialDescriptor {
        ty: if rng.chance(1, 8) { PublicKeyCredentialType::Unknown } else { PublicKeyCredentialType::PublicKey },
        id: rng.bytes(*rng.clone().pick(&[0usize, 16, 64, 255, 1023])).into(),
        transports: match rng.below(3) {
            0 => None,
            1 => Some(vec![]),
            _ => Some(vec![AuthenticatorTransport::Usb, AuthenticatorTransport::Internal, AuthenticatorTransport::Hybrid][..rng.range(1, 3)].to_vec()),
        },
    }
}

fn gen_prf_values(rng: &mut Rng) -> AuthenticatorPrfValues {
    AuthenticatorPrfValues { first: rng.arr32(), second: if rng.bool() { Some(rng.arr32()) } else { None } }
}

pub(crate) fn gen_prf_inputs(rng: &mut Rng) -> AuthenticatorPrfInputs {
    let by = if rng.bool() {
        let mut m = HashMap::new();
        for _ in 0..rng.range(1, 3) {
            m.insert(Bytes::from(rng.bytes(16)), gen_prf_values(rng));
        }
        Some(m)
    } else {
        None
    };
    let eval = if by.is_none() || rng.bool() { Some(gen_prf_values(rng)) } else { None };
    AuthenticatorPrfInputs { eval, eval_by_credential: by }
}

fn gen_cose_value(rng: &mut Rng) -> Cbor {
    Cbor::Map(vec![
        (Cbor::Integer(1.into()), Cbor::Integer(2.into())),
        (Cbor::Integer(3.into()), Cbor::Integer((-25).into())),
        (Cbor::Integer((-1).into()), Cbor::Integer(1.into())),
        (Cbor::Integer((-2).into()), Cbor::Bytes(rng.bytes(32))),
        (Cbor::Integer((-3).into()), Cbor::Bytes(rng.bytes(32))),
    ])
}

pub(crate) fn gen_hmac_input(rng: &mut Rng) -> (HmacGetSecretInput, Vec<u8>) {
    let p = if rng.bool() { Some(*rng.pick(&[1u8, 2])) } else { None };
    let mut keys = vec![1, 2, 3];
    if p.is_some() {
        keys.push(4);
    }
    (
        HmacGetSecretInput {
            key_agreement: if rng.chance(1, 8) { Cbor::Null } else { gen_cose_value(rng) },
            salt_enc: rng.bytes(*rng.clone().pick(&[32usize, 64, 48, 80])).into(),
            salt_auth: rng.bytes(*rng.clone().pick(&[16usize, 32])).into(),
            pin_uv_auth_protocol: p,
        },
        keys,
    )
}

pub(crate) fn gen_authdata(rng: &mut Rng, attested: bool) -> AuthenticatorData {
    let mut ad = AuthenticatorData::new(*rng.pick(&["example.com", "a.b.example.org", ""]), *rng.pick(&[None, Some(0), Some(77), Some(u32::MAX)]));
    if rng.bool() {
        ad = ad.set_flags(Flags::UP);
    }
    if rng.bool() {
        ad = ad.set_flags(Flags::UV);
    }
    if attested {
        let key = CoseKeyBuilder::new_ec2_pub_key(iana::EllipticCurve::P_256, rng.bytes(32), rng.bytes(32)).algorithm(iana::Algorithm::ES256).build();
        let idl = *rng.pick(&[0usize, 16, 64, 255, 1023]);
        ad = ad.set_attested_credential_data(AttestedCredentialData::new(Aaguid::from([7; 16]), rng.bytes(idl), key).unwrap());
    }
    if rng.chance(1, 3) {
        ad = ad.set_make_credential_extensions(Some(make_credential::SignedExtensionOutputs { hmac_secret: Some(true), hmac_secret_mc: None })).unwrap();
    }
    ad
}

pub(crate) fn gen_mc_req(rng: &mut Rng) -> (make_credential::Request, Vec<u8>) {
    let mut keys = vec![1, 2, 3, 4, 7];
    let exclude = if rng.bool() {
        keys.push(5);
        Some((0..rng.range(0, 3)).map(|_| gen_descriptor(rng)).collect())
    } else {
        None
    };
    let ext = if rng.bool() {
        keys.push(6);
        let (h, _) = gen_hmac_input(rng);
        Some(make_credential::ExtensionInputs {
            hmac_secret: if rng.bool() { Some(rng.bool()) } else { None },
            hmac_secret_mc: if rng.chance(1, 3) { Some(h) } else { None },
            prf: if rng.bool() { Some(AuthenticatorPrfInputs { eval: Some(gen_prf_values(rng)), eval_by_credential: None }) } else { Some(gen_prf_inputs(rng)) },
        })
    } else {
        None
    };
    let pin = if rng.chance(1, 3) {
        keys.push(8);
        Some(gen_bytes(rng, 32))
    } else {
        None
    };
    let proto = if rng.chance(1, 3) {
        keys.push(9);
        Some(rng.byte())
    } else {
        None
    };
    keys.sort();
    let algs = [iana::Algorithm::ES256, iana::Algorithm::RS256, iana::Algorithm::EdDSA, iana::Algorithm::ES384];
    (
        make_credential::Request {
            client_data_hash: gen_bytes(rng, 64),
            rp: make_credential::PublicKeyCredentialRpEntity { id: rng.pick(&["example.com", "", "\u{fc}ber.example"]).to_string(), name: if rng.bool() { Some("RP \u{1F511}".into()) } else { None } },
            user: webauthn::PublicKeyCredentialUserEntity { id: gen_bytes(rng, 64), display_name: rng.ascii_label(0, 10), name: "n\u{e4}me".into() },
            pub_key_cred_params: (0..rng.range(0, 4)).map(|_| PublicKeyCredentialParameters { ty: PublicKeyCredentialType::PublicKey, alg: *rng.pick(&algs) }).collect(),
            exclude_list: exclude,
            extensions: ext,
            options: make_credential::Options { rk: rng.bool(), up: rng.bool(), uv: rng.bool() },
            pin_auth: pin,
            pin_protocol: proto,
        },
        keys,
    )
}

pub(crate) fn gen_mc_resp(rng: &mut Rng) -> (make_credential::Response, Vec<u8>) {
    let mut keys = vec![1, 2, 3];
    let ep = if rng.chance(1, 3) {
        keys.push(4);
        Some(rng.bool())
    } else {
        None
    };
    let lb = if rng.chance(1, 3) {
        keys.push(5);
        Some(gen_bytes(rng, 32))
    } else {
        None
    };
    let un = if rng.bool() {
        keys.push(6);
        Some(make_credential::UnsignedExtensionOutputs { prf: Some(AuthenticatorPrfMakeOutputs { enabled: rng.bool(), results: if rng.bool() { Some(gen_prf_values(rng)) } else { None } }) })
    } else {
        None
    };
    (
        make_credential::Response {
            fmt: rng.pick(&["none", "None", "packed"]).to_string(),
            auth_data: gen_authdata(rng, true),
            att_stmt: if rng.chance(1, 8) { Cbor::Null } else if rng.bool() { Cbor::Map(vec![]) } else { Cbor::Map(vec![(Cbor::Text("alg".into()), Cbor::Integer((-7).into())), (Cbor::Text("sig".into()), Cbor::Bytes(rng.bytes(70)))]) },
            ep_att: ep,
            large_blob_key: lb,
            unsigned_extension_outputs: un,
        },
        keys,
    )
}

pub(crate) fn gen_ga_req(rng: &mut Rng) -> (get_assertion::Request, Vec<u8>) {
    let mut keys = vec![1, 2, 5];
    let allow = if rng.bool() {
        keys.push(3);
        Some((0..rng.range(0, 3)).map(|_| gen_descriptor(rng)).collect())
    } else {
        None
    };
    let ext = if rng.bool() {
        keys.push(4);
        let (h, _) = gen_hmac_input(rng);
        Some(get_assertion::ExtensionInputs { hmac_secret: if rng.chance(1, 3) { Some(h) } else { None }, prf: Some(gen_prf_inputs(rng)) })
    } else {
        None
    };
    let pin = if rng.chance(1, 3) {
        keys.push(6);
        Some(gen_bytes(rng, 32))
    } else {
        None
    };
    let proto = if rng.chance(1, 3) {
        keys.push(7);
        Some(rng.byte())
    } else {
        None
    };
    keys.sort();
    (
        get_assertion::Request {
            rp_id: rng.pick(&["example.com", "", "sub.example.org"]).to_string(),
            client_data_hash: gen_bytes(rng, 64),
            allow_list: allow,
            extensions: ext,
            options: get_assertion::Options { rk: rng.bool(), up: rng.bool(), uv: rng.bool() },
            pin_auth: pin,
            pin_protocol: proto,
        },
        keys,
    )
}

pub(crate) fn gen_ga_resp(rng: &mut Rng) -> (get_assertion::Response, Vec<u8>) {
    let mut keys = vec![2, 3];
    let cred = if rng.chance(3, 4) {
        keys.push(1);
        Some(gen_descriptor(rng))
    } else {
        None
    };
    let user = if rng.bool() {
        keys.push(4);
        Some(webauthn::PublicKeyCredentialUserEntity { id: gen_bytes(rng, 64), display_name: "".into(), name: "".into() })
    } else {
        None
    };
    let n = if rng.chance(1, 3) {
        keys.push(5);
        Some(rng.byte())
    } else {
        None
    };
    let sel = if rng.chance(1, 3) {
        keys.push(6);
        Some(rng.bool())
    } else {
        None
    };
    let lb = if rng.chance(1, 3) {
        keys.push(7);
        Some(gen_bytes(rng, 32))
    } else {
        None
    };
    let un = if rng.bool() {
        keys.push(8);
        Some(get_assertion::UnsignedExtensionOutputs { prf: Some(AuthenticatorPrfGetOutputs { results: gen_prf_values(rng) }) })
    } else {
        None
    };
    keys.sort();
    (
        get_assertion::Response {
            credential: cred,
            auth_data: gen_authdata(rng, false),
            signature: rng.bytes(rng.clone().range(8, 72)).into(),
            user,
            number_of_credentials: n,
            user_selected: sel,
            large_blob_key: lb,
            unsigned_extension_outputs: un,
        },
        keys,
    )
}

pub(crate) fn gen_gi_resp(rng: &mut Rng) -> (get_info::Response, Vec<u8>) {
    let mut keys = vec![1, 3];
    let ext = if rng.bool() {
        keys.push(2);
        Some(vec![get_info::Extension::HmacSecret, get_info::Extension::Prf, get_info::Extension::Unknown("credProtect".into()), get_info::Extension::HmacSecretMakeCredential][..rng.range(0, 4)].to_vec_owned())
    } else {
        None
    };
    let opts = if rng.bool() {
        keys.push(4);
        Some(get_info::Options { plat: rng.bool(), rk: rng.bool(), client_pin: *rng.pick(&[None, Some(true), Some(false)]), up: rng.bool(), uv: *rng.pick(&[None, Some(true), Some(false)]) })
    } else {
        None
    };
    let mms = if rng.chance(1, 3) {
        keys.push(5);
        std::num::NonZeroU128::new(*rng.pick(&[1u128, 1200, 7609, 65_535, 4_000_000_000, u64::MAX as u128, u64::MAX as u128 + 1, 1u128 << 100, u128::MAX]))
    } else {
        None
    };
    let pp = if rng.chance(1, 3) {
        keys.push(6);
        Some(vec![1u8, 2][..rng.range(0, 2)].to_vec())
    } else {
        None
    };
    let tr = if rng.bool() {
        keys.push(9);
        Some(vec![AuthenticatorTransport::Internal, AuthenticatorTransport::Hybrid, AuthenticatorTransport::Usb, AuthenticatorTransport::Nfc, AuthenticatorTransport::Ble][..rng.range(0, 5)].to_vec())
    } else {
        None
    };
    keys.sort();
    let mut aag = [0u8; 16];
    aag.copy_from_slice(&rng.bytes(16));
    (
        get_info::Response {
            versions: vec![get_info::Version::FIDO_2_0, get_info::Version::U2F_V2, get_info::Version::Unknown("FIDO_2_1".into())][..rng.range(0, 3)].to_vec_owned(),
            extensions: ext,
            aaguid: Aaguid::from(aag),
            options: opts,
            max_msg_size: mms,
            pin_protocols: pp,
            transports: tr,
        },
        keys,
    )
}

/// Version / Extension are not Clone: rebuild owned vectors from slices by re-serialising each element
trait ToVecOwned<T> {
    fn to_vec_owned(&self) -> Vec<T>;
}
impl<T: Serialize + DeserializeOwned> ToVecOwned<T> for [T] {
    fn to_vec_owned(&self) -> Vec<T> {
        self.iter().map(|x| de::<T>(&ser(x).unwrap()).unwrap()).collect()
    }
}

struct Ctx<'a> {
    rep: &'a mut Report,
    thorough: bool,
}

/// All checks for one message of one type.
fn check_message<T: Serialize + DeserializeOwned>(cx: &mut Ctx, ty: &'static str, table: Table, msg: &T, want_keys: &[u8], index: u64, rng: &mut Rng, eq: Option<&dyn Fn(&T, &T) -> bool>) {
    let rep = &mut *cx.rep;
    rep.eval();
    let bytes = match catch(|| ser(msg)) {
        Ok(Ok(b)) => b,
        Ok(Err(e)) => {
            rep.violate(&format!("{ty}: serialisation fails"), e, json!({"index": index, "type": ty}));
            return;
        }
        Err((sig, d)) => {
            rep.violate(&format!("{ty}: serialisation {sig}"), d, json!({"index": index, "type": ty}));
            return;
        }
    };
    let case = json!({"index": index, "type": ty, "present_members": want_keys, "cbor": hex_short(&bytes), "cbor_len": bytes.len()});
    let Ok(val) = oracle::cbor_parse(&bytes) else {
        rep.violate(&format!("{ty}: serialisation is not valid CBOR"), String::new(), case);
        return;
    };
    let Some(entries) = val.as_map().cloned() else {
        rep.violate(&format!("{ty}: serialisation is not a CBOR map"), String::new(), case);
        return;
    };
    // (a) integer keys = specified numbers of the present members, ascending, no nulls
    let got_keys: Vec<i128> = entries.iter().map(|(k, _)| oracle::cbor_int(k).unwrap_or(-999)).collect();
    let want: Vec<i128> = want_keys.iter().map(|k| i128::from(*k)).collect();
    if got_keys != want {
        let names = |ks: &[i128]| ks.iter().map(|k| table.iter().find(|t| i128::from(t.0) == *k).map(|t| t.1).unwrap_or("?")).collect::<Vec<_>>();
        rep.violate(
            &format!("{ty}: top-level keys are not exactly the specified integers of the present members in ascending order"),
            format!("got {got_keys:?} {:?}, expected {want:?} {:?}", names(&got_keys), names(&want)),
            case.clone(),
        );
    }
    if entries.iter().any(|(k, v)| v.is_null() && table.iter().any(|t| Some(i128::from(t.0)) == oracle::cbor_int(k) && !t.2)) {
        rep.violate(&format!("{ty}: absent optional member serialised as null"), String::new(), case.clone());
    }
    // (b) round trip
    let canon0 = canon(&val);
    match catch(|| de::<T>(&bytes)) {
        Err((sig, d)) => rep.violate(&format!("{ty}: deserialisation {sig}"), d, case.clone()),
        Ok(Err(e)) => rep.violate(&format!("{ty}: deserialising its own serialisation fails"), e, case.clone()),
        Ok(Ok(back)) => {
            let again = ser(&back).ok().and_then(|b| oracle::cbor_parse(&b).ok()).map(|v| canon(&v));
            if again.as_ref() != Some(&canon0) {
                rep.violate(&format!("{ty}: deserialised message re-serialises differently (not an equal message)"), String::new(), case.clone());
            }
            if let Some(eq) = eq {
                if !eq(msg, &back) {
                    rep.violate(&format!("{ty}: deserialised message is not equal (PartialEq)"), String::new(), case.clone());
                }
            }
        }
    }
    rep.nontrivial(fnv(format!("{ty}|{want_keys:?}|{}", bytes.len() / 16).as_bytes()));
    rep.sample_class(ty, json!({"type": ty, "present_members": want_keys, "cbor": hex_short(&bytes)}));
    // (c) unknown keys at every position are ignored
    let assigned: Vec<u8> = table.iter().map(|t| t.0).collect();
    let unknown_ints: Vec<u8> = (0..=255u8).filter(|k| !assigned.contains(k)).collect();
    let picks: Vec<u8> = if cx.thorough { unknown_ints.clone() } else { (0..6).map(|_| unknown_ints[rng.below(unknown_ints.len())]).chain([0u8, 255, 10, 24]).filter(|k| !assigned.contains(k)).collect() };
    let junk = |rng: &mut Rng| match rng.below(5) {
        0 => Cbor::Integer(7.into()),
        1 => Cbor::Text("x".into()),
        2 => Cbor::Bytes(vec![1, 2, 3]),
        3 => Cbor::Map(vec![(Cbor::Integer(1.into()), Cbor::Array(vec![Cbor::Null, Cbor::Bool(true)]))]),
        _ => Cbor::Null,
    };
    let mut try_injected = |rep: &mut Report, key: Cbor, pos: usize, label: &str, rng: &mut Rng| {
        rep.eval();
        let mut e = entries.clone();
        e.insert(pos.min(e.len()), (key, junk(rng)));
        let b = oracle::cbor_ser(&Cbor::Map(e));
        let mut c = case.clone();
        c["injected"] = json!({"key": label, "position": pos});
        match catch(|| de::<T>(&b)) {
            Err((sig, d)) => rep.violate(&format!("{ty}: deserialisation with an unknown key {sig}"), d, c),
            Ok(Err(e)) => rep.violate(&format!("{ty}: unknown {} key is not ignored (deserialisation fails)", if label.starts_with('"') { "text" } else { "integer" }), e, c),
            Ok(Ok(back)) => {
                let again = ser(&back).ok().and_then(|b| oracle::cbor_parse(&b).ok()).map(|v| canon(&v));
                if again.as_ref() != Some(&canon0) {
                    rep.violate(&format!("{ty}: unknown key changes the deserialised message"), String::new(), c);
                }
                rep.count("unknown_keys_ignored");
            }
        }
    };
    for k in picks {
        let pos = rng.below(entries.len() + 1);
        try_injected(rep, Cbor::Integer(k.into()), pos, &k.to_string(), rng);
    }
    for pos in 0..=entries.len() {
        let k = unknown_ints[rng.below(unknown_ints.len())];
        try_injected(rep, Cbor::Integer(k.into()), pos, &k.to_string(), rng);
        // (also text that reads as a number: a text key is not an integer key)
        let t = *rng.pick(&["zzUnknown", "", "x-y", "RpId ", "client_data_hash", "1", "2", "3", "03", "+4", "5", "9", "255", "-1"]);
        try_injected(rep, Cbor::Text(t.into()), pos, &format!("\"{t}\""), rng);
        // a text key that differs from a member's name in the case of its letters names no member
        // (capitalised and upper-case forms only: they can equal no lower-camel-case name)
        let name = table[rng.below(table.len())].1;
        let t = if rng.bool() { name.to_ascii_uppercase() } else { name[..1].to_ascii_uppercase() + &name[1..] };
        try_injected(rep, Cbor::Text(t.clone()), pos, &format!("\"{t}\""), rng);
    }
    // several unknown keys at once (a message from a newer protocol version carries more than one)
    {
        rep.eval();
        let mut e = entries.clone();
        let n = rng.range(2, 5);
        let mut labels = Vec::new();
        let mut used: Vec<u8> = Vec::new();
        for j in 0..n {
            let pos = rng.below(e.len() + 1);
            if j % 2 == 0 {
                let mut k = unknown_ints[rng.below(unknown_ints.len())];
                while used.contains(&k) {
                    k = unknown_ints[rng.below(unknown_ints.len())];
                }
                used.push(k);
                labels.push(k.to_string());
                e.insert(pos, (Cbor::Integer(k.into()), junk(rng)));
            } else {
                let t = format!("future-{j}");
                labels.push(format!("\"{t}\""));
                e.insert(pos, (Cbor::Text(t), junk(rng)));
            }
        }
        let b = oracle::cbor_ser(&Cbor::Map(e));
        let mut c = case.clone();
        c["injected"] = json!({"several_unknown_keys": labels});
        match catch(|| de::<T>(&b)) {
            Err((sig, d)) => rep.violate(&format!("{ty}: deserialisation with several unknown keys {sig}"), d, c),
            Ok(Err(e)) => rep.violate(&format!("{ty}: several unknown keys in one map are not ignored (deserialisation fails)"), e, c),
            Ok(Ok(back)) => {
                let again = ser(&back).ok().and_then(|b| oracle::cbor_parse(&b).ok()).map(|v| canon(&v));
                if again.as_ref() != Some(&canon0) {
                    rep.violate(&format!("{ty}: unknown keys change the deserialised message"), String::new(), c);
                }
                rep.count("several_unknown_keys_ignored");
            }
        }
    }
    // (e) duplicated member -> error; missing required member -> error
    for i in 0..entries.len() {
        rep.eval();
        let mut e = entries.clone();
        let dup = e[i].clone();
        let at = rng.below(e.len() + 1);
        e.insert(at, dup);
        let b = oracle::cbor_ser(&Cbor::Map(e));
        let mut c = case.clone();
        c["duplicated_key"] = json!(got_keys[i]);
        match catch(|| de::<T>(&b).is_ok()) {
            Ok(true) => rep.violate(&format!("{ty}: duplicated member accepted"), format!("key {}", got_keys[i]), c),
            Ok(false) => rep.count("duplicates_rejected"),
            Err((sig, d)) => rep.violate(&format!("{ty}: duplicate {sig}"), d, c),
        }
        // a duplicate whose first (or second) occurrence carries null is still a duplicate
        for null_first in [true, false] {
            rep.eval();
            let mut e = entries.clone();
            let nul = (e[i].0.clone(), Cbor::Null);
            if null_first {
                e.insert(i, nul);
            } else {
                e.insert(i + 1, nul);
            }
            let b = oracle::cbor_ser(&Cbor::Map(e));
            let mut c = case.clone();
            c["duplicated_key_with_null"] = json!({"key": got_keys[i], "null_first": null_first});
            match catch(|| de::<T>(&b).is_ok()) {
                Ok(true) => rep.violate(&format!("{ty}: duplicated member accepted when one occurrence is null"), format!("key {} (null {})", got_keys[i], if null_first { "first" } else { "second" }), c),
                Ok(false) => rep.count("duplicates_rejected"),
                Err((sig, d)) => rep.violate(&format!("{ty}: duplicate {sig}"), d, c),
            }
        }
        let key = got_keys[i];
        let required = table.iter().any(|t| i128::from(t.0) == key && t.2);
        if required {
            rep.eval();
            let mut e = entries.clone();
            e.remove(i);
            let b = oracle::cbor_ser(&Cbor::Map(e));
            let mut c = case.clone();
            c["removed_key"] = json!(key);
            match catch(|| de::<T>(&b).is_ok()) {
                Ok(true) => rep.violate(&format!("{ty}: missing required member accepted"), format!("key {key}"), c),
                Ok(false) => rep.count("missing_required_rejected"),
                Err((sig, d)) => rep.violate(&format!("{ty}: missing member {sig}"), d, c),
            }
        }
    }
}

/// (d) absent options take the specified defaults
fn check_defaults(rep: &mut Report, rng: &mut Rng, index: u64) {
    let (mc, _) = gen_mc_req(rng);
    let (ga, _) = gen_ga_req(rng);
    for (ty, bytes, key) in [("makeCredential request", ser(&mc).unwrap(), 7i128), ("getAssertion request", ser(&ga).unwrap(), 5i128)] {
        let val = oracle::cbor_parse(&bytes).unwrap();
        let entries = val.as_map().unwrap().clone();
        for variant in 0..4 {
            rep.eval();
            let mut e: Vec<(Cbor, Cbor)> = entries.iter().filter(|(k, _)| oracle::cbor_int(k) != Some(key)).cloned().collect();
            let (label, want) = match variant {
                0 => ("options absent", (false, true, false)),
                1 => {
                    e.push((Cbor::Integer((key as i64).into()), Cbor::Map(vec![])));
                    ("options = {}", (false, true, false))
                }
                2 => {
                    e.push((Cbor::Integer((key as i64).into()), Cbor::Map(vec![(Cbor::Text("rk".into()), Cbor::Bool(true))])));
                    ("options = {rk:true}", (true, true, false))
                }
                _ => {
                    e.push((Cbor::Integer((key as i64).into()), Cbor::Map(vec![(Cbor::Text("uv".into()), Cbor::Bool(true)), (Cbor::Text("futureOption".into()), Cbor::Bool(true))])));
                    ("options = {uv:true, unknown}", (false, true, true))
                }
            };
            let b = oracle::cbor_ser(&Cbor::Map(e));
            let case = json!({"index": index, "type": ty, "variant": label});
            let got = if key == 7 { catch(|| de::<make_credential::Request>(&b).map(|r| (r.options.rk, r.options.up, r.options.uv))) } else { catch(|| de::<get_assertion::Request>(&b).map(|r| (r.options.rk, r.options.up, r.options.uv))) };
            match got {
                Ok(Ok(g)) => {
                    if g != want {
                        rep.violate(&format!("{ty}: absent option members do not take the defaults rk=false, up=true, uv=false"), format!("{label}: got rk={} up={} uv={}", g.0, g.1, g.2), case);
                    }
                    rep.count("defaults_checked");
                }
                Ok(Err(e)) => rep.violate(&format!("{ty}: request without (full) options is rejected"), format!("{label}: {e}"), case),
                Err((sig, d)) => rep.violate(&format!("{ty}: defaults {sig}"), d, case),
            }
        }
    }
}

/// (d') the getInfo response's option map has defaults of its own (CTAP 2.0 §5.4: plat false, rk false,
/// up true; clientPin and uv absent)
fn check_info_option_defaults(rep: &mut Report, rng: &mut Rng, index: u64) {
    let (gi, _) = gen_gi_resp(rng);
    let bytes = ser(&gi).unwrap();
    let val = oracle::cbor_parse(&bytes).unwrap();
    let entries = val.as_map().unwrap().clone();
    for variant in 0..3 {
        rep.eval();
        let mut e: Vec<(Cbor, Cbor)> = entries.iter().filter(|(k, _)| oracle::cbor_int(k) != Some(4)).cloned().collect();
        let (label, opts, want): (&str, Vec<(Cbor, Cbor)>, (bool, bool, bool)) = match variant {
            0 => ("options = {}", vec![], (false, false, true)),
            1 => ("options = {rk:true, clientPin:false}", vec![(Cbor::Text("rk".into()), Cbor::Bool(true)), (Cbor::Text("clientPin".into()), Cbor::Bool(false))], (false, true, true)),
            _ => ("options = {plat:true, up:false}", vec![(Cbor::Text("plat".into()), Cbor::Bool(true)), (Cbor::Text("up".into()), Cbor::Bool(false))], (true, false, false)),
        };
        e.push((Cbor::Integer(4.into()), Cbor::Map(opts)));
        let b = oracle::cbor_ser(&Cbor::Map(e));
        let case = json!({"index": index, "type": "getInfo response", "variant": label});
        match catch(|| de::<get_info::Response>(&b).map(|r| r.options.map(|o| (o.plat, o.rk, o.up)))) {
            Ok(Ok(Some(g))) => {
                if g != want {
                    rep.violate("getInfo response: absent option members do not take the defaults plat=false, rk=false, up=true", format!("{label}: got plat={} rk={} up={}", g.0, g.1, g.2), case);
                }
                rep.count("info_defaults_checked");
            }
            Ok(Ok(None)) => rep.violate("getInfo response: options member present on the wire is absent after decoding", label.into(), case),
            Ok(Err(e)) => rep.violate("getInfo response: response with a partial options map is rejected", format!("{label}: {e}"), case),
            Err((sig, d)) => rep.violate(&format!("getInfo response: defaults {sig}"), d, case),
        }
    }
}

/// (e') the hmac-secret input nested in a getAssertion request: a missing or repeated member of the
/// nested map is an error there as it is for the input on its own
fn check_nested_hmac_input(rep: &mut Report, rng: &mut Rng, index: u64) {
    let (mut ga, _) = gen_ga_req(rng);
    let (h, _) = gen_hmac_input(rng);
    ga.extensions = Some(get_assertion::ExtensionInputs { hmac_secret: Some(h), prf: None });
    let bytes = ser(&ga).unwrap();
    let val = oracle::cbor_parse(&bytes).unwrap();
    let top = val.as_map().unwrap().clone();
    let Some(ext_pos) = top.iter().position(|(k, _)| oracle::cbor_int(k) == Some(4)) else { return };
    let Some(ext) = top[ext_pos].1.as_map().cloned() else { return };
    let Some(h_pos) = ext.iter().position(|(k, _)| k.as_text() == Some("hmac-secret")) else { return };
    let Some(inner) = ext[h_pos].1.as_map().cloned() else { return };
    let rebuild = |inner2: Vec<(Cbor, Cbor)>| {
        let mut ext2 = ext.clone();
        ext2[h_pos].1 = Cbor::Map(inner2);
        let mut top2 = top.clone();
        top2[ext_pos].1 = Cbor::Map(ext2);
        oracle::cbor_ser(&Cbor::Map(top2))
    };
    // the well-formed nesting decodes
    rep.eval();
    if !matches!(catch(|| de::<get_assertion::Request>(&bytes).is_ok()), Ok(true)) {
        rep.violate("getAssertion request: a request carrying a well-formed hmac-secret input does not decode", String::new(), json!({"index": index}));
        return;
    }
    for i in 0..inner.len() {
        let key = oracle::cbor_int(&inner[i].0);
        // members 1, 2, 3 (keyAgreement, saltEnc, saltAuth) are required, 4 is optional
        if matches!(key, Some(1..=3)) {
            rep.eval();
            let mut m = inner.clone();
            m.remove(i);
            let case = json!({"index": index, "type": "getAssertion request", "nested": "extensions/hmac-secret", "removed_key": key});
            match catch(|| de::<get_assertion::Request>(&rebuild(m)).is_ok()) {
                Ok(true) => rep.violate("getAssertion request: nested hmac-secret input with a missing required member accepted", format!("key {key:?}"), case),
                Ok(false) => rep.count("nested_missing_required_rejected"),
                Err((sig, d)) => rep.violate(&format!("getAssertion request: nested input {sig}"), d, case),
            }
        }
        rep.eval();
        let mut m = inner.clone();
        m.insert(rng.below(inner.len() + 1), inner[i].clone());
        let case = json!({"index": index, "type": "getAssertion request", "nested": "extensions/hmac-secret", "duplicated_key": key});
        match catch(|| de::<get_assertion::Request>(&rebuild(m)).is_ok()) {
            Ok(true) => rep.violate("getAssertion request: nested hmac-secret input with a duplicated member accepted", format!("key {key:?}"), case),
            Ok(false) => rep.count("nested_duplicates_rejected"),
            Err((sig, d)) => rep.violate(&format!("getAssertion request: nested input {sig}"), d, case),
        }
    }
}

fn status_bytes(rep: &mut Report, only: Option<u64>) {
    // (f) u8 -> StatusCode -> u8 is the identity and injective
    let all: Vec<StatusCode> = (0..=255u8).map(StatusCode::from).collect();
    for b in 0..=255u8 {
        if only.map_or(false, |o| o != 5_000_000 + u64::from(b)) {
            continue;
        }
        rep.eval();
        let case = json!({"index": 5_000_000 + u64::from(b), "status_byte": b});
        rep.nontrivial(fnv(&[b, 0xAA]));
        let back = catch(|| u8::from(StatusCode::from(b)));
        match back {
            Ok(x) if x == b => {}
            Ok(x) => rep.violate("status byte does not convert back to the same byte", format!("{b:#04x} -> {:?} -> {x:#04x}", StatusCode::from(b)), case.clone()),
            Err((sig, d)) => rep.violate(&format!("status conversion {sig}"), d, case.clone()),
        }
        if let Some(o) = (0..=255u8).find(|o| *o != b && all[usize::from(*o)] == all[usize::from(b)]) {
            rep.violate("two status bytes convert to the same status value", format!("{b:#04x} and {o:#04x} -> {:?}", all[usize::from(b)]), case.clone());
        }
        // every byte belongs to exactly one class of status value, and that class is where the total
        // conversion puts it
        {
            use passkey_types::ctap2::{Ctap2Code, Ctap2Error, ExtensionError, U2FError, UnknownSpecError, VendorError};
            let classes = [
                ("CTAP1 / U2F", U2FError::try_from(b).ok().map(|e| StatusCode::Ctap1(e))),
                ("CTAP2 (defined)", Ctap2Error::try_from(b).ok().map(|e| StatusCode::Ctap2(Ctap2Code::from(e)))),
                ("extension range", ExtensionError::try_from(b).ok().map(|e| StatusCode::Ctap2(Ctap2Code::from(e)))),
                ("vendor range", VendorError::try_from(b).ok().map(|e| StatusCode::Ctap2(Ctap2Code::from(e)))),
                ("reserved / undefined", UnknownSpecError::try_from(b).ok().map(|e| StatusCode::Ctap2(Ctap2Code::from(e)))),
            ];
            let taken: Vec<&str> = classes.iter().filter(|c| c.1.is_some()).map(|c| c.0).collect();
            // (byte 0x00 is both CTAP1 success and CTAP2 OK by specification)
            if taken.len() != 1 && b != 0 {
                rep.violate("a status byte does not belong to exactly one class of status value", format!("{b:#04x}: {taken:?}"), case.clone());
            } else if b != 0 && classes.iter().find_map(|c| c.1.as_ref()) != Some(&all[usize::from(b)]) {
                rep.violate("a status byte's total conversion is not the value of the class it belongs to", format!("{b:#04x}: StatusCode::from gives {:?}, its class {taken:?}", all[usize::from(b)]), case.clone());
            }
            rep.count("status_classes_checked");
        }
        // (g) client mapping, in isolation
        let w = WebauthnError::from(StatusCode::from(b));
        let want = if b == 0x2E { WebauthnError::CredentialNotFound } else { WebauthnError::AuthenticatorError(b) };
        if w != want {
            rep.violate("client maps a status byte to something other than credential-not-found (0x2E) / AuthenticatorError(byte)", format!("{b:#04x} -> {w:?}"), case.clone());
        }
        // (g) end to end: the store fails with byte b during authenticate
        let r = catch(|| {
            let rig = Rig::ok(Disc::Full);
            let mut rng = Rng::derive(3, "c13s", u64::from(b));
            let (pk, _, _) = seeded_passkey(&mut rng, "example.com", &[9; 16], Some(b"u"), Some(1), None);
            rig.store.insert_raw(pk);
            rig.store.set_fault(Kind::Find, 0, b);
            let mut client = rig.client(AuthCfg::default());
            let a = block_on(client.authenticate(&url("https://example.com"), request_options(Some("example.com"), &[1; 16], None, UserVerificationRequirement::Preferred), DefaultClientData)).err();
            // and during register (save fails) - recorded, the statement speaks of authentication
            let rig2 = Rig::ok(Disc::Full);
            rig2.store.set_fault(Kind::Save, 0, b);
            let mut client2 = rig2.client(AuthCfg::default());
            let r = block_on(client2.register(&url("https://example.com"), creation_options(Some("example.com"), b"u", "n", &[1; 16], vec![pk_param(iana::Algorithm::ES256)]), DefaultClientData)).err();
            (a, r)
        });
        match r {
            Ok((a, r)) => {
                if a != Some(want) {
                    rep.violate("client does not pass the authenticator's status byte through during authentication (0x2E -> credential-not-found)", format!("store failed with {b:#04x}, client reported {a:?}"), case.clone());
                }
                rep.count("status_end_to_end");
                if r != Some(WebauthnError::AuthenticatorError(b)) {
                    rep.count("register_status_not_passed_through (recorded, not judged)");
                }
            }
            Err((sig, d)) => rep.violate(&format!("status end-to-end {sig}"), d, case),
        }
    }
}

pub fn run(args: &Args) -> Report {
    let mut rep = Report::new(
        "C13",
        &args.tier,
        args.seed,
        "generated values of the 7 CTAP2 message types (every optional member present/absent, nested descriptors, extension inputs/outputs, arbitrary byte strings, authenticator data below 4 KiB), serialised and parsed with a generic CBOR parser against key tables written from the CTAP specification; unknown integer/text keys (also member names in another letter case) injected at every position; each member duplicated; each required member removed; option defaults; all 256 status bytes in isolation and end-to-end; distinct by (type, set of present members, size bucket) resp. status byte; every generated message is non-trivial when it parses as a map",
    );
    rep.assumptions.push("equal message = the re-serialisation parses to an equal generic CBOR value (nested maps compared order-insensitively); Debug text is not compared".into());
    rep.assumptions.push("embedded authenticator data stays below 4096 bytes (WebAuthn size limits)".into());
    let only = replay_index(args);
    let n = args.size(150, 3000) as u64;
    let mut cx = Ctx { rep: &mut rep, thorough: args.thorough() };
    for i in 0..n {
        for (t, ty) in ["makeCredential request", "makeCredential response", "getAssertion request", "getAssertion response", "getInfo response", "hmac-secret input"].iter().enumerate() {
            let idx = i * 10 + t as u64;
            if only.map_or(false, |o| o != idx) {
                continue;
            }
            let mut rng = Rng::derive(args.seed, "c13", idx);
            let r = catch(|| match t {
                0 => {
                    let (m, k) = gen_mc_req(&mut rng);
                    check_message(&mut cx, ty, MC_REQ, &m, &k, idx, &mut rng, None)
                }
                1 => {
                    let (m, k) = gen_mc_resp(&mut rng);
                    check_message(&mut cx, ty, MC_RESP, &m, &k, idx, &mut rng, None)
                }
                2 => {
                    let (m, k) = gen_ga_req(&mut rng);
                    check_message(&mut cx, ty, GA_REQ, &m, &k, idx, &mut rng, None)
                }
                3 => {
                    let (m, k) = gen_ga_resp(&mut rng);
                    check_message(&mut cx, ty, GA_RESP, &m, &k, idx, &mut rng, None)
                }
                4 => {
                    let (m, k) = gen_gi_resp(&mut rng);
                    check_message(&mut cx, ty, GI_RESP, &m, &k, idx, &mut rng, Some(&|a: &get_info::Response, b: &get_info::Response| a == b))
                }
                _ => {
                    let (m, k) = gen_hmac_input(&mut rng);
                    check_message(&mut cx, ty, HMAC_IN, &m, &k, idx, &mut rng, None)
                }
            });
            if let Err((sig, d)) = r {
                cx.rep.violate(&format!("{ty}: {sig}"), d, json!({"index": idx, "type": ty}));
            }
        }
        if only.map_or(true, |o| o == i * 10 + 9) {
            let mut rng = Rng::derive(args.seed, "c13d", i);
            check_defaults(cx.rep, &mut rng, i * 10 + 9);
            check_info_option_defaults(cx.rep, &mut rng, i * 10 + 9);
            check_nested_hmac_input(cx.rep, &mut rng, i * 10 + 9);
        }
    }
    status_bytes(&mut rep, only);
    rep.exhaustive = false;
    rep.obs("status_bytes_exhaustive", json!(true));
    let _ = ctap2::Ctap2Error::Ok;
    if only.is_none() && (rep.get("unknown_keys_ignored") == 0 || rep.get("duplicates_rejected") == 0 || rep.get("missing_required_rejected") == 0 || rep.get("defaults_checked") == 0 || rep.get("status_end_to_end") != 256) {
        rep.inconclusive("a clause (unknown keys, duplicates, missing members, defaults, 256 status bytes end-to-end) was not fully evaluated".into());
    }
    rep
}
