//! C08 — signature counters strictly increase and equal what the store holds.
//! Histories run in crash-isolating workers (an overflow panic or abort must be attributable),
//! in the overflow-checking and in the wrapping build.

use serde_json::json;

use crate::{
    collab::{Disc, Ev},
    exec::block_on,
    oracle::authdata,
    props::c02::replay_index,
    report::{hex_short, Report},
    rng::{fnv_str, Rng},
    util::{descriptor, ga_request, mc_request, pk_param, seeded_passkey, AuthCfg, HmacCfg, Rig},
    worker::{run_isolated, CaseDesc, CaseOut, IsoCfg},
    Args,
};

const STARTS: [u32; 8] = [0, 1, 9000, 0x7FFF_FFFF, 0x8000_0000, 0xFFFF_FFFD, 0xFFFF_FFFE, 0xFFFF_FFFF];

struct Hist {
    creds: Vec<(Vec<u8>, Option<u32>, bool)>, // id, start counter, has prf secrets
    steps: Vec<(usize, bool)>,               // credential index, request prf
    /// steps performed as silent assertions (up=false, uv=false, the user-validation step reports nothing)
    silent: Vec<bool>,
    /// the k-th counter update of the history is refused by the store with this status
    update_fault: Option<(usize, u8)>,
    register_first: bool,
    counters_cfg: bool,
}

fn gen(seed: u64, idx: u64) -> Hist {
    let mut rng = Rng::derive(seed, "c08", idx);
    let n = rng.range(2, 5);
    let mut creds = Vec::new();
    for k in 0..n {
        let start = match rng.below(4) {
            0 => None,
            _ => Some(*rng.pick(&STARTS)),
        };
        creds.push((vec![0x80 + k as u8; 16], start, rng.bool()));
    }
    // make sure boundary values are common: every third history forces one credential near the maximum
    if idx % 3 == 0 {
        creds[0].1 = Some(*rng.pick(&[0xFFFF_FFFE, 0xFFFF_FFFF, 0xFFFF_FFFD]));
    }
    let len = rng.range(5, 50);
    let steps: Vec<(usize, bool)> = (0..len).map(|_| (rng.below(n), rng.chance(1, 3))).collect();
    let silent: Vec<bool> = (0..len).map(|_| rng.chance(1, 5)).collect();
    let update_fault = if rng.chance(1, 3) { Some((rng.below(6), *rng.pick(&[0x28u8, 0x7F, 0x01, 0x2E, 0xF0]))) } else { None };
    Hist { creds, steps, silent, update_fault, register_first: rng.chance(1, 3), counters_cfg: rng.bool() }
}

fn start_class(h: &Hist) -> String {
    let mut v: Vec<String> = h
        .creds
        .iter()
        .map(|c| match c.1 {
            None => "none".to_string(),
            Some(x) if x >= 0xFFFF_FFFD => "near-max".to_string(),
            Some(x) if x >= 0x7FFF_FFFF && x <= 0x8000_0000 => "2^31".to_string(),
            Some(_) => "low".to_string(),
        })
        .collect();
    v.sort();
    v.dedup();
    v.join("+")
}

pub fn describe(args: &Args, idx: u64) -> CaseDesc {
    let h = gen(args.seed, idx);
    CaseDesc {
        decoder: "get_assertion-history".into(),
        mutation: start_class(&h),
        case: json!({"credentials": h.creds.iter().map(|c| json!({"id": hex_short(&c.0), "start": c.1, "prf_secrets": c.2})).collect::<Vec<_>>(),
            "steps": h.steps.len(), "update_fault": h.update_fault, "register_first": h.register_first, "counters_configured": h.counters_cfg}),
    }
}

pub fn iso_case(args: &Args, idx: u64) -> CaseOut {
    let h = gen(args.seed, idx);
    let mut out = CaseOut { class: "history".into(), ..Default::default() };
    let mut rng = Rng::derive(args.seed, "c08k", idx);
    // what the store advertises about discoverability has no bearing on counters
    let disc = *Rng::derive(args.seed, "c08disc", idx).pick(&[Disc::Full, Disc::Full, Disc::Forced, Disc::OnlyNonDiscoverable]);
    let rig = Rig::ok(disc);
    out.counters.push((format!("histories_over_store_{disc:?}"), 1));
    // (evaluation of PRF at creation is switched on for half of the histories)
    let cfg = AuthCfg { counters: h.counters_cfg, hmac: HmacCfg::WithoutUv, hmac_mc: Rng::derive(args.seed, "c08mc", idx).bool(), ..Default::default() };
    let mut auth = rig.auth(cfg);
    let rp = "example.com";
    let mut ids: Vec<Vec<u8>> = Vec::new();
    let mut shadow: Vec<Option<u32>> = Vec::new();
    let mut keys: Vec<Option<(Vec<u8>, Vec<u8>)>> = Vec::new();
    for (id, start, prf) in &h.creds {
        let hm = if *prf { Some((rng.bytes(32), Some(rng.bytes(32)))) } else { None };
        let (pk, x, y) = seeded_passkey(&mut rng, rp, id, Some(b"u"), *start, hm);
        rig.store.insert_raw(pk);
        ids.push(id.clone());
        shadow.push(*start);
        keys.push(Some((x, y)));
    }
    let case = |step: usize| json!({"index": idx, "step": step, "history": describe(args, idx).case});
    let mut viol = |out: &mut CaseOut, sig: &str, detail: String, step: usize| out.violations.push((sig.to_string(), detail, case(step)));
    let mut has_prf: Vec<bool> = h.creds.iter().map(|c| c.2).collect();
    if h.register_first {
        // a fresh registration: reports zero, stores Some(0) iff configured
        // discoverable or not: the initial counter follows the configuration alone
        // with or without a PRF request (evaluated at creation when the configuration says so)
        let reg_ext = rng.bool().then(|| passkey_types::ctap2::make_credential::ExtensionInputs {
            hmac_secret: None,
            hmac_secret_mc: None,
            prf: Some(passkey_types::ctap2::extensions::AuthenticatorPrfInputs { eval: rng.bool().then(|| passkey_types::ctap2::extensions::AuthenticatorPrfValues { first: [9; 32], second: None }), eval_by_credential: None }),
        });
        let r = block_on(auth.make_credential(mc_request(rp, b"fresh", &[1u8; 32], vec![pk_param(coset::iana::Algorithm::ES256)], None, reg_ext, rng.bool(), true, true)));
        if let Ok(resp) = r {
            let ad = authdata::decode(&resp.auth_data.to_vec()).ok();
            let new_id = ad.as_ref().and_then(|a| a.attested.as_ref().map(|t| t.cred_id.clone())).unwrap_or_default();
            let stored = rig.store.snapshot().into_iter().find(|c| c.id == new_id).map(|c| c.counter);
            if ad.as_ref().map(|a| a.counter) != Some(0) {
                viol(&mut out, "registration does not report counter zero", format!("{:?}", ad.map(|a| a.counter)), 0);
            }
            let want = if h.counters_cfg { Some(0) } else { None };
            if stored != Some(want) {
                viol(&mut out, "registration stores a counter that does not follow the configuration", format!("stored {stored:?} want {want:?}"), 0);
            }
            ids.push(new_id);
            shadow.push(want);
            has_prf.push(false);
            keys.push(None);
            out.counters.push(("registrations".into(), 1));
        }
    }
    if let Some((nth, code)) = h.update_fault {
        rig.store.set_fault(crate::collab::Kind::Update, nth, code);
    }
    let mut assertions = 0u64;
    let mut boundary = 0u64;
    let mut max_per_cred = vec![0u32; ids.len()];
    for (step, (k0, want_prf)) in h.steps.iter().enumerate() {
        let k = if h.register_first && step % 4 == 3 { ids.len() - 1 } else { *k0 };
        let before = shadow[k];
        rig.log.clear();
        // a PRF request is also made of credentials that hold no PRF secret: that assertion is refused
        let ext = (*want_prf && (has_prf[k] || step % 2 == 0)).then(|| passkey_types::ctap2::get_assertion::ExtensionInputs {
            hmac_secret: None,
            prf: Some(passkey_types::ctap2::extensions::AuthenticatorPrfInputs {
                eval: Some(passkey_types::ctap2::extensions::AuthenticatorPrfValues { first: [3; 32], second: None }),
                eval_by_credential: None,
            }),
        });
        let silent = h.silent[step];
        rig.uv.set_outcome(if silent { crate::collab::UvOutcome::Check { presence: false, verification: false } } else { crate::collab::UvOutcome::Check { presence: true, verification: true } });
        let ext = if silent { None } else { ext };
        let res = block_on(auth.get_assertion(ga_request(rp, &[2u8; 32], Some(vec![descriptor(&ids[k])]), ext, !silent, !silent)));
        let stored_now = rig.store.snapshot().into_iter().find(|c| c.id == ids[k]).and_then(|c| c.counter);
        let updates = rig.log.snapshot().iter().filter(|e| matches!(e.ev, Ev::Update { .. })).count();
        match res {
            Ok(resp) => {
                assertions += 1;
                let reported = authdata::decode(&resp.auth_data.to_vec()).map(|a| a.counter).unwrap_or(u32::MAX / 3);
                // the counter a relying party can rely on is the signed one
                if let Some((x, y)) = &keys[k] {
                    let mut msg = resp.auth_data.to_vec();
                    msg.extend_from_slice(&[2u8; 32]);
                    if let Err(e) = crate::oracle::verify_es256_any(x, y, &msg, &resp.signature) {
                        viol(&mut out, "the returned authenticator data (with its counter) is not what was signed", e, step);
                    }
                    out.counters.push(("signed_counters_verified".into(), 1));
                }
                match before {
                    None => {
                        if reported != 0 {
                            viol(&mut out, "counter-less credential reports a non-zero counter", format!("{reported}"), step);
                        }
                        if updates != 0 || stored_now.is_some() {
                            viol(&mut out, "counter-less credential was rewritten by an assertion", format!("{updates} update call(s), stored counter {stored_now:?}"), step);
                        }
                    }
                    Some(c) if c < u32::MAX => {
                        if reported != c + 1 {
                            viol(&mut out, "assertion does not report the previous counter plus one", format!("previous {c}, reported {reported}"), step);
                        }
                        if stored_now != Some(reported) {
                            viol(&mut out, "reported counter differs from the value then held in the store", format!("reported {reported}, stored {stored_now:?}"), step);
                        }
                        shadow[k] = stored_now;
                        if c >= 0xFFFF_FFFD || (0x7FFF_FFFE..=0x8000_0000).contains(&c) {
                            boundary += 1;
                        }
                    }
                    Some(c) => {
                        boundary += 1;
                        // at the 32-bit maximum: never a smaller value
                        if reported < c {
                            viol(&mut out, "counter wrapped to a smaller value at the 32-bit maximum", format!("previous {c}, reported {reported}"), step);
                        }
                        if stored_now.map_or(true, |s| s < c) {
                            viol(&mut out, "stored counter became smaller at the 32-bit maximum", format!("previous {c}, stored {stored_now:?}"), step);
                        }
                        shadow[k] = stored_now;
                    }
                }
                if reported > max_per_cred[k] {
                    max_per_cred[k] = reported;
                }
            }
            Err(_) => {
                // an error is not a crash; the store must not hold a smaller counter afterwards, and a
                // counter-less credential is not rewritten by a refused assertion either
                if before.is_none() && (updates != 0 || stored_now.is_some()) {
                    viol(&mut out, "counter-less credential was rewritten by an assertion", format!("refused assertion: {updates} update call(s), stored counter {stored_now:?}"), step);
                }
                if let (Some(c), Some(s)) = (before, stored_now) {
                    if s < c {
                        viol(&mut out, "stored counter became smaller after a failed assertion", format!("previous {c}, stored {s}"), step);
                    }
                    shadow[k] = Some(s);
                }
                out.counters.push(("assertion_errors".into(), 1));
            }
        }
    }
    // the same rule over the library's own in-memory store, with an imported counter-less credential whose
    // stored RP ID is spelled as another implementation might have left it (that store finds by id alone)
    {
        use passkey_authenticator::MemoryStore;
        let spelled = *rng.pick(&["", "EXAMPLE.COM", "example.com", "example.com."]);
        let (pk, _, _) = seeded_passkey(&mut rng, spelled, &[0x77; 16], Some(b"u"), None, None);
        let fields = |p: &passkey_types::Passkey| {
            use coset::CborSerializable;
            (p.rp_id.clone(), p.counter, p.user_handle.as_ref().map(|h| h.to_vec()), p.credential_id.to_vec(), p.key.clone().to_vec().unwrap_or_default())
        };
        let before = fields(&pk);
        let mut m = MemoryStore::new();
        m.insert(pk.credential_id.to_vec(), pk);
        let mut a2 = crate::util::mk_auth(m, rig.uv.clone(), cfg);
        rig.uv.set_outcome(crate::collab::UvOutcome::Check { presence: true, verification: true });
        for n in 0..2 {
            let r = block_on(a2.get_assertion(ga_request(rp, &[2u8; 32], Some(vec![descriptor(&[0x77; 16])]), None, true, true)));
            if let Ok(resp) = &r {
                let reported = authdata::decode(&resp.auth_data.to_vec()).map(|a| a.counter).unwrap_or(u32::MAX / 3);
                if reported != 0 {
                    viol(&mut out, "counter-less credential reports a non-zero counter", format!("in-memory store, imported credential with stored RP ID {spelled:?}: {reported}"), 1000 + n);
                }
            }
            let now = a2.store().get(&vec![0x77u8; 16]).map(fields);
            if now.as_ref() != Some(&before) {
                viol(&mut out, "counter-less credential was rewritten by an assertion", format!("in-memory store, imported credential: stored RP ID {:?} -> {:?}, counter {:?} -> {:?}", before.0, now.as_ref().map(|x| x.0.clone()), before.1, now.as_ref().map(|x| x.1)), 1000 + n);
            }
        }
        out.counters.push(("imported_counterless_credentials_checked".into(), 1));
    }
    // the library's shared-store wrappers around its in-memory store, with counters at and just below the
    // 32-bit maximum: no crash, never a smaller value, the reported value is the stored one
    {
        use passkey_authenticator::MemoryStore;
        let mut r3 = Rng::derive(args.seed, "c08wrap", idx);
        let start = *r3.pick(&[u32::MAX, u32::MAX - 1, u32::MAX - 2, 7]);
        let id = vec![0x55u8; 16];
        let (pk, _, _) = seeded_passkey(&mut r3, rp, &id, Some(b"u"), Some(start), None);
        let mut m = MemoryStore::new();
        m.insert(id.clone(), pk);
        rig.uv.set_outcome(crate::collab::UvOutcome::Check { presence: true, verification: true });
        macro_rules! go {
            ($shared:expr, $read:ident) => {{
                let shared = $shared;
                let mut a3 = crate::util::mk_auth(shared.clone(), rig.uv.clone(), AuthCfg { counters: true, ..Default::default() });
                let mut prev = start;
                for n in 0..3 {
                    let r = block_on(a3.get_assertion(ga_request(rp, &[2u8; 32], Some(vec![descriptor(&id)]), None, true, true)));
                    let stored = shared.$read().ok().and_then(|g| g.get(&id).and_then(|p| p.counter));
                    if let Ok(resp) = &r {
                        let reported = authdata::decode(&resp.auth_data.to_vec()).map(|a| a.counter).unwrap_or(u32::MAX / 3);
                        if reported < prev || (prev < u32::MAX && reported != prev + 1) {
                            viol(&mut out, "assertion does not report the previous counter plus one", format!("shared in-memory store: previous {prev}, reported {reported}"), 3000 + n);
                        }
                        if stored != Some(reported) && prev < u32::MAX {
                            viol(&mut out, "reported counter differs from the value then held in the store", format!("shared in-memory store: reported {reported}, stored {stored:?}"), 3000 + n);
                        }
                    }
                    if stored.map_or(true, |s| s < prev) {
                        viol(&mut out, "stored counter became smaller at the 32-bit maximum", format!("shared in-memory store: previous {prev}, stored {stored:?}"), 3000 + n);
                    }
                    prev = stored.unwrap_or(prev);
                }
            }};
        }
        if r3.bool() { go!(std::sync::Arc::new(tokio::sync::Mutex::new(m)), try_lock) } else { go!(std::sync::Arc::new(tokio::sync::RwLock::new(m)), try_read) }
        out.counters.push(("shared_store_boundary_histories".into(), 1));
    }
    // the same rule seen by a relying party through the client: every successful Client::authenticate
    // reports the value the store held before it plus one, which is what the store holds afterwards -
    // whatever userVerification asks for, with and without a PRF evaluation, over an authenticator whose
    // hmac-secret support is configured either way (a refused ceremony may consume a value; a successful
    // one consumes exactly one)
    {
        use passkey_client::DefaultClientData;
        use passkey_types::webauthn::{AuthenticationExtensionsClientInputs, AuthenticationExtensionsPrfInputs, AuthenticationExtensionsPrfValues, UserVerificationRequirement as Uvr};
        let mut r2 = Rng::derive(args.seed, "c08client", idx);
        let rig2 = Rig::ok(disc);
        // half of the users are verified only when verification is asked for
        rig2.uv.set_verifies_only_when_asked(r2.bool());
        let hmac = *r2.pick(&[HmacCfg::UvOnly, HmacCfg::WithoutUv, HmacCfg::None]);
        let id = vec![0x66u8; 16];
        let start = *r2.pick(&[0u32, 1, 9000, 0x7FFF_FFFF, 0xFFFF_FFF0]);
        let secrets = match r2.below(3) {
            0 => None,
            1 => Some((r2.bytes(32), None)),
            _ => Some((r2.bytes(32), Some(r2.bytes(32)))),
        };
        let (pk, _, _) = seeded_passkey(&mut r2, rp, &id, Some(b"u"), Some(start), secrets);
        rig2.store.insert_raw(pk);
        let mut client = rig2.client(AuthCfg { counters: true, hmac, ..Default::default() });
        let origin = crate::util::url("https://example.com");
        let mut client_ok = 0u64;
        for n in 0..r2.range(3, 8) {
            let uvr = *r2.pick(&[Uvr::Discouraged, Uvr::Preferred, Uvr::Required]);
            let prf = r2.bool();
            let mut opts = crate::util::request_options(Some(rp), &[6u8; 16], if r2.bool() { Some(vec![descriptor(&id)]) } else { None }, uvr);
            if prf {
                opts.public_key.extensions = Some(AuthenticationExtensionsClientInputs {
                    cred_props: None,
                    prf: Some(AuthenticationExtensionsPrfInputs { eval: Some(AuthenticationExtensionsPrfValues { first: r2.bytes(8).into(), second: None }), eval_by_credential: None }),
                    prf_already_hashed: None,
                });
            }
            let before = rig2.store.snapshot().into_iter().find(|c| c.id == id).and_then(|c| c.counter);
            let res = block_on(client.authenticate(&origin, opts, DefaultClientData));
            let after = rig2.store.snapshot().into_iter().find(|c| c.id == id).and_then(|c| c.counter);
            let what = format!("Client::authenticate {n}: userVerification {uvr:?}, prf requested {prf}, hmac-secret configuration {hmac:?}");
            match (res, before) {
                (Ok(cred), Some(b)) => {
                    client_ok += 1;
                    let reported = authdata::decode(&cred.response.authenticator_data.to_vec()).map(|a| a.counter).unwrap_or(u32::MAX / 3);
                    if reported != b + 1 {
                        viol(&mut out, "assertion does not report the previous counter plus one", format!("{what}: the store held {b} before the ceremony, the relying party is told {reported}"), 2000 + n);
                    }
                    if after != Some(reported) {
                        viol(&mut out, "reported counter differs from the value then held in the store", format!("{what}: reported {reported}, stored {after:?}"), 2000 + n);
                    }
                }
                (Err(_), Some(b)) => {
                    if after.map_or(true, |a| a < b) {
                        viol(&mut out, "stored counter became smaller after a failed assertion", format!("{what}: previous {b}, stored {after:?}"), 2000 + n);
                    }
                }
                _ => {}
            }
        }
        out.counters.push(("client_assertions".into(), client_ok));
    }
    out.counters.push(("assertions".into(), assertions));
    out.counters.push(("boundary_steps".into(), boundary));
    let cls = start_class(&h);
    if assertions >= 2 || cls.contains("near-max") {
        out.key = Some(fnv_str(&format!("{cls}|c{}|n{}|len{}|reg{}", h.counters_cfg, h.creds.len(), h.steps.len() / 10, h.register_first)));
    }
    out.sample = Some((cls, describe(args, idx).case));
    out
}

pub fn run(args: &Args) -> Report {
    let mut rep = Report::new(
        "C08",
        &args.tier,
        args.seed,
        "histories of 5-50 assertions interleaved over 2-5 credentials with and without counters, start values 0, 1, 9000, 2^31-1, 2^31, 2^32-3, 2^32-2, 2^32-1, with and without PRF requests and a fresh registration, over stores advertising each discoverability support, followed by 3-7 Client::authenticate ceremonies (userVerification x PRF request x hmac-secret configuration x stored secrets), executed in crash-isolating workers; distinct by (start-value classes, counter configuration, number of credentials, history length bucket, registration); non-trivial when at least two assertions succeeded or a boundary start value is involved",
    );
    let profile = args.engine.clone().unwrap_or_else(|| "native".to_string());
    rep.obs("arithmetic_profile", json!(if profile == "release" { "wrapping (release)" } else { "overflow-checking (verif)" }));
    let total = args.size(600, 20_000) as u64;
    let mut extra: Vec<(String, String)> = vec![];
    if let Some(e) = &args.engine {
        extra.push(("engine".into(), e.clone()));
    }
    let only = replay_index(args);
    let (start, end, workers) = match only {
        Some(o) => (o, o + 1, 1),
        None => (0, total, 16),
    };
    let res = run_isolated(&IsoCfg { prop: "c08".into(), tier: args.tier.clone(), seed: args.seed, start, total: end, workers, cpu_kill_s: 20.0, wall_idle_kill_s: 120.0, extra, exe: None, skip_after_hangs: None });
    rep.evaluations = res.ran;
    for k in &res.distinct_keys {
        rep.nontrivial(*k);
    }
    rep.merge_counters(&res.counters);
    for s in res.samples.iter().take(6) {
        rep.sample(s.clone());
    }
    rep.obs("worker_restarts", json!(res.restarts));
    for e in res.events {
        let sig = match e.kind.as_str() {
            "violation" => e.signature.clone(),
            _ => format!("crash during an assertion history: {}", e.signature),
        };
        rep.violate(&sig, e.detail.clone(), e.case.clone());
    }
    for i in res.inconclusive {
        rep.inconclusive(i);
    }
    if only.is_none() && (rep.get("assertions") == 0 || rep.get("boundary_steps") == 0) {
        rep.inconclusive("no assertion or no boundary step was observed".into());
    }
    rep
}
