//! C18 — the sealed CTAP2 API trait behaves exactly like the direct authenticator methods.
//! Differential monitor; every case runs in a crash-isolating worker (stack overflow / CPU budget).

use passkey_authenticator::{Authenticator, CredentialStore, Ctap2Api, MemoryStore};
use passkey_types::{ctap2, Passkey};
use serde_json::{json, Value};

use crate::{
    collab::{snap_passkey, CredSnap, Disc, RecUv, UvOutcome},
    exec::block_on,
    oracle::authdata,
    props::c02::replay_index,
    report::{hex_short, Report},
    rng::{fnv_str, Rng},
    util::{descriptor, ga_request, mc_request, mk_auth, pk_param, seeded_passkey, status_byte_ref, AuthCfg, HmacCfg, Rig},
    worker::{run_isolated, CaseDesc, CaseOut, IsoCfg},
    Args,
};

#[derive(Clone, Copy, Debug, PartialEq)]
enum OpKind {
    Info,
    Make,
    Get,
}
#[derive(Clone, Copy, Debug, PartialEq)]
enum StoreKind {
    Rec,
    Memory,
    Single,
}

struct Spec {
    op: OpKind,
    store: StoreKind,
    cfg: AuthCfg,
    disc: Disc,
    uv_outcome: UvOutcome,
    ver_cap: Option<bool>,
    rp: &'static str,
    n_seeded: usize,
    list: Option<Vec<usize>>, // indices into seeded creds, usize::MAX = unknown id
    algs: Vec<i64>,
    rk: bool,
    up: bool,
    uv: bool,
    prf: bool,
    pin_auth: bool,
    /// length of the client data hash (opaque to the authenticator)
    cdh_len: usize,
    /// makeCredential only: the plain hmac-secret request flag
    hmac_secret_flag: Option<bool>,
    /// pinProtocol member, independent of pinAuth
    pin_protocol: Option<u8>,
    /// list descriptors carry the type string "public-key" (0), an unknown one (1), alternating (2)
    list_types: u8,
    /// transports hints on list descriptors
    list_hints: bool,
    /// before this step the same kind of command is started on the same route and abandoned while the
    /// user is being asked (its future is dropped): a transport cancel, a timeout
    abandon_first: bool,
    /// entity display strings: 0 short, 1 a 100-character name, 2 thirty CJK characters, 3 absent / empty
    names: u8,
    /// reference store only: the first lookup / save / update of this step fails with this status byte
    /// (any byte: known, reserved, extension or vendor range)
    store_fault: Option<(u8, u8)>,
}

fn gen(seed: u64, idx: u64) -> Spec {
    let mut rng = Rng::derive(seed, "c18", idx);
    let op = match idx % 8 {
        0 => OpKind::Info,
        1 | 2 | 3 => OpKind::Make,
        _ => OpKind::Get,
    };
    let store = *rng.pick(&[StoreKind::Rec, StoreKind::Rec, StoreKind::Memory, StoreKind::Single]);
    Spec {
        op,
        store,
        cfg: AuthCfg { counters: rng.bool(), id_len: Some(*rng.pick(&[16u8, 32, 64])), hmac: *rng.pick(&[HmacCfg::None, HmacCfg::WithoutUv, HmacCfg::UvOnly]), hmac_mc: rng.bool(), transports: *rng.pick(&[0u8, 0, 1, 2, 3]), ..Default::default() },
        disc: *rng.pick(&[Disc::Full, Disc::Forced, Disc::OnlyNonDiscoverable]),
        uv_outcome: match rng.below(8) {
            0 => UvOutcome::Check { presence: true, verification: false },
            1 => UvOutcome::Err(0x27),
            2 => UvOutcome::Check { presence: false, verification: false },
            _ => UvOutcome::Check { presence: true, verification: true },
        },
        ver_cap: *rng.pick(&[Some(true), Some(true), Some(true), Some(false), None]),
        // an RP ID is an opaque string to the authenticator: also spellings a platform may hand over
        rp: *rng.pick(&["example.com", "example.org", "example.com", "example.org", "example.com.", "localhost.", "Example.COM", "example.com..", ".", ""]),
        n_seeded: if store == StoreKind::Single { 1 } else { rng.range(0, 3) },
        list: match rng.below(8) {
            // several held credentials named, in an order of the caller's choosing
            6 => Some(vec![2, 0, 1]),
            7 => Some(if rng.bool() { vec![1, 0] } else { vec![2, 1] }),
            0 => None,
            1 => Some(vec![]),
            2 => Some(vec![0]),
            3 => {
                // a request well above 1 KiB: dozens of unknown 32-byte ids, then a held one
                let mut v = vec![usize::MAX; rng.range(20, 45)];
                v.push(rng.below(3));
                Some(v)
            }
            _ => Some(vec![usize::MAX, rng.below(3)]),
        },
        algs: match rng.below(5) {
            0 => vec![-257],
            1 => vec![-257, -7],
            _ => vec![-7],
        },
        rk: rng.chance(1, 3),
        up: !rng.chance(1, 8),
        uv: rng.bool(),
        prf: rng.chance(1, 3),
        pin_auth: rng.chance(1, 12),
        cdh_len: *rng.pick(&[32usize, 32, 32, 32, 0, 1, 3, 4, 20, 48]),
        hmac_secret_flag: match rng.below(8) {
            0 => Some(true),
            1 => Some(false),
            _ => None,
        },
        pin_protocol: *rng.pick(&[None, None, None, None, Some(1u8), Some(2), Some(0)]),
        list_types: *rng.pick(&[0u8, 0, 0, 1, 2]),
        list_hints: rng.chance(1, 4),
        abandon_first: rng.chance(1, 6),
        names: *rng.pick(&[0u8, 0, 0, 1, 2, 3]),
        store_fault: if rng.chance(1, 6) { Some((rng.below(3) as u8, *rng.pick(&[0x07u8, 0x28, 0x2e, 0x45, 0x7e, 0x80, 0xdf, 0xe0, 0xf0, 0xff, 0x01, 0x06, 0x7f]))) } else { None },
    }
}

fn spec_json(s: &Spec) -> Value {
    json!({"op": format!("{:?}", s.op), "store": format!("{:?}", s.store), "config": s.cfg.json(), "capability": format!("{:?}", s.disc),
        "uv_outcome": format!("{:?}", s.uv_outcome), "verification_capability": s.ver_cap, "rp": s.rp, "seeded_credentials": s.n_seeded,
        "list": s.list, "algs": s.algs, "rk": s.rk, "up": s.up, "uv": s.uv, "prf": s.prf, "pin_auth": s.pin_auth, "client_data_hash_len": s.cdh_len, "hmac_secret_flag": s.hmac_secret_flag, "pin_protocol": s.pin_protocol, "list_descriptor_types": s.list_types, "list_transport_hints": s.list_hints, "a_command_is_abandoned_first": s.abandon_first, "entity_names": s.names, "store_fault": s.store_fault.map(|(k, c)| format!("{} fails with {c:#04x}", ["lookup", "save", "update"][usize::from(k)]))})
}

pub fn describe(args: &Args, idx: u64) -> CaseDesc {
    let s = gen(args.seed, idx);
    CaseDesc { decoder: format!("Ctap2Api::{}", match s.op { OpKind::Info => "get_info", OpKind::Make => "make_credential", OpKind::Get => "get_assertion" }), mutation: format!("store={:?}", s.store), case: spec_json(&s) }
}

fn seeded(s: &Spec, idx: u64) -> Vec<Passkey> {
    let mut rng = Rng::derive(17, "c18seed", idx);
    (0..s.n_seeded)
        .map(|k| {
            let hm = if s.cfg.hmac != HmacCfg::None && k % 2 == 0 { Some((rng.bytes(32), Some(rng.bytes(32)))) } else { None };
            let rp = if k == 2 { "example.org" } else { "example.com" };
            seeded_passkey(&mut rng, rp, &[0x50 + k as u8; 16], if k % 2 == 0 { Some(b"uh") } else { None }, if k % 2 == 0 { Some(5) } else { None }, hm).0
        })
        .collect()
}

/// comparable digest of a result plus the store afterwards
#[derive(Debug, PartialEq)]
struct Digest {
    status: Result<(), u8>,
    fields: Vec<(String, String)>,
    store: Vec<String>,
}

fn store_digest(snaps: &[CredSnap], known_ids: &[Vec<u8>]) -> Vec<String> {
    snaps
        .iter()
        .map(|c| {
            if known_ids.contains(&c.id) {
                format!("{}|{}|{:?}|{:?}|{}", hex_short(&c.id), c.rp_id, c.user_handle.as_ref().map(|h| hex_short(h)), c.counter, crate::rng::fnv(&c.key_cbor))
            } else {
                // a freshly created credential: compared modulo key and id
                format!("new|len{}|{}|{:?}|{:?}|hmac{}{}|d{}", c.id.len(), c.rp_id, c.user_handle.as_ref().map(|h| hex_short(h)), c.counter, c.hmac_uv.is_some(), c.hmac_no_uv.is_some(), c.d.is_some())
            }
        })
        .collect()
}

/// Run the whole sequence on one authenticator: the first step is `base`, the following ones reuse its
/// store / configuration; `flips[j]` changes the store capability before step j (reference store only).
#[allow(clippy::too_many_arguments)]
fn run_route<S>(base: &Spec, more: &[Spec], flips: &[Option<Disc>], store: S, via_trait: bool, snapshot: &dyn Fn(&Authenticator<S, RecUv>) -> Vec<CredSnap>, uv: RecUv, ids: &[Vec<u8>], set_disc: &dyn Fn(&mut Authenticator<S, RecUv>, Disc), set_fault: &dyn Fn(&mut Authenticator<S, RecUv>, Option<(u8, u8)>)) -> Vec<Digest>
where
    S: CredentialStore<PasskeyItem = Passkey> + Sync + Send,
{
    let uv_handle = uv.clone();
    let mut auth = mk_auth(store, uv, base.cfg);
    let mut out = Vec::new();
    for (j, s) in std::iter::once(base).chain(more.iter()).enumerate() {
        if let Some(Some(d)) = flips.get(j) {
            set_disc(&mut auth, *d);
        }
        if s.abandon_first && s.op != OpKind::Info {
            // start a command on this route, let it reach the user prompt, drop it
            uv_handle.set_yields(2);
            if s.op == OpKind::Make {
                let req = mc_request(s.rp, b"abandoned", &[1u8; 32], vec![pk_param(coset::iana::Algorithm::ES256)], None, None, false, true, false);
                if via_trait {
                    let _ = crate::exec::poll_n_then_drop(Ctap2Api::make_credential(&mut auth, req), 1);
                } else {
                    let _ = crate::exec::poll_n_then_drop(auth.make_credential(req), 1);
                }
            } else {
                let req = ga_request(s.rp, &[1u8; 32], None, None, true, false);
                if via_trait {
                    let _ = crate::exec::poll_n_then_drop(Ctap2Api::get_assertion(&mut auth, req), 1);
                } else {
                    let _ = crate::exec::poll_n_then_drop(auth.get_assertion(req), 1);
                }
            }
            uv_handle.set_yields(0);
        }
        set_fault(&mut auth, s.store_fault);
        out.push(run_step(s, &mut auth, via_trait, snapshot, ids));
    }
    out
}

fn run_step<S>(s: &Spec, auth: &mut Authenticator<S, RecUv>, via_trait: bool, snapshot: &dyn Fn(&Authenticator<S, RecUv>) -> Vec<CredSnap>, ids: &[Vec<u8>]) -> Digest
where
    S: CredentialStore<PasskeyItem = Passkey> + Sync + Send,
{
    let mut fields: Vec<(String, String)> = Vec::new();
    let status = match s.op {
        OpKind::Info => {
            let r = if via_trait { block_on(Ctap2Api::get_info(&*auth)) } else { block_on(auth.get_info()) };
            let mut b = Vec::new();
            ciborium::ser::into_writer(&r, &mut b).unwrap();
            fields.push(("info".into(), hex_short(&b)));
            fields.push(("info_debug".into(), format!("{r:?}")));
            Ok(())
        }
        OpKind::Make => {
            let exclude = s.list.as_ref().map(|l| l.iter().enumerate().map(|(n, i)| list_descriptor(s, n, ids.get(*i).map(|v| v.as_slice()).unwrap_or(&[0xEE; 32]))).collect());
            let ext = (s.prf || s.hmac_secret_flag.is_some()).then(|| ctap2::make_credential::ExtensionInputs {
                hmac_secret: s.hmac_secret_flag,
                hmac_secret_mc: None,
                prf: s.prf.then(|| ctap2::extensions::AuthenticatorPrfInputs { eval: Some(ctap2::extensions::AuthenticatorPrfValues { first: [4; 32], second: None }), eval_by_credential: None }),
            });
            let params = s.algs.iter().map(|a| { use coset::iana::EnumI64; pk_param(coset::iana::Algorithm::from_i64(*a).unwrap()) }).collect();
            let mut req = mc_request(s.rp, b"user-x", &vec![7u8; s.cdh_len], params, exclude, ext, s.rk, s.up, s.uv);
            match s.names {
                1 => {
                    req.rp.name = Some("r".repeat(100));
                    req.user.name = format!("{}@example.com", "u".repeat(100));
                    req.user.display_name = "d".repeat(100);
                }
                2 => {
                    req.rp.name = Some("\u{4f1a}\u{793e}".repeat(15));
                    req.user.name = "\u{540d}\u{524d}".repeat(15);
                    req.user.display_name = "\u{8868}\u{793a}\u{540d}".repeat(10);
                }
                3 => {
                    req.rp.name = None;
                    req.user.name = String::new();
                    req.user.display_name = String::new();
                }
                _ => {}
            }
            req.pin_protocol = s.pin_protocol;
            if s.pin_auth {
                req.pin_auth = Some(vec![1, 2].into());
            }
            let r = if via_trait { block_on(Ctap2Api::make_credential(&mut *auth, req)) } else { block_on(auth.make_credential(req)) };
            match r {
                Ok(resp) => {
                    let ad = authdata::decode(&resp.auth_data.to_vec());
                    if let Ok(ad) = ad {
                        fields.push(("flags".into(), format!("{:#04x}", ad.flags)));
                        fields.push(("rpIdHash".into(), hex_short(&ad.rp_id_hash)));
                        fields.push(("counter".into(), ad.counter.to_string()));
                        fields.push(("attested".into(), ad.attested.as_ref().map(|a| format!("aaguid {} idlen {} key {}", hex_short(&a.aaguid), a.cred_id.len(), key_shape(&a.key_bytes))).unwrap_or_default()));
                        fields.push(("ext".into(), format!("{:?}", ad.extensions)));
                    }
                    fields.push(("fmt".into(), resp.fmt.clone()));
                    fields.push(("attStmt".into(), format!("{:?}", resp.att_stmt)));
                    fields.push(("unsigned".into(), resp.unsigned_extension_outputs.as_ref().map(|u| format!("enabled {:?} results {}", u.prf.as_ref().map(|p| p.enabled), u.prf.as_ref().map_or(false, |p| p.results.is_some()))).unwrap_or_default()));
                    Ok(())
                }
                Err(e) => Err(status_byte_ref(&e)),
            }
        }
        OpKind::Get => {
            let allow = s.list.as_ref().map(|l| l.iter().enumerate().map(|(n, i)| list_descriptor(s, n, ids.get(*i).map(|v| v.as_slice()).unwrap_or(&[0xEE; 32]))).collect());
            let ext = s.prf.then(|| ctap2::get_assertion::ExtensionInputs {
                hmac_secret: None,
                // half of the PRF requests carry per-credential inputs naming the held credentials (with or
                // without default inputs next to them; with or without an allow list: the authenticator is
                // not entitled to assume the platform checked anything)
                prf: Some(ctap2::extensions::AuthenticatorPrfInputs {
                    eval: (s.names != 1).then_some(ctap2::extensions::AuthenticatorPrfValues { first: [4; 32], second: Some([5; 32]) }),
                    eval_by_credential: (s.names % 2 == 1 || s.list_hints).then(|| ids.iter().enumerate().map(|(n, i)| (i.clone().into(), ctap2::extensions::AuthenticatorPrfValues { first: [0x60 + n as u8; 32], second: None })).collect()),
                }),
            });
            let mut req = ga_request(s.rp, &vec![8u8; s.cdh_len], allow, ext, s.up, s.uv);
            req.pin_protocol = s.pin_protocol;
            if s.pin_auth {
                req.pin_auth = Some(vec![1, 2].into());
            }
            let r = if via_trait { block_on(Ctap2Api::get_assertion(&mut *auth, req)) } else { block_on(auth.get_assertion(req)) };
            match r {
                Ok(resp) => {
                    let bytes = resp.auth_data.to_vec();
                    fields.push(("authData".into(), hex_short(&bytes)));
                    // a credential created earlier in this sequence has a fresh random id and key on each
                    // route: it is compared modulo both (and so is its signature)
                    let fresh = resp.credential.as_ref().map_or(false, |c| !ids.iter().any(|i| i.as_slice() == c.id.as_slice()));
                    fields.push(("credential".into(), if fresh { "created-in-this-sequence".to_string() } else { resp.credential.as_ref().map(|c| hex_short(&c.id)).unwrap_or_default() }));
                    fields.push(("user".into(), resp.user.as_ref().map(|u| hex_short(&u.id)).unwrap_or_default()));
                    // RFC 6979: deterministic signature for the same key and message
                    fields.push(("signature".into(), if fresh { "signed with a fresh key".to_string() } else { hex_short(&resp.signature) }));
                    // PRF outputs of a fresh credential are keyed with fresh random secrets: presence only
                    fields.push(("unsigned".into(), if fresh { format!("prf results present: {:?}", resp.unsigned_extension_outputs.as_ref().map(|u| u.prf.as_ref().map(|p| p.results.second.is_some()))) } else { format!("{:?}", resp.unsigned_extension_outputs) }));
                    Ok(())
                }
                Err(e) => Err(status_byte_ref(&e)),
            }
        }
    };
    Digest { status, fields, store: store_digest(&snapshot(auth), ids) }
}

/// the follow-up steps of a sequence: same store / configuration as the base step, other requests
fn gen_more(seed: u64, idx: u64, base: &Spec) -> (Vec<Spec>, Vec<Option<Disc>>) {
    let mut rng = Rng::derive(seed, "c18seq", idx);
    // every eighth history is a longer run of ceremonies, most of them asking for user verification
    // (whatever the user did before, the next command is answered as the direct method answers it)
    let long = idx % 8 == 5;
    let n = if long { rng.range(3, 7) } else if idx % 3 == 0 { rng.range(1, 3) } else { 0 };
    let mut more = Vec::new();
    let mut flips: Vec<Option<Disc>> = vec![None];
    for j in 0..n {
        let mut s = gen(seed, idx * 16 + 1 + j as u64);
        s.op = *rng.pick(&[OpKind::Info, OpKind::Info, OpKind::Make, OpKind::Get]);
        if long {
            s.op = *rng.pick(&[OpKind::Make, OpKind::Get, OpKind::Get]);
            s.uv = !rng.chance(1, 6);
            s.pin_auth = false;
        }
        s.store = base.store;
        s.cfg = base.cfg;
        s.disc = base.disc;
        s.n_seeded = base.n_seeded;
        s.uv_outcome = base.uv_outcome;
        s.ver_cap = base.ver_cap;
        more.push(s);
        flips.push(if base.store == StoreKind::Rec && rng.bool() { Some(*rng.pick(&[Disc::Full, Disc::Forced, Disc::OnlyNonDiscoverable])) } else { None });
    }
    (more, flips)
}

pub fn iso_case(args: &Args, idx: u64) -> CaseOut {
    let s = gen(args.seed, idx);
    let (more, flips) = gen_more(args.seed, idx, &s);
    let creds = seeded(&s, idx);
    let ids: Vec<Vec<u8>> = creds.iter().map(|c| c.credential_id.to_vec()).collect();
    let mut out = CaseOut { class: format!("{:?}", s.op), ..Default::default() };
    let mut routes: Vec<Vec<Digest>> = Vec::new();
    let mut save_args: Vec<Vec<String>> = Vec::new();
    for via_trait in [false, true] {
        let rig = Rig::new(s.disc, s.uv_outcome, s.ver_cap);
        let d = match s.store {
            StoreKind::Rec => {
                for c in &creds {
                    rig.store.insert_raw(c.clone());
                }
                let h = rig.store.clone();
                let d = run_route(&s, &more, &flips, rig.store.clone(), via_trait, &move |_| h.snapshot(), rig.uv.clone(), &ids, &|a, d| a.store_mut().disc = d, &|a, f| {
                    a.store().clear_plan();
                    if let Some((k, code)) = f {
                        a.store().set_fault([crate::collab::Kind::Find, crate::collab::Kind::Save, crate::collab::Kind::Update][usize::from(k)], 0, code);
                    }
                });
                save_args.push(rig.log.snapshot().iter().filter_map(|e| if let crate::collab::Ev::Save { rp_entity, user_entity, names, rk, up, uv, .. } = &e.ev { Some(format!("rp {rp_entity:?} user {} names {names:?} options rk={rk} up={up} uv={uv}", hex_short(user_entity))) } else { None }).collect::<Vec<String>>());
                d
            }
            StoreKind::Memory => {
                let mut m = MemoryStore::new();
                for c in &creds {
                    m.insert(c.credential_id.to_vec(), c.clone());
                }
                run_route(&s, &more, &flips, m, via_trait, &|a| {
                    let mut v: Vec<CredSnap> = a.store().values().map(snap_passkey).collect();
                    v.sort_by(|x, y| x.id.cmp(&y.id));
                    v
                }, rig.uv.clone(), &ids, &|_, _| {}, &|_, _| {})
            }
            StoreKind::Single => run_route(&s, &more, &flips, creds.first().cloned(), via_trait, &|a| a.store().iter().map(snap_passkey).collect(), rig.uv.clone(), &ids, &|_, _| {}, &|_, _| {}),
        };
        routes.push(d);
    }
    let case = json!({"index": idx, "spec": spec_json(&s), "following_steps": more.iter().map(spec_json).collect::<Vec<_>>(), "capability_flips": flips.iter().map(|f| f.map(|d| format!("{d:?}"))).collect::<Vec<_>>()});
    if save_args.len() == 2 && save_args[0] != save_args[1] {
        let first = save_args[0].iter().zip(&save_args[1]).find(|(a, b)| a != b).map(|(a, b)| format!("direct {a} / trait {b}")).unwrap_or_else(|| format!("{} vs {} save calls", save_args[0].len(), save_args[1].len()));
        out.violations.push(("Ctap2Api::make_credential: effect on the store differs from the direct method (arguments handed to save_credential)".into(), first.chars().take(600).collect(), case.clone()));
    }
    let all: Vec<&Spec> = std::iter::once(&s).chain(more.iter()).collect();
    for (j, sp) in all.iter().enumerate() {
        let (direct, routed) = (&routes[0][j], &routes[1][j]);
        let opname = match sp.op { OpKind::Info => "get_info", OpKind::Make => "make_credential", OpKind::Get => "get_assertion" };
        let at = if j == 0 { String::new() } else { format!(" (step {} of a sequence on the same authenticator)", j + 1) };
        if direct.status != routed.status {
            out.violations.push((format!("Ctap2Api::{opname}: result status differs from the direct method{at}"), format!("direct {:?}, trait {:?}", direct.status, routed.status), case.clone()));
        } else if direct.fields != routed.fields {
            let diff: Vec<String> = direct.fields.iter().zip(&routed.fields).filter(|(a, b)| a != b).map(|(a, b)| format!("{}: direct {} / trait {}", a.0, a.1, b.1)).collect();
            out.violations.push((format!("Ctap2Api::{opname}: result differs from the direct method{at}"), diff.join("; "), case.clone()));
        }
        // new-credential records are compared modulo id and key; sort to be independent of map order
        let mut a = direct.store.clone();
        let mut b = routed.store.clone();
        a.sort();
        b.sort();
        if a != b {
            out.violations.push((format!("Ctap2Api::{opname}: effect on the store differs from the direct method{at}"), format!("direct {a:?} / trait {b:?}"), case.clone()));
        }
        out.counters.push((format!("compared:{opname}:{}", if direct.status.is_ok() { "ok" } else { "err" }), 1));
    }
    if !more.is_empty() {
        out.counters.push(("sequences_compared".into(), 1));
    }
    let direct = &routes[0][0];
    out.key = Some(fnv_str(&format!("{:?}|{:?}|{:?}|{:?}|{}|{}|{}|{:?}|{:?}|{}|{:?}", s.op, s.store, s.uv_outcome, s.list.as_ref().map(|l| l.len().min(5)), s.rk, s.uv, s.prf, direct.status, s.cfg.hmac, more.len(), flips)));
    let opname = match s.op { OpKind::Info => "get_info", OpKind::Make => "make_credential", OpKind::Get => "get_assertion" };
    out.sample = Some((format!("{opname}/{:?}/seq{}", s.store, more.len()), json!({"spec": spec_json(&s), "following_steps": more.len(), "direct_status": format!("{:?}", direct.status)})));
    out
}

/// Seconds a slow user takes to answer the prompt (an injected delay between two polls of the ceremony).
const SLOW_USER_SECS: u64 = 31;

/// One ceremony with a user who answers the prompt only after `SLOW_USER_SECS`: the ceremony is polled
/// once (it suspends in the user-validation step), left alone for that long, and then polled to the end.
/// Returns (status, number of credentials in the store afterwards, counter of the seeded credential).
fn slow_user_ceremony(make: bool, via_trait: bool) -> (Result<(), u8>, usize, Option<u32>) {
    use std::future::Future;
    let rig = crate::util::Rig::ok(Disc::Full);
    let id = vec![0x5Au8; 16];
    let mut rng = Rng::derive(3, "c18slow", 0);
    rig.store.insert_raw(seeded_passkey(&mut rng, "example.com", &id, Some(b"uh"), Some(5), None).0);
    rig.uv.set_yields(1);
    let mut auth = rig.auth(AuthCfg { counters: true, ..Default::default() });
    let status = {
        let mut fut: std::pin::Pin<Box<dyn Future<Output = Result<(), u8>>>> = if make {
            let req = mc_request("example.com", b"slow-user", &[1u8; 32], vec![pk_param(coset::iana::Algorithm::ES256)], None, None, false, true, true);
            if via_trait {
                Box::pin(async { Ctap2Api::make_credential(&mut auth, req).await.map(|_| ()).map_err(|e| status_byte_ref(&e)) })
            } else {
                Box::pin(async { auth.make_credential(req).await.map(|_| ()).map_err(|e| status_byte_ref(&e)) })
            }
        } else {
            let req = ga_request("example.com", &[2u8; 32], Some(vec![crate::util::descriptor(&id)]), None, true, true);
            if via_trait {
                Box::pin(async { Ctap2Api::get_assertion(&mut auth, req).await.map(|_| ()).map_err(|e| status_byte_ref(&e)) })
            } else {
                Box::pin(async { auth.get_assertion(req).await.map(|_| ()).map_err(|e| status_byte_ref(&e)) })
            }
        };
        let (_flag, waker) = crate::exec::flag_waker();
        let mut cx = std::task::Context::from_waker(&waker);
        match fut.as_mut().poll(&mut cx) {
            std::task::Poll::Ready(v) => v,
            std::task::Poll::Pending => {
                std::thread::sleep(std::time::Duration::from_secs(SLOW_USER_SECS));
                block_on(fut)
            }
        }
    };
    let snap = rig.store.snapshot();
    (status, snap.len(), snap.iter().find(|c| c.id == id).and_then(|c| c.counter))
}

pub fn run(args: &Args) -> Report {
    // a user who takes half a minute to answer: both routes, both ceremonies, in threads of their own
    // while the rest of the check runs (overflow-checking build only; one injected delay per run)
    let slow: Vec<std::thread::JoinHandle<(bool, bool, (Result<(), u8>, usize, Option<u32>))>> = if args.engine.is_none() && replay_index(args).is_none() && !cfg!(miri) {
        [(true, false), (true, true), (false, false), (false, true)].into_iter().map(|(make, via_trait)| std::thread::spawn(move || (make, via_trait, slow_user_ceremony(make, via_trait)))).collect()
    } else {
        Vec::new()
    };
    let mut rep = Report::new(
        "C18",
        &args.tier,
        args.seed,
        "getInfo / makeCredential / getAssertion requests (successful and failing: algorithm lists, exclude/allow lists, rk/up/uv, PRF, pin-auth) over the reference store, MemoryStore and Option<Passkey> with scripted user-validation outcomes, executed on two identically prepared authenticators - once through <Authenticator as Ctap2Api> and once directly - in crash-isolating workers, plus both ceremonies on both routes with a user who answers the prompt after 31 s (an injected delay between two polls); distinct by (operation, store, UV outcome, list, options, status); non-trivial when both routes executed to completion and were compared",
    );
    rep.assumptions.push("ECDSA signing is deterministic (RFC 6979), so assertion signatures of the two routes are compared byte for byte; registrations are compared modulo the fresh key and credential id".into());
    let total = args.size(1600, 30_000) as u64;
    let only = replay_index(args);
    let (start, end, workers) = match only {
        Some(o) => (o, o + 1, 1),
        None => (0, total, 16),
    };
    let res = run_isolated(&IsoCfg { prop: "c18".into(), tier: args.tier.clone(), seed: args.seed, start, total: end, workers, cpu_kill_s: 10.0, wall_idle_kill_s: 120.0, extra: vec![], exe: None, skip_after_hangs: None });
    rep.evaluations = res.ran;
    for k in &res.distinct_keys {
        rep.nontrivial(*k);
    }
    rep.merge_counters(&res.counters);
    for s in res.samples.iter().take(9) {
        rep.sample(s.clone());
    }
    rep.obs("worker_restarts", json!(res.restarts));
    for e in res.events {
        let sig = match e.kind.as_str() {
            "violation" => e.signature.clone(),
            "hang" => format!("trait-routed call does not terminate: {}", e.signature),
            _ => format!("trait-routed call crashes: {}", e.signature),
        };
        rep.violate(&sig, e.detail.clone(), e.case.clone());
    }
    for i in res.inconclusive {
        rep.inconclusive(i);
    }
    let mut slow_results = Vec::new();
    for h in slow {
        match h.join() {
            Ok(r) => slow_results.push(r),
            Err(_) => rep.violate("a ceremony with a slow user panicked", String::new(), json!({"part": "slow user"})),
        }
    }
    for make in [true, false] {
        let direct = slow_results.iter().find(|r| r.0 == make && !r.1).map(|r| &r.2);
        let through = slow_results.iter().find(|r| r.0 == make && r.1).map(|r| &r.2);
        if let (Some(d), Some(t)) = (direct, through) {
            rep.eval();
            rep.count("slow_user_ceremonies_compared");
            rep.nontrivial(fnv_str(&format!("slow|{make}")));
            let case = json!({"part": "the user answers the prompt after a pause", "pause_seconds": SLOW_USER_SECS, "op": if make { "make_credential" } else { "get_assertion" }});
            if d != t {
                rep.violate(&format!("Ctap2Api::{}: result or effect on the store differs from the direct method when the user takes a while to answer", if make { "make_credential" } else { "get_assertion" }), format!("(status, credentials stored, counter of the held credential): direct {d:?}, trait {t:?}"), case);
            }
        }
    }
    if only.is_none() && (rep.get("compared:get_assertion:ok") == 0 || rep.get("compared:make_credential:ok") == 0 || rep.get("compared:get_info:ok") == 0) && rep.violation_total() == 0 {
        rep.inconclusive("an operation was never compared on a successful request".into());
    }
    rep
}

/// Key type / algorithm / curve of a COSE key (the key material itself is fresh per registration and
/// is not compared between the two routes).
fn key_shape(bytes: &[u8]) -> String {
    match ciborium::de::from_reader::<ciborium::Value, _>(bytes) {
        Ok(ciborium::Value::Map(m)) => {
            let get = |label: i64| m.iter().find(|(k, _)| k.as_integer().map(i128::from) == Some(i128::from(label))).map(|(_, v)| format!("{v:?}")).unwrap_or_else(|| "-".into());
            format!("kty {} alg {} crv {}", get(1), get(3), get(-1))
        }
        _ => "undecodable".into(),
    }
}

fn list_descriptor(s: &Spec, n: usize, id: &[u8]) -> passkey_types::webauthn::PublicKeyCredentialDescriptor {
    let known = s.list_types == 0 || (s.list_types == 2 && n % 2 == 0);
    let d = crate::util::descriptor_typed(id, known);
    if s.list_hints {
        crate::props::cer::hinted(d)
    } else {
        d
    }
}
