//! C06 — private keys and PRF secrets never appear in anything handed back to callers.

use passkey_authenticator::U2fApi;
use passkey_types::{ctap2::Flags, u2f};
use serde_json::{json, Value};

use crate::{
    collab::CredSnap,
    exec::block_on,
    oracle::{self, authdata, taint::{self, Scanner, Secret}},
    props::{
        c02::replay_index,
        cer::{self, Op, Outcome, Step, World},
    },
    report::Report,
    rng::{fnv_str, Rng},
    worker::catch,
    Args,
};

fn secrets_of(snaps: &[CredSnap]) -> Vec<Secret> {
    let mut v = Vec::new();
    for (i, c) in snaps.iter().enumerate() {
        if let Some(d) = &c.d {
            v.push(Secret::new(&format!("private scalar of credential #{i} ({})", c.rp_id), d));
        }
        if let Some(h) = &c.hmac_uv {
            v.push(Secret::new(&format!("UV-gated PRF secret of credential #{i}"), h));
        }
        if let Some(h) = &c.hmac_no_uv {
            v.push(Secret::new(&format!("non-UV PRF secret of credential #{i}"), h));
        }
    }
    v
}

fn cbor_of<T: serde::Serialize>(v: &T) -> Vec<u8> {
    let mut out = Vec::new();
    let _ = ciborium::ser::into_writer(v, &mut out);
    out
}

struct Render {
    kind: String,
    bytes: Vec<u8>,
}

fn renderings(st: &Step) -> Vec<Render> {
    let mut r = Vec::new();
    let mut push = |kind: &str, bytes: Vec<u8>| r.push(Render { kind: kind.to_string(), bytes });
    match st.outcome {
        Outcome::Reg(Ok(c)) => {
            push("register/json", serde_json::to_vec(c).unwrap_or_default());
            push("register/debug", format!("{c:?}").into_bytes());
            push("register/debug-pretty", format!("{c:#?}").into_bytes());
            push("register/cbor", cbor_of(c));
        }
        Outcome::Auth(Ok(c)) => {
            push("authenticate/json", serde_json::to_vec(c).unwrap_or_default());
            push("authenticate/debug", format!("{c:?}").into_bytes());
            push("authenticate/cbor", cbor_of(c));
        }
        Outcome::Reg(Err(e)) | Outcome::Auth(Err(e)) => {
            push("webauthn-error/debug", format!("{e:?}").into_bytes());
            push("webauthn-error/json", serde_json::to_vec(e).unwrap_or_default());
        }
        Outcome::Make(Ok(resp)) => {
            push("make_credential/cbor", cbor_of(resp));
            push("make_credential/debug", format!("{resp:?}").into_bytes());
            push("make_credential/debug-pretty", format!("{resp:#?}").into_bytes());
            push("make_credential/authdata", resp.auth_data.to_vec());
        }
        Outcome::Get(Ok(resp)) => {
            push("get_assertion/cbor", cbor_of(resp));
            push("get_assertion/debug", format!("{resp:?}").into_bytes());
            push("get_assertion/authdata", resp.auth_data.to_vec());
        }
        Outcome::Make(Err(e)) | Outcome::Get(Err(e)) => push("ctap-status/debug", format!("{e:?}").into_bytes()),
    }
    for d in st.after_debug {
        push("stored-passkey/debug", d.clone().into_bytes());
    }
    for d in st.after_spki {
        push("stored-key/public_key_der_from_cose_key", d.clone());
    }
    r
}

fn scan_all(rep: &mut Report, secrets: &[Secret], renders: &[Render], case: &Value) {
    for r in renders {
        rep.eval();
        let mut sc = Scanner::new(secrets);
        sc.scan(&r.bytes, &r.kind, 6);
        rep.count_n("buffers_scanned", sc.stats.buffers as u64);
        rep.count_n("decoded_layers", sc.stats.decoded_layers as u64);
        rep.count(&format!("rendering:{}", r.kind));
        if sc.stats.long_byte_strings > 0 && !secrets.is_empty() {
            rep.nontrivial(fnv_str(&format!("{}|{}", r.kind, crate::rng::fnv(&r.bytes) % 4096)));
        }
        if let Some(hit) = sc.hit {
            let mut c = case.clone();
            c["rendering"] = json!(r.kind);
            rep.violate(&format!("secret material in {}", r.kind), hit, c);
        }
    }
}

/// Everything the library draws at random is fresh: a credential id never repeats 16 bytes of a secret
/// stored with any credential this process has seen (and no new secret repeats 16 bytes of an earlier id).
/// One registry for the whole run, across histories - the material need not belong to the same ceremony,
/// store or authenticator.
fn fresh_random_material(rep: &mut Report, before: &[CredSnap], after: &[CredSnap], case: &Value) {
    use std::collections::HashSet;
    use std::sync::{Mutex, OnceLock};
    static SECRET_WINDOWS: OnceLock<Mutex<HashSet<[u8; 16]>>> = OnceLock::new();
    static ID_WINDOWS: OnceLock<Mutex<HashSet<[u8; 16]>>> = OnceLock::new();
    let windows = |b: &[u8]| -> Vec<[u8; 16]> { b.windows(16).map(|w| <[u8; 16]>::try_from(w).unwrap()).collect() };
    let mut sw = SECRET_WINDOWS.get_or_init(Default::default).lock().unwrap();
    let mut iw = ID_WINDOWS.get_or_init(Default::default).lock().unwrap();
    for c in after.iter().filter(|a| !before.iter().any(|b| b.id == a.id)) {
        // only material the library drew itself: credentials created by a ceremony
        let secrets: Vec<&Vec<u8>> = [c.hmac_uv.as_ref(), c.hmac_no_uv.as_ref(), c.d.as_ref()].into_iter().flatten().collect();
        rep.count("fresh_material_checked");
        if windows(&c.id).iter().any(|w| sw.contains(w)) {
            rep.violate("a new credential id repeats 16 bytes of a secret stored with a credential", format!("credential id {}", crate::report::hex_short(&c.id)), case.clone());
        }
        for s in &secrets {
            if windows(s).iter().any(|w| iw.contains(w) || sw.contains(w)) {
                rep.violate("a new secret repeats 16 bytes of an earlier credential id or secret", format!("credential {}", crate::report::hex_short(&c.id)), case.clone());
            }
        }
        for w in windows(&c.id) {
            iw.insert(w);
        }
        for s in secrets {
            for w in windows(s) {
                sw.insert(w);
            }
        }
    }
}

fn monitor(rep: &mut Report, history: u64, st: &Step) {
    // secrets as read back from the store after the ceremony (plus those that were there before)
    let mut all: Vec<CredSnap> = st.after.to_vec();
    for b in st.before {
        if !all.contains(b) {
            all.push(b.clone());
        }
    }
    let secrets = secrets_of(&all);
    rep.count_n("live_secrets", secrets.len() as u64);
    let case = json!({"index": history, "step": st.index, "op": st.op.json(), "config": st.cfg.json()});
    let mut renders = renderings(st);
    // whatever the library logged during this step (a sink logger is installed, see logsink.rs)
    for line in crate::logsink::drain() {
        renders.push(Render { kind: "log-line".into(), bytes: line.into_bytes() });
    }
    scan_all(rep, &secrets, &renders, &case);
    fresh_random_material(rep, st.before, st.after, &case);
    // attested key labels
    let ad_bytes: Option<Vec<u8>> = match st.outcome {
        Outcome::Reg(Ok(c)) => Some(c.response.authenticator_data.to_vec()),
        Outcome::Make(Ok(r)) => Some(r.auth_data.to_vec()),
        _ => None,
    };
    if let Some(b) = ad_bytes {
        if let Ok(ad) = authdata::decode(&b) {
            if let Some(at) = ad.attested {
                if let Some(m) = at.key.as_map() {
                    let labels: Vec<i128> = m.iter().filter_map(|(k, _)| oracle::cbor_int(k)).collect();
                    rep.count("attested_keys_checked");
                    if labels.len() != m.len() || labels.iter().any(|l| ![1, 3, -1, -2, -3].contains(l)) {
                        rep.violate("attested public key carries non-public parameters", format!("labels {labels:?}"), case.clone());
                    }
                }
            }
        }
    }
    if matches!(st.op, Op::Register(_)) && st.outcome.is_ok() {
        if let Some(r) = renders.first() {
            rep.sample_class(&r.kind, json!({"op": st.op.json(), "rendering": r.kind, "bytes": r.bytes.len(), "secrets_live": secrets.len()}));
        }
    }
}

fn u2f_workload(rep: &mut Report, seed: u64, n: usize) {
    for k in 0..n as u64 {
        let mut rng = Rng::derive(seed, "c06-u2f", k);
        let rig = crate::util::Rig::ok(crate::collab::Disc::Full);
        let mut auth = rig.auth(Default::default());
        let app = rng.arr32();
        let handle = rng.bytes(*rng.clone().pick(&[0usize, 0, 1, 16, 32, 48, 64, 255]));
        let case = json!({"index": 1_000_000 + k, "op": "u2f"});
        let reg = catch(|| block_on(auth.register(u2f::RegisterRequest { challenge: rng.arr32(), application: app }, &handle)));
        let Ok(Ok(resp)) = reg else { continue };
        let enc = resp.encode();
        let secrets = secrets_of(&rig.store.snapshot());
        let mut renders = vec![Render { kind: "u2f-register/encoded".into(), bytes: enc }];
        let areq = u2f::AuthenticationRequest { parameter: u2f::AuthenticationParameter::EnforceUserPresence, challenge: rng.arr32(), application: app, key_handle: handle.clone() };
        if let Ok(Ok(a)) = catch(|| block_on(auth.authenticate(areq, 7, Flags::UP))) {
            renders.push(Render { kind: "u2f-authenticate/encoded".into(), bytes: a.encode() });
        }
        for p in rig.store.passkeys() {
            renders.push(Render { kind: "stored-passkey/debug".into(), bytes: format!("{p:?} {p:#?}").into_bytes() });
        }
        scan_all(rep, &secrets, &renders, &case);
    }
}

/// Credentials that did not come from this library's make_credential (imported, written by another
/// implementation): PRF secrets of other lengths than 32 bytes. Whatever comes back from an assertion
/// with them - a response, a status, or the message of a panic - is scanned like any other output.
fn imported_credentials(rep: &mut Report, seed: u64, n: usize) {
    use passkey_types::ctap2;
    for k in 0..n as u64 {
        let mut rng = Rng::derive(seed, "c06-imp", k);
        let rig = crate::util::Rig::ok(crate::collab::Disc::Full);
        let l1 = *rng.pick(&[16usize, 31, 32, 33, 48, 64]);
        let l2 = *rng.pick(&[0usize, 16, 32, 40]);
        let id = rng.bytes(16);
        let hm = Some((rng.bytes(l1), if l2 == 0 { None } else { Some(rng.bytes(l2)) }));
        let (mut pk, _, _) = crate::util::seeded_passkey(&mut rng, "example.com", &id, Some(b"u"), Some(1), hm);
        // ... and COSE keys that are legal but not shaped as this library writes them
        let key_shape = rng.below(6);
        match key_shape {
            1 => {
                pk.key.key_ops.insert(coset::KeyOperation::Assigned(coset::iana::KeyOperation::Sign));
            }
            2 => pk.key.key_id = vec![1, 2, 3],
            3 => pk.key.params.reverse(),
            4 => pk.key.params.push((coset::Label::Int(-70_000), ciborium::Value::Text("vendor".into()))),
            5 => pk.key.base_iv = vec![9; 8],
            _ => {}
        }
        rig.store.insert_raw(pk);
        let uv = rng.bool();
        rig.uv.set_outcome(crate::collab::UvOutcome::Check { presence: true, verification: uv });
        let mut auth = rig.auth(crate::util::AuthCfg { hmac: crate::util::HmacCfg::WithoutUv, ..Default::default() });
        let case = json!({"index": 2_000_000 + k, "op": "assertion with an imported credential", "prf_secret_lengths": [l1, l2], "user_verified": uv, "cose_key_shape": (["as written by the library", "key_ops=[sign]", "kid", "parameters reversed", "extra vendor parameter", "base IV"][key_shape])});
        let ext = ctap2::get_assertion::ExtensionInputs {
            hmac_secret: None,
            prf: Some(ctap2::extensions::AuthenticatorPrfInputs { eval: Some(ctap2::extensions::AuthenticatorPrfValues { first: rng.arr32(), second: rng.bool().then(|| [7u8; 32]) }), eval_by_credential: None }),
        };
        let secrets = secrets_of(&rig.store.snapshot());
        let req = crate::util::ga_request("example.com", &rng.bytes(32), Some(vec![crate::util::descriptor(&id)]), Some(ext), true, uv);
        let mut renders = Vec::new();
        match catch(|| block_on(auth.get_assertion(req))) {
            Ok(Ok(resp)) => {
                rep.count("imported_assertions_ok");
                renders.push(Render { kind: "get_assertion/cbor".into(), bytes: cbor_of(&resp) });
                renders.push(Render { kind: "get_assertion/debug".into(), bytes: format!("{resp:?}").into_bytes() });
            }
            Ok(Err(e)) => renders.push(Render { kind: "ctap-status/debug".into(), bytes: format!("{e:?}").into_bytes() }),
            Err((sig, d)) => {
                rep.count("imported_assertions_panicked");
                renders.push(Render { kind: "panic-message".into(), bytes: format!("{sig} {d}").into_bytes() });
            }
        }
        for line in crate::logsink::drain() {
            renders.push(Render { kind: "log-line".into(), bytes: line.into_bytes() });
        }
        scan_all(rep, &secrets, &renders, &case);
    }
}

/// Ceremonies over a store one of whose calls fails once (busy, locked, a rejected id) and succeeds when
/// asked again: whatever comes back - response, status, panic message - is scanned for every secret the
/// store holds afterwards.
fn ceremonies_over_a_store_that_fails_once(rep: &mut Report, seed: u64, n: usize) {
    use crate::collab::Kind;
    for k in 0..n as u64 {
        let mut rng = Rng::derive(seed, "c06-fault", k);
        let rig = crate::util::Rig::ok(*rng.pick(&[crate::collab::Disc::Full, crate::collab::Disc::Forced, crate::collab::Disc::OnlyNonDiscoverable]));
        let id = rng.bytes(16);
        let hm = Some((rng.bytes(32), Some(rng.bytes(32))));
        let (pk, _, _) = crate::util::seeded_passkey(&mut rng, "example.com", &id, Some(b"u"), Some(1), hm);
        rig.store.insert_raw(pk);
        let kind = *rng.pick(&[Kind::Save, Kind::Save, Kind::Find, Kind::Update]);
        let nth = rng.below(2);
        let code = *rng.pick(&[0x01u8, 0x06, 0x27, 0x28, 0x2E, 0x30, 0x7F, 0xE0, 0xF2, 0xFF]);
        rig.store.set_fault(kind, nth, code);
        let make = kind == Kind::Save || rng.bool();
        let rk = rng.bool();
        let mut auth = rig.auth(crate::util::AuthCfg { counters: rng.bool(), hmac: *rng.pick(&[crate::util::HmacCfg::None, crate::util::HmacCfg::WithoutUv]), ..Default::default() });
        let case = json!({"index": 3_000_000 + k, "op": if make { "registration over a store that fails once" } else { "assertion over a store that fails once" }, "failing_call": format!("{kind:?} #{nth}"), "status": code, "rk": rk});
        let mut renders = Vec::new();
        if make {
            let req = crate::util::mc_request("example.com", b"new-user", &rng.bytes(32), vec![crate::util::pk_param(coset::iana::Algorithm::ES256)], if rng.bool() { Some(vec![crate::util::descriptor(&[9u8; 16])]) } else { None }, None, rk, true, true);
            match catch(|| block_on(auth.make_credential(req))) {
                Ok(Ok(resp)) => {
                    rep.count("fail_once_registrations_ok");
                    renders.push(Render { kind: "make_credential/cbor".into(), bytes: cbor_of(&resp) });
                    renders.push(Render { kind: "make_credential/debug".into(), bytes: format!("{resp:?}").into_bytes() });
                    renders.push(Render { kind: "make_credential/authdata".into(), bytes: resp.auth_data.to_vec() });
                }
                Ok(Err(e)) => {
                    rep.count("fail_once_registrations_refused");
                    renders.push(Render { kind: "ctap-status/debug".into(), bytes: format!("{e:?}").into_bytes() })
                }
                Err((sig, d)) => renders.push(Render { kind: "panic-message".into(), bytes: format!("{sig} {d}").into_bytes() }),
            }
        } else {
            let req = crate::util::ga_request("example.com", &rng.bytes(32), Some(vec![crate::util::descriptor(&id)]), None, true, true);
            match catch(|| block_on(auth.get_assertion(req))) {
                Ok(Ok(resp)) => {
                    rep.count("fail_once_assertions_ok");
                    renders.push(Render { kind: "get_assertion/cbor".into(), bytes: cbor_of(&resp) });
                    renders.push(Render { kind: "get_assertion/debug".into(), bytes: format!("{resp:?}").into_bytes() });
                }
                Ok(Err(e)) => {
                    rep.count("fail_once_assertions_refused");
                    renders.push(Render { kind: "ctap-status/debug".into(), bytes: format!("{e:?}").into_bytes() })
                }
                Err((sig, d)) => renders.push(Render { kind: "panic-message".into(), bytes: format!("{sig} {d}").into_bytes() }),
            }
        }
        for line in crate::logsink::drain() {
            renders.push(Render { kind: "log-line".into(), bytes: line.into_bytes() });
        }
        let secrets = secrets_of(&rig.store.snapshot());
        scan_all(rep, &secrets, &renders, &case);
    }
}

pub fn run(args: &Args) -> Report {
    let mut rep = Report::new(
        "C06",
        &args.tier,
        args.seed,
        "every value handed back in seeded ceremony histories (WebAuthn credentials, CTAP2 responses, errors, authenticator info, U2F responses, Debug of stored passkeys, the SubjectPublicKeyInfo the public helper derives from a stored key, lines the library logs to an installed logger) and whatever an assertion with an imported credential (PRF secrets of 16-64 bytes) yields, and whatever registrations and assertions yield over a store one of whose calls fails once, a panic message included, rendered to JSON, CBOR and Debug text and scanned, with recursive decoding, for every secret read back from the store; distinct by (rendering kind, content hash bucket); non-trivial when the value contains at least one byte string of 32 bytes or more while at least one secret is live",
    );
    rep.assumptions.push("PRF outputs are HMACs of a secret, not the secret; chance collisions of random 32-byte values are ignored".into());
    match taint::self_test() {
        Ok(n) => rep.obs("scanner_self_test_forms", json!(n)),
        Err(e) => {
            rep.inconclusive(e);
            return rep;
        }
    }
    let n = args.size(300, 6000);
    let only = replay_index(args);
    for h in 0..n as u64 {
        if let Some(o) = only {
            if o != h {
                continue;
            }
        }
        let mut rng = Rng::derive(args.seed, "c06", h);
        let (mut cfg, disc, ve) = cer::gen_cfg(&mut rng);
        // PRF secrets only exist with the capability: make it common
        if rng.chance(2, 3) && cfg.hmac == crate::util::HmacCfg::None {
            cfg.hmac = crate::util::HmacCfg::WithoutUv;
        }
        let hl = rng.range(2, 12);
        let ops = cer::gen_history(&mut rng, hl, 50);
        let res = catch(|| {
            let mut w = World::new(cfg, disc, ve);
            for (i, op) in ops.iter().enumerate() {
                w.step(i, op, &mut |st| monitor(&mut rep, h, st));
            }
            // authenticator info
            let info = block_on(w.client.authenticator().get_info());
            let secrets = secrets_of(&w.rig.store.snapshot());
            let renders = vec![
                Render { kind: "get_info/cbor".into(), bytes: cbor_of(&info) },
                Render { kind: "get_info/debug".into(), bytes: format!("{info:?}").into_bytes() },
            ];
            scan_all(&mut rep, &secrets, &renders, &json!({"index": h, "op": "get_info"}));
        });
        if let Err((sig, d)) = res {
            rep.violate(&format!("ceremony {sig}"), d, json!({"index": h}));
        }
    }
    if only.map_or(true, |o| o >= 1_000_000) {
        u2f_workload(&mut rep, args.seed, args.size(60, 1500));
        imported_credentials(&mut rep, args.seed, args.size(120, 3000));
        ceremonies_over_a_store_that_fails_once(&mut rep, args.seed, args.size(120, 3000));
    }
    if only.is_none() && (rep.get("live_secrets") == 0 || rep.get("rendering:register/json") == 0 || rep.get("rendering:get_assertion/cbor") == 0) {
        rep.inconclusive("no live secret / no registration or assertion rendering was scanned".into());
    }
    rep
}
