//! C14 — WebAuthn JSON parses leniently, re-parses when emitted, client data keeps order.

use indexmap::IndexMap;
use passkey_types::{
    encoding,
    webauthn::{
        AuthenticatedPublicKeyCredential, ClientDataType, CollectedClientData, CreatedPublicKeyCredential, CredentialCreationOptions, CredentialRequestOptions,
    },
    Bytes,
};
use serde::Serialize;
use serde_json::{json, Map, Value};

use crate::{
    oracle,
    props::{
        c02::replay_index,
        cer::{self, Op, Outcome, World},
    },
    report::Report,
    rng::{fnv, Rng},
    worker::catch,
    Args,
};

// ---------------------------------------------------------------------------------------------
// generated option documents
// ---------------------------------------------------------------------------------------------

#[derive(Clone, Debug)]
struct Desc {
    id: Vec<u8>,
    transports: Option<Vec<&'static str>>,
}

#[derive(Clone, Debug)]
pub(crate) struct Doc {
    creation: bool,
    rp_id: Option<String>,
    user_id: Vec<u8>,
    challenge: Vec<u8>,
    algs: Vec<i64>,
    timeout: Option<u32>,
    creds: Option<Vec<Desc>>,
    selection: Option<(Option<&'static str>, Option<&'static str>, Option<bool>, Option<&'static str>)>,
    hints: Option<Vec<&'static str>>,
    attestation: Option<&'static str>,
    formats: Option<Vec<&'static str>>,
    user_verification: Option<&'static str>,
    cred_props: Option<bool>,
    prf: Option<(Vec<u8>, Option<Vec<u8>>)>,
}

pub(crate) fn gen_doc(rng: &mut Rng, creation: bool) -> Doc {
    let tr = ["usb", "nfc", "ble", "hybrid", "internal"];
    let gen_descs = |rng: &mut Rng| -> Vec<Desc> {
        (0..rng.range(0, 3))
            .map(|_| Desc {
                id: rng.bytes(*rng.clone().pick(&[0usize, 1, 16, 33, 64])),
                transports: if rng.bool() { Some((0..rng.range(0, 3)).map(|_| tr[rng.below(5)]).collect()) } else { None },
            })
            .collect()
    };
    Doc {
        creation,
        rp_id: if rng.bool() { Some("example.com".into()) } else { None },
        user_id: rng.bytes(*rng.clone().pick(&[0usize, 1, 2, 16, 31, 64])),
        challenge: rng.bytes(*rng.clone().pick(&[0usize, 1, 2, 3, 16, 32, 100, 32, 16, 4096, 4097, 5000])),
        algs: (0..rng.range(0, 4)).map(|_| *rng.pick(&[-7i64, -257, -8, -35, -36, -37])).collect(),
        timeout: if rng.bool() { Some(*rng.pick(&[0u32, 1, 1800, 60_000, 300_000, 4_000_000_000, 16_777_217, 18_000_001, 604_800_123, u32::MAX, u32::MAX - 1])) } else { None },
        creds: if rng.bool() { Some(gen_descs(rng)) } else { None },
        selection: if creation && rng.bool() {
            Some((
                *rng.pick(&[None, Some("platform"), Some("cross-platform")]),
                *rng.pick(&[None, Some("discouraged"), Some("preferred"), Some("required")]),
                *rng.pick(&[None, Some(true), Some(false)]),
                *rng.pick(&[None, Some("required"), Some("preferred"), Some("discouraged")]),
            ))
        } else {
            None
        },
        hints: if rng.bool() { Some((0..rng.range(0, 3)).map(|_| *rng.pick(&["security-key", "client-device", "hybrid"])).collect()) } else { None },
        attestation: *rng.pick(&[None, Some("none"), Some("indirect"), Some("direct"), Some("enterprise")]),
        formats: if rng.chance(1, 3) { Some((0..rng.range(0, 3)).map(|_| *rng.pick(&["packed", "tpm", "android-key", "android-safetynet", "fido-u2f", "apple", "none"])).collect()) } else { None },
        user_verification: if creation { None } else { *rng.pick(&[None, Some("required"), Some("preferred"), Some("discouraged")]) },
        cred_props: if rng.chance(1, 3) { Some(rng.bool()) } else { None },
        prf: if rng.chance(1, 3) { Some((rng.bytes(*rng.clone().pick(&[0usize, 5, 32])), if rng.bool() { Some(rng.bytes(32)) } else { None })) } else { None },
    }
}

/// How to present each kind of member.
#[derive(Clone, Copy, Debug, PartialEq)]
pub(crate) enum Bin {
    Array,
    Url,
    UrlPad,
    Std,
    StdPad,
    /// base64url whose last symbol has its unused low bits set (text a relying party generated as a
    /// random url-safe string rather than by encoding bytes)
    UrlSpareBits,
}
#[derive(Clone, Copy, Debug, PartialEq)]
pub(crate) enum Num {
    Number,
    Str,
    Float,
    FloatStr,
}

#[derive(Clone, Copy, Debug)]
pub(crate) struct Present {
    pub bin: Bin,
    pub num: Num,
    /// inject unknown members at every object level
    pub unknown_members: bool,
    /// inject unknown enumeration strings (and unknown list entries)
    pub unknown_enums: bool,
    /// use the alias `allowList` / `cable`
    pub aliases: bool,
}

fn bin(b: &[u8], p: Bin) -> Value {
    match p {
        Bin::Array => json!(b),
        Bin::Url => json!(oracle::b64url(b)),
        Bin::UrlPad => json!(oracle::b64url_padded(b)),
        Bin::UrlSpareBits => json!(oracle::b64url_spare_bits_set(b)),
        Bin::Std => json!(oracle::b64std(b)),
        Bin::StdPad => json!(oracle::b64std_padded(b)),
    }
}
fn num(n: i64, p: Num) -> Value {
    match p {
        Num::Number => json!(n),
        Num::Str => json!(n.to_string()),
        Num::Float => serde_json::Number::from_f64(n as f64).map(Value::Number).unwrap_or(json!(n)),
        Num::FloatStr => json!(format!("{n}.0")),
    }
}

/// Placeholders for unknown-member values a `serde_json::Value` cannot hold; `finish_text` puts the
/// JSON text in their place.
const HUGE_NUMBER: &str = "@@a-number-beyond-the-f64-range@@";
const DEEP_NESTING: &str = "@@two-hundred-nested-arrays@@";

pub(crate) fn finish_text(text: String) -> String {
    let deep = format!("{}{}", "[".repeat(200), "]".repeat(200));
    text.replace(&format!("\"{HUGE_NUMBER}\""), "-1E+400").replace(&format!("\"{DEEP_NESTING}\""), &deep)
}

fn unknown_value(rng: &mut Rng) -> Value {
    match rng.below(6) {
        4 => json!(HUGE_NUMBER),
        5 => json!({"limit": DEEP_NESTING, "more": [HUGE_NUMBER]}),
        0 => json!(null),
        1 => json!({"nested": [1, "two", {"three": 3.5}]}),
        2 => json!("string"),
        _ => json!([[], {}]),
    }
}

pub(crate) fn render(d: &Doc, p: &Present, rng: &mut Rng) -> Value {
    let mut pk = Map::new();
    let inject = |m: &mut Map<String, Value>, rng: &mut Rng, name: &str| {
        if p.unknown_members {
            m.insert(format!("x{name}Unknown"), unknown_value(rng));
        }
    };
    let descs = |list: &Vec<Desc>, rng: &mut Rng| -> Value {
        let mut out = Vec::new();
        for x in list {
            let mut m = Map::new();
            inject(&mut m, rng, "desc");
            m.insert("type".into(), json!("public-key"));
            m.insert("id".into(), bin(&x.id, p.bin));
            if let Some(t) = &x.transports {
                let mut ts: Vec<Value> = t.iter().map(|s| if p.aliases && *s == "hybrid" { json!("cable") } else { json!(s) }).collect();
                if p.unknown_enums {
                    ts.insert(rng.below(ts.len() + 1), json!("smoke-signal"));
                }
                m.insert("transports".into(), json!(ts));
            }
            out.push(Value::Object(m));
        }
        json!(out)
    };
    inject(&mut pk, rng, "pk");
    if d.creation {
        let mut rp = Map::new();
        if let Some(id) = &d.rp_id {
            rp.insert("id".into(), json!(id));
        }
        rp.insert("name".into(), json!("Example RP"));
        inject(&mut rp, rng, "rp");
        pk.insert("rp".into(), Value::Object(rp));
        let mut user = Map::new();
        user.insert("id".into(), bin(&d.user_id, p.bin));
        user.insert("displayName".into(), json!("D\u{e9}sir\u{e9}e"));
        inject(&mut user, rng, "user");
        user.insert("name".into(), json!("desiree"));
        pk.insert("user".into(), Value::Object(user));
    } else if let Some(id) = &d.rp_id {
        pk.insert("rpId".into(), json!(id));
    }
    pk.insert("challenge".into(), bin(&d.challenge, p.bin));
    if d.creation {
        let mut params: Vec<Value> = d
            .algs
            .iter()
            .map(|a| {
                let mut m = Map::new();
                m.insert("type".into(), json!("public-key"));
                m.insert("alg".into(), num(*a, p.num));
                inject(&mut m, rng, "param");
                Value::Object(m)
            })
            .collect();
        if p.unknown_enums {
            // an entry with an algorithm number nobody knows: the entry is dropped
            // (also identifiers beyond the signed 64-bit range, as a server that keeps them in an
            // unsigned field writes them)
            let unknown_alg: Value = match rng.below(6) {
                0 => json!(18_446_744_073_709_551_609u64),
                1 => json!(18_446_744_073_709_551_359u64),
                2 => json!(*rng.pick(&[u64::MAX, 1u64 << 63, (1u64 << 63) - 1, u64::MAX - 7])),
                3 => json!(65_000),
                _ => json!(-65000),
            };
            params.insert(rng.below(params.len() + 1), json!({"type": "public-key", "alg": unknown_alg}));
        }
        pk.insert("pubKeyCredParams".into(), json!(params));
    }
    if let Some(t) = d.timeout {
        pk.insert("timeout".into(), num(i64::from(t), p.num));
    }
    if let Some(c) = &d.creds {
        let key = if d.creation { "excludeCredentials" } else if p.aliases { "allowList" } else { "allowCredentials" };
        pk.insert(key.into(), descs(c, rng));
    }
    if let Some((att, rk, req, uv)) = &d.selection {
        let mut m = Map::new();
        if let Some(a) = att {
            m.insert("authenticatorAttachment".into(), json!(a));
        } else if p.unknown_enums {
            m.insert("authenticatorAttachment".into(), json!("telepathic"));
        }
        if let Some(r) = rk {
            m.insert("residentKey".into(), json!(r));
        } else if p.unknown_enums {
            m.insert("residentKey".into(), json!("sometimes"));
        }
        if let Some(r) = req {
            m.insert("requireResidentKey".into(), json!(r));
        }
        if let Some(u) = uv {
            m.insert("userVerification".into(), json!(u));
        } else if p.unknown_enums {
            m.insert("userVerification".into(), json!("optional"));
        }
        inject(&mut m, rng, "sel");
        pk.insert("authenticatorSelection".into(), Value::Object(m));
    }
    if let Some(h) = &d.hints {
        let mut hs: Vec<Value> = h.iter().map(|s| json!(s)).collect();
        if p.unknown_enums {
            hs.insert(rng.below(hs.len() + 1), json!("carrier-pigeon"));
        }
        pk.insert("hints".into(), json!(hs));
    }
    match d.attestation {
        Some(a) => {
            pk.insert("attestation".into(), json!(a));
        }
        None => {
            if p.unknown_enums {
                pk.insert("attestation".into(), json!("notarised"));
            }
        }
    }
    if let Some(f) = &d.formats {
        let mut fs: Vec<Value> = f.iter().map(|s| json!(s)).collect();
        if p.unknown_enums {
            fs.insert(rng.below(fs.len() + 1), json!("wax-seal"));
        }
        pk.insert("attestationFormats".into(), json!(fs));
    }
    if !d.creation {
        match d.user_verification {
            Some(u) => {
                pk.insert("userVerification".into(), json!(u));
            }
            None => {
                if p.unknown_enums {
                    pk.insert("userVerification".into(), json!("optional"));
                }
            }
        }
    }
    if d.cred_props.is_some() || d.prf.is_some() {
        let mut e = Map::new();
        if let Some(c) = d.cred_props {
            e.insert("credProps".into(), json!(c));
        }
        if let Some((a, b)) = &d.prf {
            let mut ev = Map::new();
            ev.insert("first".into(), bin(a, p.bin));
            if let Some(b) = b {
                ev.insert("second".into(), bin(b, p.bin));
            }
            let mut prf = Map::new();
            prf.insert("eval".into(), Value::Object(ev));
            inject(&mut prf, rng, "prf");
            e.insert("prf".into(), Value::Object(prf));
        }
        inject(&mut e, rng, "ext");
        pk.insert("extensions".into(), Value::Object(e));
    }
    let mut top = Map::new();
    top.insert("publicKey".into(), Value::Object(pk));
    inject(&mut top, rng, "top");
    Value::Object(top)
}

/// The routes serde_json offers for getting a document into a value: from a string, from bytes, from a
/// reader, and from a tree (`from_value`, which - unlike the others - announces sequence lengths).
fn parse_by_route<T: serde::de::DeserializeOwned>(text: &str) -> Result<T, String> {
    let route = crate::rng::fnv_str(text) % 4;
    // (the tree cannot hold the out-of-range numbers and the nesting that some unknown members carry)
    let tree_ok = !text.contains("E+400") && !text.contains("[[[[[[[[[[[[[[[[");
    match route {
        1 => serde_json::from_slice(text.as_bytes()).map_err(|e| format!("{e} (from_slice)")),
        2 => serde_json::from_reader(text.as_bytes()).map_err(|e| format!("{e} (from_reader)")),
        3 if tree_ok => {
            let tree: Value = serde_json::from_str(text).map_err(|e| format!("{e} (document as a tree)"))?;
            serde_json::from_value(tree).map_err(|e| format!("{e} (from_value)"))
        }
        _ => serde_json::from_str(text).map_err(|e| e.to_string()),
    }
}

fn parse_reser(creation: bool, text: &str) -> Result<Value, String> {
    // the parsed value as re-serialised JSON, plus its Debug text: members that are skipped when
    // serialising (an empty list, say) still take part in the comparison
    if creation {
        let v: CredentialCreationOptions = parse_by_route(text)?;
        let mut j = serde_json::to_value(&v).map_err(|e| e.to_string())?;
        j["(value as Debug text)"] = json!(format!("{v:?}"));
        Ok(j)
    } else {
        let v: CredentialRequestOptions = parse_by_route(text)?;
        let mut j = serde_json::to_value(&v).map_err(|e| e.to_string())?;
        j["(value as Debug text)"] = json!(format!("{v:?}"));
        Ok(j)
    }
}

fn options_case(rep: &mut Report, seed: u64, idx: u64, thorough: bool) {
    let mut rng = Rng::derive(seed, "c14", idx);
    let d = gen_doc(&mut rng, idx % 2 == 0);
    let canonical = Present { bin: Bin::Array, num: Num::Number, unknown_members: false, unknown_enums: false, aliases: false };
    let base_doc = render(&d, &canonical, &mut rng);
    let base_text = base_doc.to_string();
    let case0 = json!({"index": idx, "kind": if d.creation {"creation options"} else {"request options"}, "canonical": base_doc});
    rep.eval();
    let base = match catch(|| parse_reser(d.creation, &base_text)) {
        Ok(Ok(v)) => v,
        Ok(Err(e)) => {
            rep.violate("canonical presentation of a generated options document does not parse", e, case0);
            return;
        }
        Err((sig, dd)) => {
            rep.violate(&format!("options parse {sig}"), dd, case0);
            return;
        }
    };
    // anchor: a few members of the re-serialisation against values computed here
    let pk = &base["publicKey"];
    // (the build that serialises byte strings as base64url text writes the member as a string)
    if pk["challenge"] != json!(d.challenge) && pk["challenge"] != json!(oracle::b64url(&d.challenge)) {
        rep.violate("parsed challenge differs from the document's bytes", String::new(), case0.clone());
    }
    if let Some(t) = d.timeout {
        if pk["timeout"] != json!(t) {
            rep.violate("parsed timeout differs from the document's number", format!("{}", pk["timeout"]), case0.clone());
        }
    }
    if d.creation {
        let known: Vec<i64> = d.algs.clone();
        let got: Vec<i64> = pk["pubKeyCredParams"].as_array().map(|a| a.iter().filter_map(|x| x["alg"].as_i64()).collect()).unwrap_or_default();
        if got != known {
            rep.violate("parsed algorithm list differs from the document", format!("{got:?} vs {known:?}"), case0.clone());
        }
    }
    let bins = [Bin::Array, Bin::Url, Bin::UrlPad, Bin::Std, Bin::StdPad, Bin::UrlSpareBits];
    let nums = [Num::Number, Num::Str, Num::Float, Num::FloatStr];
    let mut variants: Vec<Present> = Vec::new();
    for b in bins {
        for n in nums {
            if thorough || rng.chance(1, 2) || (b == Bin::Url && n == Num::Str) {
                variants.push(Present { bin: b, num: n, unknown_members: rng.bool(), unknown_enums: rng.bool(), aliases: rng.bool() });
            }
        }
    }
    variants.push(Present { bin: Bin::Url, num: Num::Number, unknown_members: true, unknown_enums: true, aliases: true });
    for p in variants {
        rep.eval();
        let doc = render(&d, &p, &mut rng);
        let text = finish_text(doc.to_string());
        let mut case = case0.clone();
        case["presentation"] = json!(format!("{p:?}"));
        case["variant"] = doc;
        match catch(|| parse_reser(d.creation, &text)) {
            Err((sig, dd)) => rep.violate(&format!("options parse {sig}"), dd, case),
            Ok(Err(e)) => {
                let what = if p.unknown_enums || p.unknown_members { "with unknown members/enumeration strings " } else { "" };
                rep.violate(&format!("a presentation variant {what}fails to parse (binary as {:?}, numbers as {:?})", p.bin, p.num), e, case)
            }
            Ok(Ok(v)) => {
                if v != base {
                    let diff = first_diff(&v, &base, "");
                    rep.violate(&format!("a presentation variant parses to a different value (binary as {:?}, numbers as {:?}, unknown enums {}, unknown members {}, aliases {})", p.bin, p.num, p.unknown_enums, p.unknown_members, p.aliases), diff, case);
                }
                rep.count(&format!("variant_ok:{:?}/{:?}", p.bin, p.num));
                if p.unknown_enums {
                    rep.count("unknown_enum_variants");
                }
                if p.unknown_members {
                    rep.count("unknown_member_variants");
                }
                rep.nontrivial(fnv(format!("{idx}|{p:?}").as_bytes()));
            }
        }
    }
    rep.sample_class(if d.creation { "creation-options" } else { "request-options" }, json!({"canonical": case0["canonical"]}));
}

fn first_diff(a: &Value, b: &Value, path: &str) -> String {
    match (a, b) {
        (Value::Object(x), Value::Object(y)) => {
            for (k, v) in x {
                match y.get(k) {
                    None => return format!("{path}.{k} only in variant"),
                    Some(w) if w != v => return first_diff(v, w, &format!("{path}.{k}")),
                    _ => {}
                }
            }
            for k in y.keys() {
                if !x.contains_key(k) {
                    return format!("{path}.{k} only in canonical");
                }
            }
            String::new()
        }
        (Value::Array(x), Value::Array(y)) if x.len() == y.len() => {
            for (i, (v, w)) in x.iter().zip(y).enumerate() {
                if v != w {
                    return first_diff(v, w, &format!("{path}[{i}]"));
                }
            }
            String::new()
        }
        _ => format!("{path}: variant {} vs canonical {}", a.to_string().chars().take(80).collect::<String>(), b.to_string().chars().take(80).collect::<String>()),
    }
}

// ---------------------------------------------------------------------------------------------
// base64url identity
// ---------------------------------------------------------------------------------------------

fn b64_case(rep: &mut Report, b: &[u8], idx: u64) {
    rep.eval();
    let case = json!({"index": idx, "kind": "base64url", "bytes_len": b.len(), "bytes": crate::report::hex_short(b)});
    let r = catch(|| {
        let e = encoding::base64url(b);
        let d = encoding::try_from_base64url(&e);
        let via_bytes = Bytes::try_from(e.as_str()).ok().map(|x| x.to_vec());
        let s: String = Bytes::from(b.to_vec()).into();
        (e, d, via_bytes, s)
    });
    match r {
        Err((sig, d)) => rep.violate(&format!("base64url {sig}"), d, case),
        Ok((e, d, via, s)) => {
            if e != oracle::b64url(b) {
                rep.violate("base64url encoding differs from RFC 4648 unpadded base64url", format!("{e} vs {}", oracle::b64url(b)), case.clone());
            }
            if d.as_deref() != Some(b) {
                rep.violate("base64url encoding followed by decoding is not the identity", String::new(), case.clone());
            }
            if via.as_deref() != Some(b) || s != e {
                rep.violate("Bytes <-> base64url string conversion is not the identity", String::new(), case.clone());
            }
            // the same bytes written with the spare bits of the last symbol set
            let loose = oracle::b64url_spare_bits_set(b);
            if loose != e {
                let got = catch(|| (encoding::try_from_base64url(&loose), Bytes::try_from(loose.as_str()).ok().map(|x| x.to_vec())));
                match got {
                    Ok((d2, v2)) => {
                        if d2.as_deref() != Some(b) || v2.as_deref() != Some(b) {
                            rep.violate("base64url text whose last symbol has its spare bits set does not decode to the same bytes", format!("{loose}: try_from_base64url {:?}, Bytes::try_from {:?}", d2.is_some(), v2.is_some()), case.clone());
                        }
                        rep.count("b64_spare_bits_checked");
                    }
                    Err((sig, d)) => rep.violate(&format!("base64url {sig}"), d, case.clone()),
                }
            }
            rep.count("b64_identity_checked");
            if !b.is_empty() {
                rep.nontrivial(fnv(b));
            }
        }
    }
}

// ---------------------------------------------------------------------------------------------
// client data order
// ---------------------------------------------------------------------------------------------

#[derive(Clone, Debug, Serialize)]
struct Extra {
    #[serde(rename = "androidPackageName")]
    pkg: String,
    zeta: u32,
    alpha: Value,
}

fn keys_of(json_text: &str) -> Result<Vec<String>, String> {
    let v: Value = serde_json::from_str(json_text).map_err(|e| e.to_string())?;
    Ok(v.as_object().ok_or("not an object")?.keys().cloned().collect())
}

fn client_data_case(rep: &mut Report, seed: u64, idx: u64) {
    let mut rng = Rng::derive(seed, "c14cd", idx);
    rep.eval();
    let mut extra_keys: Vec<String> = vec!["zeta".into(), "alpha".into(), "payment".into(), "Mid".into(), "_x".into()];
    rng.shuffle(&mut extra_keys);
    extra_keys.truncate(rng.range(0, 5));
    let mut unk_keys: Vec<String> = vec!["other_keys_can_be_added_here".into(), "aaa".into(), "zzz".into(), "tokenBinding".into()];
    rng.shuffle(&mut unk_keys);
    unk_keys.truncate(rng.range(0, 4));
    let extra: IndexMap<String, Value> = extra_keys.iter().map(|k| (k.clone(), json!({"k": k, "nested": {"b": 1, "a": [3, 2, 1]}}))).collect();
    let unknown: IndexMap<String, Value> = unk_keys.iter().map(|k| (k.clone(), json!([k, 1, null]))).collect();
    let cross = *rng.pick(&[None, Some(true), Some(false)]);
    let cd = CollectedClientData::<IndexMap<String, Value>> {
        ty: *rng.pick(&[ClientDataType::Create, ClientDataType::Get, ClientDataType::PaymentGet]),
        challenge: oracle::b64url(&rng.bytes(32)),
        origin: "https://example.com".into(),
        cross_origin: cross,
        extra_data: extra,
        unknown_keys: unknown,
    };
    let case = json!({"index": idx, "kind": "client-data", "extras": extra_keys, "unknown": unk_keys, "crossOrigin": cross});
    let text = match catch(|| serde_json::to_string(&cd)) {
        Ok(Ok(t)) => t,
        Ok(Err(e)) => {
            rep.violate("client data does not serialise", e.to_string(), case);
            return;
        }
        Err((sig, d)) => {
            rep.violate(&format!("client data {sig}"), d, case);
            return;
        }
    };
    let want: Vec<String> = ["type", "challenge", "origin", "crossOrigin"].iter().map(|s| s.to_string()).chain(extra_keys.iter().cloned()).chain(unk_keys.iter().cloned()).collect();
    match keys_of(&text) {
        Ok(k) if k == want => {}
        Ok(k) => rep.violate("client data members are not serialised as type, challenge, origin, crossOrigin, extras in original order, unknown members in original order", format!("got {k:?}, expected {want:?}"), case.clone()),
        Err(e) => rep.violate("client data JSON does not parse", e, case.clone()),
    }
    // a hand-built value whose unknown members repeat one of the four leading names: whatever the
    // library does with the repeated name, the other unknown members keep their original order
    if unk_keys.len() >= 2 {
        let lead = *rng.pick(&["origin", "type", "challenge", "crossOrigin"]);
        let mut with_lead: Vec<String> = unk_keys.clone();
        with_lead.insert(rng.below(unk_keys.len()), lead.to_string());
        with_lead.push("omega".into());
        let cd1 = CollectedClientData::<IndexMap<String, Value>> {
            ty: ClientDataType::Get,
            challenge: "abc".into(),
            origin: "https://example.com".into(),
            cross_origin: cross,
            extra_data: IndexMap::new(),
            unknown_keys: with_lead.iter().map(|k| (k.clone(), json!(1))).collect(),
        };
        if let Ok(Ok(t)) = catch(|| serde_json::to_string(&cd1)) {
            let leading = ["type", "challenge", "origin", "crossOrigin"];
            // serde_json keeps the last of repeated keys when parsing into a map; read the raw key sequence
            let got: Vec<String> = raw_top_level_keys(&t).into_iter().filter(|k| !leading.contains(&k.as_str())).collect();
            let want1: Vec<String> = with_lead.iter().filter(|k| !leading.contains(&k.as_str())).cloned().collect();
            rep.count("client_data_with_repeated_leading_name");
            if got != want1 {
                rep.violate("client data: unknown members are not serialised in their original order (a leading member name is repeated among them)", format!("got {got:?}, expected {want1:?}"), case.clone());
            }
        }
    }
    // a struct as extra data
    let cd2 = CollectedClientData::<Extra> {
        ty: ClientDataType::Get,
        challenge: "abc".into(),
        origin: "https://example.com".into(),
        cross_origin: cross,
        extra_data: Extra { pkg: "com.example".into(), zeta: 1, alpha: json!({"z": 1, "a": 2}) },
        unknown_keys: unk_keys.iter().map(|k| (k.clone(), json!(1))).collect(),
    };
    if let Ok(Ok(t)) = catch(|| serde_json::to_string(&cd2)) {
        let want2: Vec<String> = ["type", "challenge", "origin", "crossOrigin", "androidPackageName", "zeta", "alpha"].iter().map(|s| s.to_string()).chain(unk_keys.iter().cloned()).collect();
        if keys_of(&t).ok() != Some(want2.clone()) {
            rep.violate("client data with struct extras: member order not kept", format!("got {:?}, expected {want2:?}", keys_of(&t)), case.clone());
        }
    }
    // parsing a document with unknown members keeps them, in order, when re-serialised
    let mut m = Map::new();
    m.insert("type".into(), json!("webauthn.get"));
    m.insert("challenge".into(), json!("Zm9v"));
    m.insert("origin".into(), json!("https://example.com"));
    m.insert("crossOrigin".into(), json!(false));
    for k in &unk_keys {
        m.insert(k.clone(), json!({"v": k}));
    }
    let src = Value::Object(m).to_string();
    match catch(|| serde_json::from_str::<CollectedClientData>(&src).map(|c| serde_json::to_string(&c).unwrap_or_default())) {
        Ok(Ok(t)) => {
            let want3: Vec<String> = ["type", "challenge", "origin", "crossOrigin"].iter().map(|s| s.to_string()).chain(unk_keys.iter().cloned()).collect();
            if keys_of(&t).ok() != Some(want3.clone()) {
                rep.violate("parsed client data re-serialises its unknown members in a different order", format!("got {:?}, expected {want3:?}", keys_of(&t)), case.clone());
            }
        }
        Ok(Err(e)) => rep.violate("client data with unknown members does not parse", e.to_string(), case.clone()),
        Err((sig, d)) => rep.violate(&format!("client data parse {sig}"), d, case.clone()),
    }
    rep.count("client_data_orders_checked");
    if !extra_keys.is_empty() || !unk_keys.is_empty() {
        rep.nontrivial(fnv(format!("cd|{extra_keys:?}|{unk_keys:?}|{cross:?}").as_bytes()));
    }
    rep.sample_class("client-data", json!({"json": text}));
}

// ---------------------------------------------------------------------------------------------
// emitted credentials re-parse
// ---------------------------------------------------------------------------------------------

/// The member names of the top-level object of a JSON text, in document order, repeats included.
fn raw_top_level_keys(text: &str) -> Vec<String> {
    let b = text.as_bytes();
    let mut keys = Vec::new();
    let (mut depth, mut i, mut expect_key) = (0i32, 0usize, false);
    while i < b.len() {
        match b[i] {
            b'{' | b'[' => {
                depth += 1;
                expect_key = b[i] == b'{' && depth == 1;
            }
            b'}' | b']' => depth -= 1,
            b',' if depth == 1 => expect_key = true,
            b'"' => {
                let start = i + 1;
                i += 1;
                while i < b.len() && b[i] != b'"' {
                    if b[i] == b'\\' {
                        i += 1;
                    }
                    i += 1;
                }
                if depth == 1 && expect_key {
                    keys.push(String::from_utf8_lossy(&b[start..i.min(b.len())]).to_string());
                    expect_key = false;
                }
            }
            _ => {}
        }
        i += 1;
    }
    keys
}

fn first_debug_difference(a: &str, b: &str) -> String {
    let i = a.bytes().zip(b.bytes()).position(|(x, y)| x != y).unwrap_or(a.len().min(b.len()));
    let lo = i.saturating_sub(40);
    format!("emitted ..{}.. parsed back ..{}..", a.get(lo..(i + 40).min(a.len())).unwrap_or(""), b.get(lo..(i + 40).min(b.len())).unwrap_or(""))
}

fn emitted(rep: &mut Report, seed: u64, n: u64, only: Option<u64>) {
    for h in 0..n {
        let idx = 7_000_000 + h;
        if only.map_or(false, |o| o != idx) {
            continue;
        }
        let mut rng = Rng::derive(seed, "c14e", h);
        let (cfg, disc, _) = cer::gen_cfg(&mut rng);
        let ops = cer::gen_history(&mut rng, 8, 50);
        let r = catch(|| {
            let mut w = World::new(cfg, disc, Some(true));
            for (i, op) in ops.iter().enumerate() {
                w.step(i, op, &mut |st| {
                    let case = json!({"index": idx, "step": st.index, "op": st.op.json()});
                    match st.outcome {
                        Outcome::Reg(Ok(c)) => {
                            rep.eval();
                            let text = serde_json::to_string(c).unwrap_or_default();
                            match serde_json::from_str::<CreatedPublicKeyCredential>(&text) {
                                Ok(back) => {
                                    // equal as values (Debug shows Some([]) and None apart), not only as re-serialised JSON
                                    if serde_json::to_value(&back).ok() != serde_json::to_value(c).ok() || format!("{back:?}") != format!("{c:?}") {
                                        rep.violate("emitted registration credential does not parse back to an equal value", first_debug_difference(&format!("{c:?}"), &format!("{back:?}")), case.clone());
                                    }
                                    rep.count("emitted_registrations_reparsed");
                                    rep.nontrivial(fnv(format!("emit-reg|{}", text.len() / 64).as_bytes()));
                                }
                                Err(e) => rep.violate("emitted registration credential JSON does not parse back", e.to_string(), case.clone()),
                            }
                            // key order of the client data the client emits
                            if let (Op::Register(r), Ok(keys)) = (st.op, keys_of(&String::from_utf8_lossy(&c.response.client_data_json))) {
                                let extras: Vec<String> = match &r.cd {
                                    cer::CdMode::ExtraStruct(_) => vec!["androidPackageName".into(), "nonce".into()],
                                    cer::CdMode::ExtraMap(m) => m.iter().map(|x| x.0.clone()).collect(),
                                    cer::CdMode::Ticking(_) => vec!["seq".into()],
                                    _ => vec![],
                                };
                                let want: Vec<String> = ["type", "challenge", "origin", "crossOrigin"].iter().map(|s| s.to_string()).chain(extras).collect();
                                if keys != want {
                                    rep.violate("clientDataJSON emitted by the client does not keep the member order", format!("got {keys:?}, expected {want:?}"), case.clone());
                                }
                                rep.count("emitted_client_data_orders");
                            }
                        }
                        Outcome::Auth(Ok(c)) => {
                            rep.eval();
                            let text = serde_json::to_string(c).unwrap_or_default();
                            match serde_json::from_str::<AuthenticatedPublicKeyCredential>(&text) {
                                Ok(back) => {
                                    if serde_json::to_value(&back).ok() != serde_json::to_value(c).ok() || format!("{back:?}") != format!("{c:?}") {
                                        rep.violate("emitted assertion credential does not parse back to an equal value", first_debug_difference(&format!("{c:?}"), &format!("{back:?}")), case.clone());
                                    }
                                    rep.count("emitted_assertions_reparsed");
                                    rep.nontrivial(fnv(format!("emit-auth|{}", text.len() / 64).as_bytes()));
                                }
                                Err(e) => rep.violate("emitted assertion credential JSON does not parse back", e.to_string(), case.clone()),
                            }
                        }
                        _ => {}
                    }
                });
            }
        });
        if let Err((sig, d)) = r {
            rep.violate(&format!("ceremony {sig}"), d, json!({"index": idx}));
        }
    }
}

pub fn run(args: &Args) -> Report {
    let mut rep = Report::new(
        "C14",
        &args.tier,
        args.seed,
        "generated creation/request options (every optional member present/absent) rendered with each binary member as byte array / base64url +- padding / base64 +- padding, timeouts and algorithm ids as number / numeric string / integral float / float string, unknown members at every object level, unknown strings in every enumeration position and list; byte strings of every length 0..520 (patterns and random) and random ones up to 4 KiB through base64url; client data with struct / ordered-map extras and unknown members; credentials emitted by the client re-parsed; distinct by (document, presentation) resp. byte string resp. key order; non-trivial when the presentation differs from canonical or an optional member is present",
    );
    rep.assumptions.push("an unknown type inside a descriptor keeps the entry with type unknown; only unknown list values are dropped; out-of-range floats and non-canonical numeric strings are not generated".into());
    let only = replay_index(args);
    let n = args.size(250, 6000) as u64;
    for i in 0..n {
        if only.map_or(true, |o| o == i) {
            options_case(&mut rep, args.seed, i, args.thorough());
        }
    }
    // base64url identity: all lengths 0..=64 with patterns, plus random
    let mut rng = Rng::derive(args.seed, "c14b", 0);
    let mut k = 3_000_000u64;
    for len in 0..=520usize {
        for pat in 0..4 {
            if len > 64 && pat < 2 {
                continue;
            }
            let b: Vec<u8> = match pat {
                0 => vec![0x00; len],
                1 => vec![0xFF; len],
                2 => (0..len).map(|i| (i as u8).wrapping_mul(0x3F).wrapping_add(0xFB)).collect(),
                _ => rng.bytes(len),
            };
            if only.map_or(true, |o| o == k) {
                b64_case(&mut rep, &b, k);
            }
            k += 1;
        }
    }
    for _ in 0..args.size(300, 5000) {
        let len = rng.range(65, 4096);
        let b = rng.bytes(len);
        if only.map_or(true, |o| o == k) {
            b64_case(&mut rep, &b, k);
        }
        k += 1;
    }
    for i in 0..args.size(150, 3000) as u64 {
        let idx = 5_000_000 + i;
        if only.map_or(true, |o| o == idx) {
            client_data_case(&mut rep, args.seed, idx);
        }
    }
    emitted(&mut rep, args.seed, args.size(60, 1500) as u64, only);
    if only.is_none()
        && (rep.get("unknown_enum_variants") == 0 || rep.get("b64_identity_checked") == 0 || rep.get("client_data_orders_checked") == 0 || rep.get("emitted_registrations_reparsed") == 0 || rep.get("emitted_assertions_reparsed") == 0)
    {
        rep.inconclusive("a clause (unknown enumerations, base64url identity, client-data order, emitted credentials) was never evaluated".into());
    }
    rep
}
