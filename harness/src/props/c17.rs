//! C17 — U2F registration and authentication messages are well-formed and verifiable.

use passkey_authenticator::{Authenticator, CredentialStore, MemoryStore, U2fApi};
use passkey_types::{
    ctap2::Flags,
    u2f::{self, AuthenticationParameter, AuthenticationRequest, RegisterRequest, RequestPayload},
    Passkey,
};
use serde_json::{json, Value};

use crate::{
    collab::{snap_passkey, CredSnap, Disc, RecUv},
    exec::block_on,
    oracle,
    props::c02::replay_index,
    report::{hex_short, Report},
    rng::{fnv, Rng},
    util::{mk_auth, AuthCfg, Rig},
    worker::catch,
    Args,
};

#[derive(Clone, Copy, Debug, PartialEq)]
enum StoreKind {
    Rec,
    Memory,
    Single,
}

struct RegOut {
    x: [u8; 32],
    y: [u8; 32],
    handle: Vec<u8>,
    cert: Vec<u8>,
    sig: Vec<u8>,
    encoded: Vec<u8>,
}

fn do_register<S: CredentialStore + Sync + Send>(a: &mut Authenticator<S, RecUv>, challenge: [u8; 32], app: [u8; 32], handle: &[u8]) -> Result<RegOut, String> {
    let r = block_on(a.register(RegisterRequest { challenge, application: app }, handle)).map_err(|e| format!("{e:?}"))?;
    let x = r.public_key.x;
    let y = r.public_key.y;
    let h = r.key_handle.clone();
    let cert = r.attestation_certificate.clone();
    let sig = r.signature.clone();
    let encoded = r.encode();
    Ok(RegOut { x, y, handle: h, cert, sig, encoded })
}

struct AuthOut {
    presence: u8,
    counter: u32,
    sig: Vec<u8>,
    encoded: Vec<u8>,
}

fn do_auth<S: CredentialStore + Sync + Send>(a: &Authenticator<S, RecUv>, param: u8, challenge: [u8; 32], app: [u8; 32], handle: &[u8], counter: u32, presence: Flags) -> Result<AuthOut, String> {
    let req = AuthenticationRequest { parameter: AuthenticationParameter::from(param), challenge, application: app, key_handle: handle.to_vec() };
    let r = block_on(a.authenticate(req, counter, presence)).map_err(|e| format!("{e:?}"))?;
    let p: u8 = r.user_presence.into();
    let c = r.counter;
    let s = r.signature.clone();
    Ok(AuthOut { presence: p, counter: c, sig: s, encoded: r.encode() })
}

fn check_reg(rep: &mut Report, case: &Value, out: &RegOut, challenge: &[u8; 32], app: &[u8; 32], handle: &[u8], stored: &[CredSnap]) {
    let mut msg = vec![0x00];
    msg.extend_from_slice(app);
    msg.extend_from_slice(challenge);
    msg.extend_from_slice(handle);
    msg.push(0x04);
    msg.extend_from_slice(&out.x);
    msg.extend_from_slice(&out.y);
    match oracle::verify_es256_any(&out.x, &out.y, &msg, &out.sig) {
        Ok(form) => rep.count(&format!("registration_signature_form:{form}")),
        Err(e) => rep.violate("registration signature does not verify under the returned key over 0x00 || application || challenge || key handle || public key", e, case.clone()),
    }
    if out.handle != handle {
        rep.violate("registration response carries a different key handle", String::new(), case.clone());
    }
    let rp = oracle::b64url(app);
    // (a journal-like store may hold earlier generations of the key handle next to the new record)
    let recs: Vec<&CredSnap> = stored.iter().filter(|c| c.id == handle && c.rp_id == rp).collect();
    if recs.is_empty() {
        rep.violate("no credential stored for (base64url(application), key handle)", format!("store holds {:?}", stored.iter().map(|c| (c.rp_id.clone(), hex_short(&c.id))).collect::<Vec<_>>()), case.clone());
    } else if !recs.iter().any(|r| r.d.as_ref().map_or(true, |d| oracle::scalar_matches_point(d, &out.x, &out.y).is_ok())) {
        rep.violate("stored U2F credential's private key does not match the returned public key", format!("{} record(s) for the key handle, none holds the returned key", recs.len()), case.clone());
    }
    // raw encoding
    let mut want = vec![0x05, 0x04];
    want.extend_from_slice(&out.x);
    want.extend_from_slice(&out.y);
    want.push(handle.len() as u8);
    want.extend_from_slice(handle);
    want.extend_from_slice(&out.cert);
    want.extend_from_slice(&out.sig);
    want.extend_from_slice(&[0x90, 0x00]);
    if want != out.encoded {
        rep.violate("RegisterResponse::encode is not reserved byte || public key || handle length || handle || certificate || signature || 0x9000", format!("lengths {} vs {}", out.encoded.len(), want.len()), case.clone());
    }
}

fn check_auth(rep: &mut Report, case: &Value, out: &AuthOut, x: &[u8], y: &[u8], challenge: &[u8; 32], app: &[u8; 32], counter: u32, presence: u8) {
    if out.counter != counter || out.presence != presence {
        rep.violate("authentication response does not carry the given counter / presence byte", format!("counter {} presence {:#x}", out.counter, out.presence), case.clone());
    }
    let mut msg = app.to_vec();
    msg.push(out.presence);
    msg.extend_from_slice(&out.counter.to_be_bytes());
    msg.extend_from_slice(challenge);
    match oracle::verify_es256_any(x, y, &msg, &out.sig) {
        Ok(form) => rep.count(&format!("authentication_signature_form:{form}")),
        Err(e) => rep.violate("authentication signature does not verify under the registered key over application || presence || counter_be || challenge", e, case.clone()),
    }
    let mut want = vec![out.presence];
    want.extend_from_slice(&out.counter.to_be_bytes());
    want.extend_from_slice(&out.sig);
    want.extend_from_slice(&[0x90, 0x00]);
    if want != out.encoded {
        rep.violate("AuthenticationResponse::encode is not presence || counter_be || signature || 0x9000", String::new(), case.clone());
    }
}

thread_local! {
    /// Reference-store histories only: Some(true) - a key handle registered again is answered with its newest
    /// generation first (a journal listed newest first, or a store that replaces per account); Some(false) -
    /// oldest first. The library documents that the first credential a lookup lists is the one used.
    static REC_GENERATIONS: std::cell::Cell<Option<bool>> = const { std::cell::Cell::new(None) };
}

fn history<S: CredentialStore<PasskeyItem = Passkey> + Sync + Send>(rep: &mut Report, seed: u64, idx: u64, kind: StoreKind, auth: &mut Authenticator<S, RecUv>, snapshot: &dyn Fn(&Authenticator<S, RecUv>) -> Vec<CredSnap>) {
    let mut rng = Rng::derive(seed, "c17", idx);
    let n_reg = if kind == StoreKind::Single { rng.range(1, 2) } else { rng.range(1, 4) };
    let mut regs: Vec<([u8; 32], Vec<u8>, [u8; 32], [u8; 32])> = Vec::new();
    for r in 0..n_reg {
        rep.eval();
        let challenge = if rng.chance(1, 5) { [0u8; 32] } else { rng.arr32() };
        let app = if rng.chance(1, 5) { [0xFFu8; 32] } else { rng.arr32() };
        let hl = *rng.pick(&[0usize, 1, 16, 32, 64, 127, 128, 200, 255]);
        let mut handle = rng.bytes(hl);
        let mut app = app;
        let generations = REC_GENERATIONS.with(|g| g.get());
        if (kind != StoreKind::Rec || generations.is_some()) && !regs.is_empty() && rng.chance(1, 3) {
            // register the same application / key handle again
            let (a, h, _, _) = regs[rng.below(regs.len())].clone();
            app = a;
            handle = h;
        }
        if kind == StoreKind::Rec && rng.chance(1, 3) {
            // key handles as a token produces them that wraps the private key behind a fixed header:
            // longer than 64 bytes, agreeing with an earlier one of the application in the first 64
            if let Some((a, h, _, _)) = regs.iter().find(|(_, h, _, _)| h.len() >= 64).cloned() {
                app = a;
                handle = h[..64].to_vec();
                handle.extend_from_slice(&rng.bytes(rng.clone().range(1, 191)));
                rep.count("key_handles_sharing_their_first_64_bytes");
            }
        }
        let hl = handle.len();
        // the shipped in-memory store is keyed by credential id alone (C05's recorded finding): a key
        // handle reused under another application would overwrite there, which is not this property's topic
        let handle_reused = kind != StoreKind::Rec && regs.iter().any(|(a, h, _, _)| *h == handle && *a != app);
        // the same (application, key handle) registered again: the shipped stores replace the record
        // (HashMap insert / Option replace), so the new key must be the stored one; for the reference
        // store the outcome of saving a duplicate is not defined by the contract, so it is not generated
        let same_pair = regs.iter().any(|(a, h, _, _)| *a == app && *h == handle);
        if handle_reused || (same_pair && kind == StoreKind::Rec && generations.is_none()) {
            // the same (application, key handle) registered twice: which credential answers is not
            // settled by the statement, so such histories are not generated
            continue;
        }
        let case = json!({"index": idx, "store": format!("{kind:?}"), "step": format!("register#{r}"), "handle_len": hl, "application": hex_short(&app), "challenge": hex_short(&challenge)});
        match catch(|| do_register(auth, challenge, app, &handle)) {
            Err((sig, d)) => rep.violate(&format!("u2f register {sig}"), d, case),
            Ok(Err(e)) => rep.violate("u2f registration failed on an infallible store", e, case),
            Ok(Ok(out)) => {
                let stored = snapshot(auth);
                check_reg(rep, &case, &out, &challenge, &app, &handle, &stored);
                rep.count("registrations");
                rep.nontrivial(fnv(format!("reg|{hl}|{kind:?}|{r}").as_bytes()));
                rep.sample_class(&format!("register/{kind:?}"), json!({"case": case, "encoded_len": out.encoded.len(), "signature_len": out.sig.len()}));
                if kind == StoreKind::Rec && same_pair && generations == Some(false) {
                    // the store lists the oldest generation first: that one keeps answering
                    rep.count("key_handle_generations_oldest_first");
                    continue;
                }
                if kind == StoreKind::Rec && same_pair {
                    rep.count("key_handle_generations_newest_first");
                }
                regs.retain(|(a, h, _, _)| !(*a == app && *h == handle));
                if kind == StoreKind::Single {
                    // the single-slot store keeps one credential by design
                    regs.clear();
                }
                regs.push((app, handle, out.x, out.y));
            }
        }
    }
    for s in 0..rng.range(1, 4) {
        if regs.is_empty() {
            break;
        }
        rep.eval();
        let (app, handle, x, y) = regs[rng.below(regs.len())].clone();
        let challenge = rng.arr32();
        let counter = *rng.pick(&[0u32, 1, 0x8000_0000, u32::MAX, 258]);
        let pres = *rng.pick(&[Flags::UP, Flags::empty(), Flags::UV, Flags::UP | Flags::UV, Flags::BE | Flags::BS, Flags::UP | Flags::BE]);
        let param = *rng.pick(&[0x03u8, 0x07, 0x08]);
        let case = json!({"index": idx, "store": format!("{kind:?}"), "step": format!("authenticate#{s}"), "handle_len": handle.len(), "counter": counter, "presence": u8::from(pres), "control": param});
        match catch(|| do_auth(auth, param, challenge, app, &handle, counter, pres)) {
            Err((sig, d)) => rep.violate(&format!("u2f authenticate {sig}"), d, case.clone()),
            Ok(Err(e)) => rep.violate("u2f authentication with a registered key handle failed", e, case.clone()),
            Ok(Ok(out)) => {
                check_auth(rep, &case, &out, &x, &y, &challenge, &app, counter, u8::from(pres));
                rep.count("authentications");
                rep.nontrivial(fnv(format!("auth|{}|{counter}|{}|{kind:?}", handle.len(), u8::from(pres)).as_bytes()));
                // a token that keeps its counter with the credential records it through the public constructor
                // `Passkey::from_u2f_auth_request` and the store's update: the credential is still the one for
                // that application and key handle, and the key handle keeps working
                if rng.chance(1, 3) {
                    let rp_text = crate::oracle::b64url(&app);
                    let held = block_on(auth.store().find_credentials(Some(&[crate::util::descriptor(&handle)]), &rp_text)).ok().and_then(|v| v.into_iter().find(|p| p.credential_id.as_slice() == handle.as_slice() && p.rp_id == rp_text));
                    if let Some(held) = held {
                        let req = AuthenticationRequest { parameter: AuthenticationParameter::from(param), challenge, application: app, key_handle: handle.clone() };
                        let p = Passkey::from_u2f_auth_request(&req, counter, &held.key);
                        rep.count("counter_records_through_the_public_constructor");
                        if p.credential_id.as_slice() != handle.as_slice() || p.rp_id != held.rp_id {
                            rep.violate("Passkey::from_u2f_auth_request does not describe the credential for that application and key handle", format!("credential id {} (key handle {}), RP ID {:?} (stored {:?})", hex_short(&p.credential_id), hex_short(&handle), p.rp_id, held.rp_id), case.clone());
                        } else if block_on(auth.store_mut().update_credential(p)).is_ok() {
                            match catch(|| do_auth(auth, 0x03, challenge, app, &handle, counter, Flags::UP)) {
                                Ok(Ok(out2)) => check_auth(rep, &case, &out2, &x, &y, &challenge, &app, counter, u8::from(Flags::UP)),
                                Ok(Err(e)) => rep.violate("u2f authentication with a registered key handle failed", format!("{e} (after the counter was recorded through from_u2f_auth_request and update_credential)"), case.clone()),
                                Err((sig, d)) => rep.violate(&format!("u2f authenticate {sig}"), d, case.clone()),
                            }
                        }
                    }
                }
            }
        }
        // unknown key handle fails
        rep.eval();
        // a handle that no registration of this history can have used (registered lengths are
        // 0, 1, 16, 32, 64, 127, 128, 200 or 255): the in-memory store is keyed by the handle alone
        let unknown = rng.bytes(*rng.clone().pick(&[2usize, 17, 33, 65, 129]));
        match catch(|| do_auth(auth, 0x03, challenge, app, &unknown, 1, Flags::UP)) {
            Ok(Ok(_)) => rep.violate("u2f authentication with an unknown key handle succeeded", String::new(), case.clone()),
            Ok(Err(_)) => rep.count("unknown_handle_refused"),
            Err((sig, d)) => rep.violate(&format!("u2f authenticate (unknown handle) {sig}"), d, case.clone()),
        }
    }
}

fn frames(rep: &mut Report, seed: u64, idx: u64) {
    let mut rng = Rng::derive(seed, "c17f", idx);
    // own encoder of extended-length request frames: CLA INS P1 P2 | 00 LC1 LC2 | data | [LE1 LE2]
    let frame = |ins: u8, p1: u8, data: &[u8], le: usize| -> Vec<u8> {
        let mut f = vec![0x00, ins, p1, 0x00];
        if data.is_empty() {
            f.extend_from_slice(&[0x00, 0x00, 0x00]); // extended Le only
        } else {
            f.push(0x00);
            f.extend_from_slice(&(data.len() as u16).to_be_bytes());
            f.extend_from_slice(data);
            f.extend(std::iter::repeat(0u8).take(le));
        }
        f
    };
    let le = *rng.pick(&[0usize, 2]);
    // register
    {
        rep.eval();
        let ch = rng.arr32();
        let app = rng.arr32();
        let mut data = ch.to_vec();
        data.extend_from_slice(&app);
        let raw = frame(0x01, *rng.pick(&[0u8, 3, 0x80]), &data, le);
        let case = json!({"index": idx, "frame": "register", "raw": hex_short(&raw)});
        match catch(|| u2f::Request::try_from(raw.as_slice()).map_err(|e| format!("{e:?}"))) {
            Ok(Ok(r)) => {
                let ok = r.cla == 0 && u8::from(r.ins) == 0x01 && r.p1 == raw[2] && r.data_len == 64 && matches!(&r.data, RequestPayload::Register(x) if x.challenge == ch && x.application == app);
                if !ok {
                    rep.violate("parsing a well-formed register frame does not return that request", String::new(), case);
                }
                rep.count("frames_parsed");
                rep.nontrivial(fnv(format!("f-reg|{le}|{}", raw[2]).as_bytes()));
            }
            Ok(Err(e)) => rep.violate("well-formed register frame rejected", e, case),
            Err((sig, d)) => rep.violate(&format!("frame parse {sig}"), d, case),
        }
    }
    // authenticate, every handle length is reached over the indices
    {
        rep.eval();
        let ch = rng.arr32();
        let app = rng.arr32();
        let hl = (idx % 256) as usize;
        let handle = rng.bytes(hl);
        let p1 = *rng.pick(&[0x03u8, 0x07, 0x08]);
        let mut data = ch.to_vec();
        data.extend_from_slice(&app);
        data.push(hl as u8);
        data.extend_from_slice(&handle);
        let raw = frame(0x02, p1, &data, le);
        let case = json!({"index": idx, "frame": "authenticate", "handle_len": hl, "control": p1, "raw": hex_short(&raw)});
        match catch(|| u2f::Request::try_from(raw.as_slice()).map_err(|e| format!("{e:?}"))) {
            Ok(Ok(r)) => {
                let ok = r.cla == 0 && u8::from(r.ins) == 0x02 && r.p1 == p1 && r.data_len == data.len()
                    && matches!(&r.data, RequestPayload::Authenticate(x) if x.challenge == ch && x.application == app && x.key_handle == handle && u8::from(match x.parameter { AuthenticationParameter::CheckOnly => AuthenticationParameter::CheckOnly, AuthenticationParameter::EnforceUserPresence => AuthenticationParameter::EnforceUserPresence, AuthenticationParameter::DontEnforceUserPresence => AuthenticationParameter::DontEnforceUserPresence }) == p1);
                if !ok {
                    rep.violate("parsing a well-formed authenticate frame does not return that request", String::new(), case);
                }
                rep.count("frames_parsed");
                rep.nontrivial(fnv(format!("f-auth|{hl}|{p1}|{le}").as_bytes()));
            }
            Ok(Err(e)) => rep.violate("well-formed authenticate frame rejected", e, case),
            Err((sig, d)) => rep.violate(&format!("frame parse {sig}"), d, case),
        }
    }
    // version
    {
        rep.eval();
        let raw = frame(0x03, 0, &[], 0);
        let case = json!({"index": idx, "frame": "version", "raw": hex_short(&raw)});
        match catch(|| u2f::Request::try_from(raw.as_slice()).map_err(|e| format!("{e:?}"))) {
            Ok(Ok(r)) => {
                if !(r.cla == 0 && u8::from(r.ins) == 0x03 && r.data_len == 0 && matches!(r.data, RequestPayload::Version)) {
                    rep.violate("parsing a well-formed version frame does not return that request", String::new(), case);
                }
                rep.count("frames_parsed");
            }
            Ok(Err(e)) => rep.violate("well-formed version frame rejected", e, case),
            Err((sig, d)) => rep.violate(&format!("frame parse {sig}"), d, case),
        }
        let v = u2f::Version.encode();
        if v != b"U2F_V2\x90\x00" {
            rep.violate("Version::encode is not \"U2F_V2\" || 0x9000", hex_short(&v), json!({"index": idx}));
        }
    }
    // response encodings with arbitrary field values (a caller may attach an attestation certificate)
    {
        rep.eval();
        let mut x = [0u8; 32];
        let mut y = [0u8; 32];
        x.copy_from_slice(&rng.bytes(32));
        y.copy_from_slice(&rng.bytes(32));
        let handle = rng.bytes(*rng.clone().pick(&[0usize, 1, 32, 64, 255]));
        let cert = rng.bytes(*rng.clone().pick(&[0usize, 1, 70, 300, 1200]));
        let sig = rng.bytes(rng.clone().range(8, 72));
        let resp = u2f::RegisterResponse { public_key: u2f::PublicKey { x, y }, key_handle: handle.clone(), attestation_certificate: cert.clone(), signature: sig.clone() };
        let case = json!({"index": idx, "encode": "register response", "key_handle_len": handle.len(), "certificate_len": cert.len(), "signature_len": sig.len()});
        let mut want = vec![0x05u8, 0x04];
        want.extend_from_slice(&x);
        want.extend_from_slice(&y);
        want.push(handle.len() as u8);
        want.extend_from_slice(&handle);
        want.extend_from_slice(&cert);
        want.extend_from_slice(&sig);
        want.extend_from_slice(&[0x90, 0x00]);
        match catch(|| resp.encode()) {
            Ok(got) => {
                rep.count("arbitrary_register_responses_encoded");
                rep.nontrivial(fnv(format!("enc-reg|{}|{}", handle.len(), cert.len()).as_bytes()));
                if got != want {
                    let first = got.iter().zip(want.iter()).position(|(a, b)| a != b).unwrap_or(got.len().min(want.len()));
                    rep.violate("RegisterResponse::encode is not 0x05 || key || handle length || handle || certificate || signature || 0x9000", format!("first difference at offset {first}; lengths {} vs {}", got.len(), want.len()), case);
                }
            }
            Err((sig, d)) => rep.violate(&format!("register response encode {sig}"), d, case),
        }
    }
}

pub fn run(args: &Args) -> Report {
    let mut rep = Report::new(
        "C17",
        &args.tier,
        args.seed,
        "register/authenticate sequences over Option<Passkey>, MemoryStore and the reference store with random and patterned challenges/applications, key handles of 0..255 bytes (also long ones agreeing in their first 64 bytes, over a reference store that keeps one credential per RP and account), counters {0,1,258,2^31,2^32-1}, presence flags and all three control bytes; well-formed extended-length frames for register, authenticate (every handle length 0..255) and version; distinct by (operation, handle length, counter, presence, store type, position); non-trivial when a signature or a raw encoding was produced and checked",
    );
    rep.assumptions.push("the signature may be DER or fixed-size r||s: the statement does not fix the encoding (observed form recorded)".into());
    let only = replay_index(args);
    let n = args.size(500, 12_000) as u64;
    for i in 0..n {
        if only.map_or(false, |o| o != i) {
            continue;
        }
        let kind = [StoreKind::Rec, StoreKind::Memory, StoreKind::Single][(i % 3) as usize];
        match kind {
            StoreKind::Rec => {
                // whatever the store advertises about discoverable credentials: a U2F credential is not one
                let rig = Rig::ok([Disc::Full, Disc::OnlyNonDiscoverable, Disc::Forced, Disc::Full][((i / 3) % 4) as usize]);
                // half of the reference stores keep one credential per (RP ID, account), as CTAP2 prescribes
                rig.store.set_one_per_account(i % 6 < 3);
                // a third of the histories register key handles again; the store then holds generations of them,
                // listed newest first or oldest first
                if i % 9 < 3 {
                    let newest_first = i % 2 == 0;
                    rig.store.set_newest_first(newest_first);
                    REC_GENERATIONS.with(|g| g.set(Some(newest_first || i % 6 < 3)));
                } else {
                    REC_GENERATIONS.with(|g| g.set(None));
                }
                let mut a = rig.auth(AuthCfg::default());
                // every fourth history starts with a registration the store refuses (any status byte,
                // CTAP1- or CTAP2-class): no key and signature may be handed out for it
                if i % 4 == 1 {
                    let mut r2 = Rng::derive(args.seed, "c17fault", i);
                    let code = *r2.pick(&[0x28u8, 0x01, 0x03, 0x7f, 0xf0, 0x2e, 0x45, 0x06]);
                    rig.store.set_fault(crate::collab::Kind::Save, 0, code);
                    rep.eval();
                    let handle = r2.bytes(16);
                    let case = json!({"index": i, "store": "Rec", "step": "registration the store refuses", "status": code});
                    rep.nontrivial(fnv(format!("savefault|{code}").as_bytes()));
                    match catch(|| do_register(&mut a, r2.arr32(), r2.arr32(), &handle)) {
                        Err((sig, d)) => rep.violate(&format!("u2f register {sig}"), d, case),
                        Ok(Ok(_)) => rep.violate("u2f registration returned a key and signature although the store refused the credential", format!("store status {code:#04x}"), case),
                        Ok(Err(_)) => {
                            rep.count("refused_saves_reported");
                            if rig.store.snapshot().iter().any(|c| c.id == handle) {
                                rep.violate("u2f registration failed but the store holds the credential", String::new(), case);
                            }
                        }
                    }
                }
                let store = rig.store.clone();
                history(&mut rep, args.seed, i, kind, &mut a, &move |_| store.snapshot());
                // "stores a credential for that application": what the store is handed as relying party
                // is the application the credential itself is filed under
                for e in rig.log.snapshot().iter() {
                    if let crate::collab::Ev::Save { rp_entity, rp_id, id, .. } = &e.ev {
                        rep.count("save_arguments_checked");
                        if rp_entity != rp_id {
                            rep.violate("u2f registration hands the store a relying party other than the credential's application", format!("rp argument {rp_entity:?}, credential filed under {rp_id:?} (key handle {})", hex_short(id)), json!({"index": i, "store": "Rec"}));
                        }
                    }
                }
            }
            StoreKind::Memory => {
                let rig = Rig::ok(Disc::Full);
                let mut a = mk_auth(MemoryStore::new(), rig.uv.clone(), AuthCfg::default());
                history(&mut rep, args.seed, i, kind, &mut a, &|a| a.store().values().map(snap_passkey).collect());
            }
            StoreKind::Single => {
                let rig = Rig::ok(Disc::Full);
                let mut a = mk_auth(None::<Passkey>, rig.uv.clone(), AuthCfg::default());
                history(&mut rep, args.seed, i, kind, &mut a, &|a| a.store().iter().map(snap_passkey).collect());
            }
        }
    }
    for i in 0..args.size(512, 8192) as u64 {
        let idx = 1_000_000 + i;
        if only.map_or(true, |o| o == idx) {
            frames(&mut rep, args.seed, idx);
        }
    }
    if only.is_none() && (rep.get("registrations") == 0 || rep.get("authentications") == 0 || rep.get("unknown_handle_refused") == 0 || rep.get("frames_parsed") == 0) {
        rep.inconclusive("registrations, authentications, unknown-handle refusals or frame parses were not observed".into());
    }
    rep
}
