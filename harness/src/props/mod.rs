//! One workload + monitor module per property.

use crate::{report::Report, worker::{CaseDesc, CaseOut}, Args};

pub mod c01;
pub mod c02;
pub mod c03;
pub mod c04;
pub mod c05;
pub mod c06;
pub mod c07;
pub mod c08;
pub mod c09;
pub mod cer;
pub mod c10;
pub mod c11;
pub mod c12;
pub mod c13;
pub mod c14;
pub mod c15;
pub mod c16;
pub mod c17;
pub mod c18;
pub mod c19;

pub fn dispatch(args: &Args) -> Option<Report> {
    Some(match args.prop.as_str() {
        "c01" => c01::run(args),
        "c02" => c02::run(args),
        "c03" => c03::run(args),
        "c04" => c04::run(args),
        "c05" => c05::run(args),
        "c06" => c06::run(args),
        "c07" => c07::run(args),
        "c08" => c08::run(args),
        "c09" => c09::run(args),
        "c10" => c10::run(args),
        "c11" => c11::run(args),
        "c12" => c12::run(args),
        "c13" => c13::run(args),
        "c14" => c14::run(args),
        "c15" => c15::run(args),
        "c16" => c16::run(args),
        "c17" => c17::run(args),
        "c18" => c18::run(args),
        "c19" => c19::run(args),
        _ => return None,
    })
}

/// one crash-isolated case (runs in a worker child)
pub fn iso_case(args: &Args, idx: u64) -> CaseOut {
    match args.prop.as_str() {
        "c08" => c08::iso_case(args, idx),
        "c15" => c15::iso_case(args, idx),
        "c18" => c18::iso_case(args, idx),
        _ => CaseOut { class: "unknown-prop".into(), ..Default::default() },
    }
}

/// describe case `idx` without running it (used to attribute deaths and hangs)
pub fn iso_describe(args: &Args, idx: u64) -> CaseDesc {
    match args.prop.as_str() {
        "c08" => c08::describe(args, idx),
        "c15" => c15::describe(args, idx),
        "c18" => c18::describe(args, idx),
        _ => CaseDesc { decoder: "?".into(), mutation: "?".into(), case: serde_json::Value::Null },
    }
}
