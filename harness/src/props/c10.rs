//! C10 — public-suffix lookups agree with the shipped list under the PSL algorithm.
//!
//! Oracle: oracle::psl (publicsuffix.org algorithm over the .dat file parsed at run time).
//! Workload: every rule of the list, extended/shortened/relabelled, plus arbitrary strings.

use public_suffix::{EffectiveTLDProvider, ListProvider, PublicSuffixList, Table, DEFAULT_PROVIDER};
use serde_json::json;

use crate::{
    oracle::psl::{RefPsl, RuleKind},
    report::Report,
    rng::{fnv_str, Rng},
    worker::catch,
    Args,
};

/// The compiled table type behind the public alias `PublicSuffixList = ListProvider<TLDList>`.
trait Inner {
    type T: Table;
}
impl<T: Table> Inner for ListProvider<T> {
    type T = T;
}
type Tbl = <PublicSuffixList as Inner>::T;

/// Every rule the compiled table itself encodes (walk of its node / children arrays), so that probes
/// are also derived from what the table *contains* - a phantom sub-tree or a dropped node is then
/// probed even when no rule of the list points there.
fn table_rules() -> Vec<(String, u32, bool)> {
    // returns (dotted path, node type, wildcard flag of the node's children)
    fn label(i: u32) -> &'static str {
        let mut x = Tbl::NODES[i as usize];
        let length = (x & ((1 << Tbl::NODES_BITS_TEXT_LENGTH) - 1)) as usize;
        x >>= Tbl::NODES_BITS_TEXT_LENGTH;
        let offset = (x & ((1 << Tbl::NODES_BITS_TEXT_OFFSET) - 1)) as usize;
        &Tbl::TEXT[offset..][..length]
    }
    fn children(i: u32) -> (u32, u32, u32, bool) {
        let mut u = Tbl::NODES[i as usize] >> (Tbl::NODES_BITS_TEXT_OFFSET + Tbl::NODES_BITS_TEXT_LENGTH);
        u >>= Tbl::NODES_BITS_ICANN;
        let c = Tbl::CHILDREN.get((u & ((1 << Tbl::NODES_BITS_CHILDREN) - 1)) as usize).copied().unwrap_or(0);
        let lo = c & ((1 << Tbl::CHILDREN_BITS_LO) - 1);
        let hi = (c >> Tbl::CHILDREN_BITS_LO) & ((1 << Tbl::CHILDREN_BITS_HI) - 1);
        let ty = (c >> (Tbl::CHILDREN_BITS_LO + Tbl::CHILDREN_BITS_HI)) & ((1 << Tbl::CHILDREN_BITS_NODE_TYPE) - 1);
        let wc = (c >> (Tbl::CHILDREN_BITS_LO + Tbl::CHILDREN_BITS_HI + Tbl::CHILDREN_BITS_NODE_TYPE)) & ((1 << Tbl::CHILDREN_BITS_WILDCARD) - 1) != 0;
        (lo, hi, ty, wc)
    }
    let mut out = Vec::new();
    let mut stack: Vec<(u32, String, usize)> = (0..Tbl::NUM_TLD).map(|i| (i, label(i).to_string(), 1)).collect();
    let n_nodes = Tbl::NODES.len() as u32;
    while let Some((i, path, depth)) = stack.pop() {
        let (lo, hi, ty, wc) = children(i);
        out.push((path.clone(), ty, wc));
        if depth < 8 && lo <= hi && hi <= n_nodes {
            for c in lo..hi {
                stack.push((c, format!("{}.{}", label(c), path), depth + 1));
            }
        }
    }
    out
}

fn labels(s: &str) -> usize {
    if s.is_empty() {
        0
    } else {
        s.split('.').count()
    }
}

fn is_label_suffix(input: &str, suffix: &str) -> bool {
    if !input.ends_with(suffix) {
        return false;
    }
    if suffix.len() == input.len() {
        return true;
    }
    if suffix.is_empty() {
        // empty suffix: only acceptable when the input ends with '.' (empty last label) or is empty
        return input.is_empty() || input.ends_with('.');
    }
    input.as_bytes()[input.len() - suffix.len() - 1] == b'.'
}

struct Ctx<'a> {
    psl: &'a RefPsl,
    rep: &'a mut Report,
    /// Unicode presentations of the IDN rules (the table is keyed by their punycode form)
    idn_unicode: std::collections::HashSet<String>,
}

/// A name with non-ASCII labels for which the list algorithm has one answer whichever presentation
/// of the IDN rules it is applied to: lower-case, no empty label, and no label-aligned suffix of it is
/// the Unicode presentation of an IDN rule (nor the parent of a wildcard one). Such labels can only
/// fall under wildcard rules or the implicit "*" rule, so the reference comparison applies.
fn mixed_safe(ctx: &Ctx, q: &str) -> bool {
    if RefPsl::has_empty_label(q) {
        return false;
    }
    if q.is_ascii() {
        // ASCII names spelled with capitals: the list algorithm compares labels as they are, so a
        // capitalised label equals no rule label (it can only fall under a wildcard or the implicit "*")
        return q.bytes().any(|b| b.is_ascii_uppercase()) && q.bytes().all(|b| b.is_ascii_alphanumeric() || b == b'-' || b == b'.');
    }
    let ok_char = |c: char| c.is_ascii_lowercase() || c.is_ascii_digit() || c == '-' || c == '.' || (!c.is_ascii() && c.is_alphabetic() && c.to_lowercase().eq(std::iter::once(c)));
    if !q.chars().all(ok_char) {
        return false;
    }
    let mut start = 0;
    loop {
        if ctx.idn_unicode.contains(&q[start..]) {
            return false;
        }
        match q[start..].find('.') {
            Some(d) => start += d + 1,
            None => return true,
        }
    }
}

/// A second implementation of the public `Table` trait, laid out like the generated one: the private list
/// ```text
/// corp
/// intra.corp
/// *.dev.corp
/// !www.dev.corp
/// lan
/// ```
/// (an application may run a private list next to the shipped one; neither provider's answers depend on
/// the other having been used).
struct PrivateList;
const PRIVATE_RULES: &str = "corp\nintra.corp\n*.dev.corp\n!www.dev.corp\nlan\n";
impl Table for PrivateList {
    const NODES_BITS_CHILDREN: u32 = 10;
    const NODES_BITS_ICANN: u32 = 1;
    const NODES_BITS_TEXT_OFFSET: u32 = 15;
    const NODES_BITS_TEXT_LENGTH: u32 = 6;
    const CHILDREN_BITS_WILDCARD: u32 = 1;
    const CHILDREN_BITS_NODE_TYPE: u32 = 2;
    const CHILDREN_BITS_HI: u32 = 14;
    const CHILDREN_BITS_LO: u32 = 14;
    const NODE_TYPE_NORMAL: u32 = 0;
    const NODE_TYPE_EXCEPTION: u32 = 1;
    const NUM_TLD: u32 = 2;
    //                          corp lan dev intra www
    const TEXT: &'static str = "corplandevintrawww";
    const NODES: &'static [u32] = &[
        (1 << 22) | 4,              // n0 corp  -> c1
        (4 << 6) | 3,               // n1 lan   -> c0
        (2 << 22) | (7 << 6) | 3,   // n2 dev   -> c2
        (10 << 6) | 5,              // n3 intra -> c0
        (3 << 22) | (15 << 6) | 3,  // n4 www   -> c3
    ];
    const CHILDREN: &'static [u32] = &[
        0,                                         // c0: leaf, normal
        (4 << 14) | 2,                             // c1: n2..n4, normal
        (1 << 30) | (2 << 28) | (5 << 14) | 4,     // c2: n4..n5, parent-only, wildcard
        1 << 28,                                   // c3: leaf, exception
    ];
}

/// Lookups on the private list, compared with the list algorithm over its five rules.
fn private_table_lookups(rep: &mut Report, when: &str) {
    let reference = RefPsl::parse(PRIVATE_RULES);
    let provider = ListProvider::<PrivateList>::new();
    let mut queries: Vec<String> = Vec::new();
    for r in reference.rules.iter() {
        for (q, _) in rule_queries(r) {
            queries.push(q);
        }
    }
    for q in ["com", "example.com", "www.example.co.uk", "a.b.c", "dev.corp", "x.dev.corp", "y.x.dev.corp", "www.dev.corp", "a.www.dev.corp", "portal.intra.corp", "printer.lan", "lan", "corp", "a.corp"] {
        queries.push(q.to_string());
    }
    for q in queries {
        rep.eval();
        let case = json!({"query": q, "table": "a private five-rule list (second Table implementation)", "when": when});
        match catch(|| (provider.public_suffix(&q).to_string(), provider.effective_tld_plus_one(&q).ok().map(|s| s.to_string()))) {
            Err((sig, d)) => rep.violate(&format!("lookup on a second Table implementation {sig}"), d, case),
            Ok((ps, e1)) => {
                rep.count("private_table_lookups");
                let (want, _) = reference.public_suffix(&q);
                if ps != want {
                    rep.violate("a second Table implementation used next to the shipped one: public_suffix differs from the list algorithm over its rules", format!("table says {ps:?}, list algorithm says {want:?}"), case.clone());
                }
                let want1 = reference.etld_plus_one(&q).ok().map(|s| s.to_string());
                if e1 != want1 {
                    rep.violate("a second Table implementation used next to the shipped one: eTLD+1 differs from the list algorithm over its rules", format!("table says {e1:?}, list algorithm says {want1:?}"), case);
                }
            }
        }
    }
}

/// a provider object that lives for the whole run
static KEPT: PublicSuffixList = PublicSuffixList::new();
/// A provider obtained the other documented way, through `Default` (what `#[derive(Default)]` on an
/// embedding struct produces); it is the same list and has to give the same answers.
static DEFAULTED: std::sync::OnceLock<PublicSuffixList> = std::sync::OnceLock::new();

/// One provider object used by several threads at once (a client requires `Sync` of its provider and is
/// meant to be shared): every answer equals the one a fresh object gives to the same name in one thread.
fn shared_object_lookups(rep: &mut Report, psl: &RefPsl, seed: u64, thorough: bool) {
    static SHARED: PublicSuffixList = PublicSuffixList::new();
    // names under many different top-level labels, answers taken from fresh objects (each of these
    // names is also compared with the reference in the main loop)
    let mut names: Vec<String> = Vec::new();
    for r in psl.rules.iter() {
        if r.line % 3 == 0 || r.kind != RuleKind::Normal {
            names.push(format!("b.a.{}", r.ascii));
            names.push(format!("www.{}", r.ascii));
        }
    }
    let expect: Vec<(String, Option<String>, bool)> = names.iter().map(|q| (DEFAULT_PROVIDER.public_suffix(q).to_string(), DEFAULT_PROVIDER.effective_tld_plus_one(q).ok().map(|s| s.to_string()), DEFAULT_PROVIDER.is_effective_tld(q))).collect();
    let threads = if thorough { 16 } else { 8 };
    let per_thread: usize = if thorough { 1_500_000 } else { 120_000 };
    let names = std::sync::Arc::new(names);
    let expect = std::sync::Arc::new(expect);
    let stop = std::sync::Arc::new(std::sync::atomic::AtomicBool::new(false));
    let mut handles = Vec::new();
    for t in 0..threads {
        let (names, expect, stop) = (names.clone(), expect.clone(), stop.clone());
        handles.push(std::thread::spawn(move || {
            let mut rng = Rng::derive(seed, "c10threads", t as u64);
            let mut done = 0u64;
            let mut bad: Option<(String, String, String)> = None;
            for _ in 0..per_thread {
                if stop.load(std::sync::atomic::Ordering::Relaxed) {
                    break;
                }
                let k = rng.below(names.len());
                let q = &names[k];
                let got = (SHARED.public_suffix(q).to_string(), SHARED.effective_tld_plus_one(q).ok().map(|s| s.to_string()), SHARED.is_effective_tld(q));
                done += 1;
                if got != expect[k] {
                    bad = Some((q.clone(), format!("{got:?}"), format!("{:?}", expect[k])));
                    stop.store(true, std::sync::atomic::Ordering::Relaxed);
                    break;
                }
            }
            (done, bad)
        }));
    }
    let mut total = 0u64;
    for h in handles {
        match h.join() {
            Ok((done, bad)) => {
                total += done;
                if let Some((q, got, want)) = bad {
                    rep.violate("one provider object used by several threads gives an answer a fresh object does not give", format!("{q}: shared object {got}, fresh object {want}"), json!({"kind": "shared-object-threads", "query": q, "threads": threads}));
                }
            }
            Err(_) => rep.violate("lookup panicked on a provider object shared between threads", String::new(), json!({"kind": "shared-object-threads", "threads": threads})),
        }
    }
    rep.eval();
    rep.count_n("lookups_on_one_object_shared_by_threads", total);
    rep.obs("shared_object_threads", json!(threads));
    rep.obs("shared_object_distinct_names", json!(names.len()));
}

/// Check one query. `canonical`: compare with the reference; otherwise structural clauses only.
fn check(ctx: &mut Ctx, q: &str, canonical: bool, origin: &str) {
    ctx.rep.eval();
    let case = json!({"query": if q.len() > 300 { format!("{}..(len {})", &q[..q.char_indices().nth(120).map(|x| x.0).unwrap_or(q.len())], q.len()) } else { q.to_string() }, "origin": origin, "canonical": canonical, "query_len": q.len()});
    let got = catch(|| {
        let ps = DEFAULT_PROVIDER.public_suffix(q);
        let e1 = DEFAULT_PROVIDER.effective_tld_plus_one(q);
        let is = DEFAULT_PROVIDER.is_effective_tld(q);
        (ps, e1, is)
    });
    let (ps, e1, is) = match got {
        Ok(v) => v,
        Err((sig, detail)) => {
            ctx.rep.violate(&format!("lookup {sig}"), detail, case);
            return;
        }
    };
    // one provider object kept for the whole run (as a client keeps the one it is given) answers as a
    // fresh one does, whatever was asked of it before
    match catch(|| (KEPT.public_suffix(q), KEPT.effective_tld_plus_one(q).ok(), KEPT.is_effective_tld(q))) {
        Ok(k) => {
            if k != (ps, e1.as_ref().ok().copied(), is) {
                ctx.rep.violate("a provider object used before answers differently from a fresh one", format!("kept object: {k:?}; fresh object: {:?}", (ps, e1.as_ref().ok(), is)), case.clone());
            }
        }
        Err((sig, detail)) => ctx.rep.violate(&format!("lookup on a provider object used before {sig}"), detail, case.clone()),
    }
    let dflt = DEFAULTED.get_or_init(PublicSuffixList::default);
    match catch(|| (dflt.public_suffix(q), dflt.effective_tld_plus_one(q).ok(), dflt.is_effective_tld(q))) {
        Ok(k) => {
            if k != (ps, e1.as_ref().ok().copied(), is) {
                ctx.rep.violate("a provider built through Default answers differently from one built with new()", format!("Default: {k:?}; new(): {:?}", (ps, e1.as_ref().ok(), is)), case.clone());
            }
        }
        Err((sig, detail)) => ctx.rep.violate(&format!("lookup on a provider built through Default {sig}"), detail, case.clone()),
    }
    let empty_label = RefPsl::has_empty_label(q);
    // ---- structural clauses, any string
    if !is_label_suffix(q, ps) {
        ctx.rep.violate("public_suffix result is not a label-aligned suffix of the input", format!("suffix {ps:?}"), case.clone());
    }
    match e1 {
        Ok(e) => {
            if !is_label_suffix(q, e) {
                ctx.rep.violate("eTLD+1 is not a label-aligned suffix of the input", format!("etld+1 {e:?}"), case.clone());
            }
            if empty_label {
                ctx.rep.violate("name with an empty label not rejected by effective_tld_plus_one", format!("returned {e:?}"), case.clone());
            } else if labels(e) != labels(ps) + 1 {
                ctx.rep.violate("eTLD+1 does not have exactly one more label than the public suffix", format!("suffix {ps:?} etld+1 {e:?}"), case.clone());
            }
        }
        Err(_) => {}
    }
    if q.is_empty() {
        // the empty string is a degenerate name: effective_tld_plus_one rejects it (checked above),
        // whether it "is an effective TLD" is not settled by the statement -> recorded, not judged
        ctx.rep.obs("is_effective_tld_of_empty_string_not_judged", json!(is));
    } else if empty_label && is {
        ctx.rep.violate("name with an empty label accepted by is_effective_tld", String::new(), case.clone());
    }
    // ---- reference comparison, canonical names
    let mut class = "structural";
    let mixed = !canonical && mixed_safe(ctx, q);
    if mixed {
        ctx.rep.count("mixed_unicode_names_compared");
    }
    if (canonical || mixed) && !empty_label {
        let (rs, rclass) = ctx.psl.public_suffix(q);
        class = rclass;
        if ps != rs {
            ctx.rep.violate(
                &format!("public_suffix differs from the reference algorithm (rule class {rclass})"),
                format!("table says {ps:?}, list says {rs:?}"),
                case.clone(),
            );
        }
        let re = ctx.psl.etld_plus_one(q);
        match (e1, re) {
            (Ok(a), Ok(b)) if a == b => {}
            (Err(_), Err(_)) => {}
            (a, b) => ctx.rep.violate(
                &format!("effective_tld_plus_one differs from the reference algorithm (rule class {rclass})"),
                format!("table says {a:?}, list says {b:?}"),
                case.clone(),
            ),
        }
        if is != (rs == q) {
            ctx.rep.violate(
                &format!("is_effective_tld differs from the reference algorithm (rule class {rclass})"),
                format!("table says {is}, list says {}", rs == q),
                case.clone(),
            );
        }
        ctx.rep.count(&format!("class:{rclass}"));
    } else {
        ctx.rep.count(if empty_label { "class:empty-label" } else { "class:non-canonical" });
    }
    if ((canonical || mixed) && class != "default" && class != "structural") || empty_label || mixed {
        ctx.rep.nontrivial(fnv_str(q));
    }
    ctx.rep.sample_class(&format!("{origin}/{class}"), json!({"query": case["query"], "public_suffix": ps, "etld_plus_one": format!("{e1:?}"), "is_effective_tld": is}));
}

fn rule_queries(r: &crate::oracle::psl::Rule) -> Vec<(String, &'static str)> {
    let base = r.ascii.clone();
    let mut v: Vec<(String, &'static str)> = Vec::new();
    let parent = base.split_once('.').map(|x| x.1.to_string());
    match r.kind {
        RuleKind::Normal => {
            v.push((base.clone(), "rule"));
        }
        RuleKind::Wildcard => {
            v.push((base.clone(), "wildcard-parent"));
            v.push((format!("zq9.{base}"), "wildcard-instance"));
            v.push((format!("a.{base}"), "wildcard-instance"));
            // labels up to and beyond the largest legal size (63 octets) in the wildcard position
            for n in [62usize, 63, 64, 200] {
                v.push((format!("{}.{base}", "w".repeat(n)), "wildcard-instance-long-label"));
            }
        }
        RuleKind::Exception => {
            v.push((base.clone(), "exception"));
        }
    }
    if r.line % 4 == 0 {
        // long labels directly left of the rule
        v.push((format!("{}.{base}", "l".repeat(63)), "long-label-left-of-rule"));
        v.push((format!("{}.{base}", "l".repeat(64)), "long-label-left-of-rule"));
    }
    let stems: Vec<String> = v.iter().map(|x| x.0.clone()).collect();
    for s in stems {
        v.push((format!("a.{s}"), "plus1"));
        v.push((format!("b.a.{s}"), "plus2"));
        v.push((format!("xn--c.b-0.a.{s}"), "plus3"));
    }
    if let Some(p) = parent {
        v.push((p.clone(), "leading-removed"));
        v.push((format!("zqx0.{p}"), "leading-replaced"));
        v.push((format!("a.zqx0.{p}"), "leading-replaced-plus1"));
    } else {
        v.push((format!("{base}x"), "tld-altered"));
    }
    v
}

fn arbitrary(ctx: &mut Ctx, rng: &mut Rng, n: usize, thorough: bool) {
    let fixed: Vec<String> = vec![
        "".into(), ".".into(), "..".into(), "...".into(), "a".into(), ".a".into(), "a.".into(), "a..b".into(),
        ".com".into(), "com.".into(), "example..com".into(), "example.com.".into(), ".example.com".into(),
        "EXAMPLE.COM".into(), "Example.Co.Uk".into(),
        // capitals next to characters whose lower-case form has another UTF-8 length
        // the characters IDNA maps to a full stop are not label separators for the list algorithm
        "example\u{3002}com".into(), "www\u{ff0e}example.co.uk".into(), "a\u{ff61}b\u{ff61}kobe.jp".into(), "\u{3002}com".into(), "com\u{3002}".into(), "a.\u{ff0e}.uk".into(),
        "A\u{23a}".into(), "Example.\u{1e9e}".into(), "Www.Example.\u{212a}".into(), "Shop.\u{2126}".into(), "\u{130}stanbul.Example.TR".into(), "\u{23a}.Com".into(), "a.\u{212a}.UK".into(), "公司.cn".into(), "例え.jp".into(), "b\u{fc}cher.de".into(),
        "\u{0}".into(), "a\u{0}.com".into(), "\u{202e}moc.elpmaxe".into(), "🙂.🙂".into(), " ".into(), "a b.com".into(),
        "xn--".into(), "xn--.com".into(), "*.ck".into(), "!www.ck".into(), "*".into(), "*.*".into(),
        "a.b.c.d.e.f.g.h.i.j.k.l.m.n.o.p.q.r.s.t.u.v.w.x.y.z.com".into(),
        // names made of numbers (the list algorithm does not know about address literals)
        "192.168.0.1".into(), "10.0.0.1".into(), "1.2.3.4".into(), "255.255.255.255".into(), "127.0.0.1".into(), "0.0.0.0".into(), "1.1".into(), "1.2.3".into(), "1.2.3.4.5".into(),
        "www.192.168.0.1".into(), "::ffff:192.168.0.1".into(), "::1".into(), "[::1]".into(), "2001:db8::1".into(), "0x7f.1".into(), "192.168.0.256".into(),
        "www.ck".into(), "a.www.ck".into(), "foo.ck".into(), "a.foo.ck".into(), "city.kawasaki.jp".into(),
        "foo.kawasaki.jp".into(), "a.b.kobe.jp".into(), "co.uk".into(), "a.co.uk".into(), "uk".into(),
    ];
    for s in &fixed {
        let canonical = s.bytes().all(|b| b.is_ascii_lowercase() || b.is_ascii_digit() || b == b'-' || b == b'.');
        check(ctx, s, canonical, "arbitrary-fixed");
    }
    // very long inputs
    let many = if thorough { 10_000 } else { 2_000 };
    let long_labels: String = std::iter::repeat("a").take(many).collect::<Vec<_>>().join(".");
    check(ctx, &format!("{long_labels}.com"), true, "long-many-labels");
    check(ctx, &format!("{long_labels}..com"), true, "long-many-labels-empty");
    let big = "x".repeat(if thorough { 1 << 20 } else { 1 << 16 });
    check(ctx, &format!("{big}.co.uk"), true, "long-label");
    check(ctx, &big, true, "long-single-label");
    let dots = ".".repeat(if thorough { 100_000 } else { 5_000 });
    check(ctx, &dots, true, "only-dots");
    // random strings over a hostile alphabet
    let alphabet: Vec<&str> = vec!["a", "b", "z", "0", "-", ".", ".", ".", "A", "é", "公", "xn--", "com", "uk", "co", "jp", "ck", "www", "*", "!", " ", "\u{0}", "\u{23a}", "\u{1e9e}", "\u{212a}", "\u{2126}", "\u{130}", "UK", "\u{3002}", "\u{ff0e}", "\u{ff61}"];
    for _ in 0..n {
        let len = rng.range(0, 12);
        let mut s = String::new();
        for _ in 0..len {
            s.push_str(alphabet[rng.below(alphabet.len())]);
        }
        let canonical = s.bytes().all(|b| b.is_ascii_lowercase() || b.is_ascii_digit() || b == b'-' || b == b'.');
        check(ctx, &s, canonical, "arbitrary-random");
    }
}

pub fn run(args: &Args) -> Report {
    let mut rep = Report::new(
        "C10",
        &args.tier,
        args.seed,
        "queries derived from every rule of public_suffix_list.dat (as is, +1/+2/+3 labels, leading label removed/replaced, wildcard instantiated, exception +/- a label) plus labels of 62-200 octets in wildcard positions and left of rules, plus arbitrary strings, every query also put to one provider object kept for the whole run and to one built through Default, plus lookups on one provider object from 8-16 threads at once, plus a second Table implementation (a private five-rule list) used in the same process before and after the shipped one; distinct by query string; non-trivial when the reference says an explicit rule (normal, wildcard or exception) decides it, or the name has an empty label",
    );
    rep.assumptions.push("idna crate converts IDN rules to the punycode form the table is keyed in".into());
    rep.assumptions.push("reference comparison for canonical (lower-case ASCII/punycode) names, as the crate documents, and for lower-case names with non-ASCII labels none of whose label-aligned suffixes is the Unicode presentation of an IDN rule (for these the list algorithm has one answer whichever presentation of the rules is used); other strings get the structural clauses".into());
    let psl = match RefPsl::load() {
        Ok(p) => p,
        Err(e) => {
            rep.inconclusive(format!("cannot load the shipped list: {e}"));
            return rep;
        }
    };
    rep.obs("rules_in_list", json!(psl.rules.len()));
    rep.obs("rules_by_kind", json!({
        "normal": psl.rules.iter().filter(|r| r.kind == RuleKind::Normal).count(),
        "wildcard": psl.rules.iter().filter(|r| r.kind == RuleKind::Wildcard).count(),
        "exception": psl.rules.iter().filter(|r| r.kind == RuleKind::Exception).count(),
        "idn": psl.rules.iter().filter(|r| r.ascii != r.unicode).count(),
    }));
    let mut rng = Rng::derive(args.seed, "c10", 0);
    let idn_unicode = psl.rules.iter().filter(|r| r.ascii != r.unicode).map(|r| r.unicode.clone()).collect();
    // a private list is used in the same process: before the shipped one's first lookup in the
    // overflow-checking build, after its last in the release build, and once more at the end
    let private_first = args.engine.as_deref() != Some("release");
    if private_first && args.get("replay").is_none() {
        private_table_lookups(&mut rep, "before the first lookup on the shipped list");
    }
    let mut ctx = Ctx { psl: &psl, rep: &mut rep, idn_unicode };

    if let Some(path) = args.get("replay") {
        let v: serde_json::Value = serde_json::from_str(&std::fs::read_to_string(path).unwrap_or_default()).unwrap_or_default();
        if let Some(q) = v["case"]["query"].as_str() {
            let canonical = v["case"]["canonical"].as_bool().unwrap_or(true);
            check(&mut ctx, q, canonical, "replay");
            check(&mut ctx, &format!("a.{q}"), canonical, "replay+1");
        }
        return rep;
    }

    // every rule, both tiers (exhaustive over rules)
    for r in psl.rules.iter() {
        for (q, origin) in rule_queries(r) {
            check(&mut ctx, &q, true, origin);
        }
        if r.ascii != r.unicode {
            // Unicode presentation: structural clauses only
            check(&mut ctx, &r.unicode, false, "rule-unicode-form");
            check(&mut ctx, &format!("a.{}", r.unicode), false, "rule-unicode-form");
        }
        // Unicode labels to the left of the rule (every 8th rule): the labels are opaque to the list
        // algorithm, the answers are those of the ASCII rule
        if r.line % 8 == 0 {
            for pre in ["b\u{fc}cher", "www.b\u{fc}cher", "\u{65e5}\u{672c}\u{8a9e}.c", "\u{e9}"] {
                check(&mut ctx, &format!("{pre}.{}", r.ascii), false, "unicode-labels-left-of-rule");
            }
        }
        // capitalised spellings of the rule's labels (every 4th rule, every exception and wildcard rule)
        if r.line % 4 == 0 || r.kind != RuleKind::Normal {
            let cap_first = {
                let mut c = r.ascii.chars();
                c.next().map(|f| f.to_ascii_uppercase().to_string() + c.as_str()).unwrap_or_default()
            };
            let cap_second = match r.ascii.split_once('.') {
                Some((a, b)) => {
                    let mut c = b.chars();
                    format!("{a}.{}", c.next().map(|f| f.to_ascii_uppercase().to_string() + c.as_str()).unwrap_or_default())
                }
                None => r.ascii.to_ascii_uppercase(),
            };
            for q in [cap_first.clone(), format!("foo.{cap_first}"), format!("a.foo.{cap_second}"), format!("WWW.{}", r.ascii)] {
                check(&mut ctx, &q, false, "capitalised-labels");
            }
        }
        // upper-case presentation: structural only
        if r.line % 16 == 0 {
            check(&mut ctx, &r.ascii.to_ascii_uppercase(), false, "rule-upper-case");
        }
        if args.thorough() {
            // random extra labels around every rule
            for _ in 0..8 {
                let l1 = rng.ascii_label(1, 12);
                let l2 = rng.ascii_label(1, 5);
                check(&mut ctx, &format!("{l1}.{}", r.ascii), true, "random-plus1");
                check(&mut ctx, &format!("{l2}.{l1}.{}", r.ascii), true, "random-plus2");
                if let Some((_, p)) = r.ascii.split_once('.') {
                    check(&mut ctx, &format!("{l1}.{p}"), true, "random-leading-replaced");
                }
            }
        }
    }
    // probes derived from the table's own contents
    match catch(table_rules) {
        Ok(rules) => {
            ctx.rep.obs("rules_encoded_in_table", json!(rules.len()));
            for (path, _ty, wc) in &rules {
                check(&mut ctx, path, true, "table-node");
                check(&mut ctx, &format!("a.{path}"), true, "table-node-plus1");
                check(&mut ctx, &format!("b.a.{path}"), true, "table-node-plus2");
                if *wc {
                    check(&mut ctx, &format!("zq9.{path}"), true, "table-wildcard-instance");
                    check(&mut ctx, &format!("a.zq9.{path}"), true, "table-wildcard-instance-plus1");
                }
            }
        }
        Err((sig, d)) => ctx.rep.violate(&format!("table walk {sig}"), d, json!({"kind": "table-walk"})),
    }
    let n_arbitrary = args.size(20_000, 300_000);
    arbitrary(&mut ctx, &mut rng, n_arbitrary, args.thorough());
    if !cfg!(miri) {
        shared_object_lookups(&mut rep, &psl, args.seed, args.thorough());
    }
    private_table_lookups(&mut rep, "after the lookups on the shipped list");
    rep.exhaustive = true;
    rep.obs("exhaustive_over", json!("all rules of the shipped list (arbitrary strings are sampled)"));
    if rep.get("class:normal") == 0 || rep.get("class:wildcard") == 0 || rep.get("class:exception") == 0 {
        rep.inconclusive("no query was decided by each of the three rule classes".into());
    }
    rep
}
