//! C09 — PRF results are the specified HMAC, per credential, and gated on verification.

use passkey_types::webauthn::{AuthenticationExtensionsPrfOutputs, UserVerificationRequirement};
use serde_json::{json, Value};

use crate::{
    collab::{CredSnap, Disc, Ev, UvOutcome},
    oracle::{self, authdata},
    props::{
        c02::replay_index,
        cer::{self, AllowSpec, AuthSpec, CdMode, Eval, IdRef, KeyRef, Op, OriginSpec, Outcome, PrfInputs, PrfSpec, RegSpec, Step, World},
    },
    report::{hex_short, Report},
    rng::{fnv_str, Rng},
    util::{AuthCfg, HmacCfg},
    worker::catch,
    Args,
};

fn salt(input: &[u8], hashed_variant: bool) -> Option<[u8; 32]> {
    if hashed_variant {
        input.try_into().ok()
    } else {
        let mut m = b"WebAuthn PRF".to_vec();
        m.push(0);
        m.extend_from_slice(input);
        Some(oracle::sha256(&m))
    }
}

fn gen_eval(rng: &mut Rng, hashed: bool, allow_bad_len: bool) -> Eval {
    let len = |rng: &mut Rng| {
        if hashed && !(allow_bad_len && rng.chance(1, 3)) {
            32
        } else {
            *rng.pick(&[0usize, 1, 31, 32, 33, 100])
        }
    };
    let la = len(rng);
    let a = rng.bytes(la);
    let b = if rng.bool() {
        let lb = len(rng);
        Some(rng.bytes(lb))
    } else {
        None
    };
    (a, b)
}

fn verified(st: &Step) -> Option<bool> {
    st.events.iter().find_map(|e| match &e.ev {
        Ev::CheckUser { result: Ok((_, v)), .. } => Some(*v),
        _ => None,
    })
}

fn touched(st: &Step) -> Vec<&'static str> {
    st.events.iter().filter(|e| matches!(e.ev, Ev::CheckUser { .. } | Ev::Find { .. } | Ev::Save { .. } | Ev::Update { .. })).map(|e| e.ev.kind()).collect()
}

/// Which inputs does the specification select? (variant-hashed?, eval)
fn selected_inputs(prf: &PrfSpec, by: &[(String, Eval)], by_h: &[(String, Eval)], used_id: Option<&[u8]>) -> Option<(bool, Eval)> {
    // `prf` takes precedence over `prfAlreadyHashed`
    let (hashed, inputs, resolved) = if let Some(p) = &prf.prf {
        (false, p, by)
    } else if let Some(p) = &prf.hashed {
        (true, p, by_h)
    } else {
        return None;
    };
    if let Some(id) = used_id {
        let key = oracle::b64url(id);
        if let Some((_, e)) = resolved.iter().rev().find(|(k, _)| oracle::b64_decode_any(k).as_deref() == Some(id) || *k == key) {
            return Some((hashed, e.clone()));
        }
    }
    inputs.eval.clone().map(|e| (hashed, e))
}

fn check_results(
    rep: &mut Report,
    what: &str,
    case: &Value,
    out: &AuthenticationExtensionsPrfOutputs,
    sel: &(bool, Eval),
    admissible: &[(&'static str, Vec<u8>)],
) {
    let Some(res) = &out.results else { return };
    rep.count(&format!("{what}_results_compared"));
    let (hashed, (in1, in2)) = sel;
    let Some(s1) = salt(in1, *hashed) else {
        rep.violate(&format!("{what}: PRF result produced for a pre-hashed input that is not 32 bytes"), String::new(), case.clone());
        return;
    };
    let mut matched: Option<&'static str> = None;
    for (name, secret) in admissible {
        if oracle::hmac_sha256(secret, &s1).as_slice() == res.first.as_slice() {
            matched = Some(name);
        }
    }
    let Some(which) = matched else {
        rep.violate(
            &format!("{what}: first PRF result is not HMAC-SHA-256(admissible secret, salt) for any admissible secret"),
            format!("admissible: {:?}; result {}", admissible.iter().map(|a| a.0).collect::<Vec<_>>(), hex_short(&res.first)),
            case.clone(),
        );
        return;
    };
    rep.count(&format!("{what}_keyed_with:{which}"));
    rep.sample_class(&format!("{what}/{which}/{}", if *hashed { "prfAlreadyHashed" } else { "prf" }), json!({"case": case, "first_result": hex_short(&res.first), "keyed_with": which}));
    if let Some(r2) = &res.second {
        match in2.as_ref().and_then(|i| salt(i, *hashed)) {
            None => rep.violate(&format!("{what}: second PRF result without a (valid) second input"), String::new(), case.clone()),
            Some(s2) => {
                let secret = &admissible.iter().find(|a| a.0 == which).unwrap().1;
                if oracle::hmac_sha256(secret, &s2).as_slice() != r2.as_slice() {
                    rep.violate(&format!("{what}: second PRF result is not the HMAC of the second salt under the same secret"), String::new(), case.clone());
                }
            }
        }
    }
}

fn malformed_reason(st: &Step, spec: &PrfSpec, registration: bool, allow: Option<&Option<Vec<Vec<u8>>>>) -> Option<&'static str> {
    let inputs = spec.prf.as_ref().map(|p| (false, p)).or(spec.hashed.as_ref().map(|p| (true, p)));
    // both members are validated in order: prf first, then prfAlreadyHashed if prf produced nothing
    let (hashed, p) = inputs?;
    let resolved = if hashed { &st.resolved_by_cred_hashed } else { &st.resolved_by_cred };
    if registration {
        if p.by_cred.is_some() {
            return Some("per-credential inputs at registration");
        }
    } else if let Some(by) = &p.by_cred {
        if !by.is_empty() {
            let allow_list = allow.and_then(|a| a.as_ref());
            if allow_list.map_or(true, |l| l.is_empty()) {
                return Some("per-credential inputs without an allow list");
            }
            for (k, _) in resolved {
                if k.is_empty() {
                    return Some("empty credential key");
                }
                match oracle::b64_decode_any(k) {
                    None => return Some("undecodable credential key"),
                    Some(id) => {
                        if !allow_list.unwrap().contains(&id) {
                            return Some("credential key not in the allow list");
                        }
                    }
                }
            }
        }
    }
    if hashed {
        let bad = |e: &Eval| e.0.len() != 32 || e.1.as_ref().map_or(false, |b| b.len() != 32);
        if p.eval.as_ref().map_or(false, bad) || (!registration && resolved.iter().any(|(_, e)| bad(e))) {
            return Some("pre-hashed input that is not 32 bytes");
        }
    }
    None
}

fn monitor(rep: &mut Report, history: u64, st: &Step) {
    let capability = st.cfg.hmac != HmacCfg::None;
    let case = json!({"index": history, "step": st.index, "op": st.op.json(), "config": st.cfg.json()});
    match (st.op, st.outcome) {
        (Op::Register(r), Outcome::Reg(res)) => {
            rep.eval();
            let requested = r.prf.prf.is_some() || r.prf.hashed.is_some();
            let mal = if capability { malformed_reason(st, &r.prf, true, None) } else { None };
            let shape = format!("reg|{:?}|mc{}|{:?}|{:?}|prf{}|h{}|mal{:?}", st.cfg.hmac, st.cfg.hmac_mc, r.uv, r.uv_outcome, r.prf.prf.is_some(), r.prf.hashed.is_some(), mal);
            if let Some(why) = mal {
                rep.count("malformed_requests");
                rep.nontrivial(fnv_str(&shape));
                rep.sample_class(&format!("malformed/{why}"), json!({"case": case, "result": st.outcome.err_text()}));
                if res.is_ok() {
                    rep.violate(&format!("malformed PRF request accepted at registration ({why})"), String::new(), case.clone());
                }
                let t = touched(st);
                if !t.is_empty() {
                    rep.violate(&format!("malformed PRF request reached the authenticator at registration ({why})"), format!("{t:?}"), case.clone());
                }
                return;
            }
            let Ok(cred) = res else {
                rep.count("register_err");
                return;
            };
            let new: Vec<&CredSnap> = st.after.iter().filter(|a| !st.before.contains(a)).collect();
            let stored = new.first().copied();
            let out = cred.client_extension_results.prf.as_ref();
            if !capability {
                if out.is_some() {
                    rep.violate("PRF output from an authenticator without the capability (registration)", String::new(), case.clone());
                }
                if stored.map_or(false, |s| s.hmac_uv.is_some() || s.hmac_no_uv.is_some()) {
                    rep.violate("PRF secret stored by an authenticator without the capability", String::new(), case.clone());
                }
                rep.count("no_capability_checked");
                if requested {
                    rep.nontrivial(fnv_str(&shape));
                }
                return;
            }
            if let (Some(out), Some(stored)) = (out, stored) {
                rep.nontrivial(fnv_str(&shape));
                let has = stored.hmac_uv.is_some();
                if out.enabled != Some(has) {
                    rep.violate("registration reports prf.enabled differently from whether secrets were stored", format!("enabled {:?}, stored {has}", out.enabled), case.clone());
                }
                rep.count("enabled_checked");
                if st.cfg.hmac == HmacCfg::UvOnly && stored.hmac_no_uv.is_some() {
                    rep.violate("non-gated PRF secret stored under a UV-only configuration", String::new(), case.clone());
                }
                if let Some(sel) = selected_inputs(&r.prf, &[], &[], None) {
                    let mut adm: Vec<(&'static str, Vec<u8>)> = Vec::new();
                    if verified(st) == Some(true) {
                        if let Some(s) = &stored.hmac_uv {
                            adm.push(("uv-gated", s.clone()));
                        }
                    }
                    if let Some(s) = &stored.hmac_no_uv {
                        adm.push(("non-gated", s.clone()));
                    }
                    check_results(rep, "registration", &case, out, &sel, &adm);
                }
            } else if requested && out.is_none() && stored.map_or(false, |s| s.hmac_uv.is_some()) {
                rep.violate("secrets stored at registration but no prf output (enabled) reported", String::new(), case.clone());
            }
        }
        (Op::Authenticate(a), Outcome::Auth(res)) => {
            rep.eval();
            // the secrets stored with a credential are what every later result is keyed with: no
            // assertion, successful or not, changes them
            for b in st.before.iter() {
                if let Some(now) = st.after.iter().find(|c| c.id == b.id) {
                    if now.hmac_uv != b.hmac_uv || now.hmac_no_uv != b.hmac_no_uv {
                        rep.violate("an assertion changed the PRF secrets stored with a credential", format!("credential {}: gated secret {} -> {}, non-gated {} -> {}", crate::report::hex_short(&b.id), b.hmac_uv.is_some(), now.hmac_uv.is_some(), b.hmac_no_uv.is_some(), now.hmac_no_uv.is_some()), case.clone());
                    }
                }
            }
            rep.count("stored_secrets_compared_across_assertions");
            let requested = a.prf.prf.is_some() || a.prf.hashed.is_some();
            let mal = if capability { malformed_reason(st, &a.prf, false, Some(&st.resolved_allow)) } else { None };
            let shape = format!(
                "auth|{:?}|{:?}|{:?}|prf{}|h{}|by{}|mal{:?}|allow{}",
                st.cfg.hmac, a.uv, a.uv_outcome, a.prf.prf.is_some(), a.prf.hashed.is_some(),
                a.prf.prf.as_ref().or(a.prf.hashed.as_ref()).map_or(false, |p| p.by_cred.is_some()), mal, st.resolved_allow.as_ref().map_or(9, |l| l.len().min(3))
            );
            if let Some(why) = mal {
                rep.count("malformed_requests");
                rep.nontrivial(fnv_str(&shape));
                rep.sample_class(&format!("malformed/{why}"), json!({"case": case, "result": st.outcome.err_text()}));
                if res.is_ok() {
                    rep.violate(&format!("malformed PRF request accepted at authentication ({why})"), String::new(), case.clone());
                }
                let t = touched(st);
                if !t.is_empty() {
                    rep.violate(&format!("malformed PRF request reached the authenticator at authentication ({why})"), format!("{t:?}"), case.clone());
                }
                return;
            }
            let Ok(cred) = res else {
                rep.count("authenticate_err");
                return;
            };
            let out = cred.client_extension_results.prf.as_ref();
            if !capability {
                if out.is_some() {
                    rep.violate("PRF output from an authenticator without the capability (authentication)", String::new(), case.clone());
                }
                if requested {
                    rep.nontrivial(fnv_str(&shape));
                }
                rep.count("no_capability_checked");
                return;
            }
            let Some(out) = out else { return };
            rep.nontrivial(fnv_str(&shape));
            let Some(used) = st.before.iter().find(|c| c.id == cred.raw_id.as_slice()) else {
                rep.violate("assertion with PRF output names a credential that is not in the store", String::new(), case.clone());
                return;
            };
            let uv_flag = authdata::decode(&cred.response.authenticator_data).map(|d| d.flags & authdata::UV != 0).unwrap_or(false);
            let was_verified = verified(st) == Some(true) && uv_flag;
            let mut adm: Vec<(&'static str, Vec<u8>)> = Vec::new();
            if was_verified {
                if let Some(s) = &used.hmac_uv {
                    adm.push(("uv-gated", s.clone()));
                }
            } else if let Some(s) = &used.hmac_no_uv {
                adm.push(("non-gated", s.clone()));
            }
            match selected_inputs(&a.prf, &st.resolved_by_cred, &st.resolved_by_cred_hashed, Some(&cred.raw_id)) {
                Some(sel) => {
                    let per_cred = a.prf.prf.as_ref().or(a.prf.hashed.as_ref()).and_then(|p| p.by_cred.as_ref()).is_some();
                    if per_cred {
                        rep.count("per_credential_inputs_present");
                    }
                    check_results(rep, "authentication", &case, out, &sel, &adm);
                }
                None => {
                    if out.results.is_some() {
                        rep.violate("PRF results produced although no inputs apply to the used credential", String::new(), case.clone());
                    }
                }
            }
        }
        _ => {}
    }
}

/// Credentials whose PRF secrets were not made by this library's make_credential (imported, written by
/// another implementation): HMAC-SHA-256 takes a key of any length, and "keyed with one of the two
/// secrets stored with the credential" means the whole stored secret.
fn imported_secrets(rep: &mut Report, seed: u64, idx: u64) {
    use crate::{exec::block_on, util::{descriptor, ga_request, seeded_passkey, Rig}};
    use passkey_types::ctap2::{extensions::{AuthenticatorPrfInputs, AuthenticatorPrfValues}, get_assertion};
    let mut rng = Rng::derive(seed, "c09imp", idx);
    rep.eval();
    let l_uv = *rng.pick(&[16usize, 31, 32, 33, 48, 64, 65, 100]);
    let l_no = *rng.pick(&[0usize, 16, 32, 33, 64, 100]);
    let uv_secret = rng.bytes(l_uv);
    let no_uv_secret = if l_no == 0 { None } else { Some(rng.bytes(l_no)) };
    let verified = rng.bool();
    let rig = Rig::new(Disc::Full, UvOutcome::Check { presence: true, verification: verified }, Some(true));
    let id = rng.bytes(20);
    let (pk, _, _) = seeded_passkey(&mut rng, "example.com", &id, Some(b"u"), None, Some((uv_secret.clone(), no_uv_secret.clone())));
    rig.store.insert_raw(pk);
    // the authenticator that serves the credential need not be configured like the one that created it
    // (a synced vault, a configuration changed between releases): what is stored with the credential decides
    let serving = *Rng::derive(seed, "c09impcfg", idx).pick(&[HmacCfg::WithoutUv, HmacCfg::UvOnly]);
    let mut auth = rig.auth(AuthCfg { hmac: serving, ..Default::default() });
    let salt1 = rng.arr32();
    let salt2 = rng.bool().then(|| rng.arr32());
    let case = json!({"index": idx, "level": "ctap", "part": "imported credential", "prf_secret_lengths": [l_uv, l_no], "user_verified": verified, "second_salt": salt2.is_some(), "serving_authenticator_hmac_secret_configuration": format!("{serving:?}")});
    rep.nontrivial(fnv_str(&format!("imp|{l_uv}|{l_no}|{verified}|{}|{serving:?}", salt2.is_some())));
    let req = ga_request("example.com", &[2u8; 32], Some(vec![descriptor(&id)]), Some(get_assertion::ExtensionInputs { hmac_secret: None, prf: Some(AuthenticatorPrfInputs { eval: Some(AuthenticatorPrfValues { first: salt1, second: salt2 }), eval_by_credential: None }) }), true, verified);
    let secret = if verified { Some(uv_secret) } else { no_uv_secret };
    match block_on(auth.get_assertion(req)) {
        Ok(resp) => {
            let out = resp.unsigned_extension_outputs.as_ref().and_then(|u| u.prf.as_ref()).map(|p| &p.results);
            match (out, &secret) {
                (Some(r), Some(s)) => {
                    rep.count("imported_secret_results_compared");
                    // (an absent second result is not a wrong result: the UV-only configuration gives none)
                    let second_ok = r.second == salt2.map(|x| oracle::hmac_sha256(s, &x)) || (serving == HmacCfg::UvOnly && r.second.is_none());
                    if r.first != oracle::hmac_sha256(s, &salt1) || !second_ok {
                        rep.violate("ctap: assertion PRF result is not HMAC-SHA-256(the stored secret, salt) for an imported credential", format!("stored secret of {} bytes", s.len()), case);
                    }
                }
                (Some(_), None) => rep.violate("ctap: PRF result although the credential holds no secret admissible for this ceremony", String::new(), case),
                (None, _) => rep.count("imported_secret_no_output"),
            }
        }
        Err(e) => {
            rep.count("imported_secret_refused");
            if secret.is_some() {
                rep.violate("ctap: PRF evaluation refused for an imported credential that holds the admissible secret", format!("status {:#x}, secret of {} bytes", crate::util::status_byte_ref(&e), secret.as_ref().map_or(0, |s| s.len())), case);
            }
        }
    }
}

/// CTAP2-level workload: salts are given directly (no hashing), `hmac-secret` can be requested
/// explicitly, per-credential salts are keyed by raw credential ids.
fn ctap_level(rep: &mut Report, seed: u64, idx: u64) {
    use crate::{exec::block_on, util::{descriptor, ga_request, mc_request, pk_param, Rig}};
    use passkey_types::ctap2::{extensions::{AuthenticatorPrfInputs, AuthenticatorPrfValues}, get_assertion, make_credential};
    let mut rng = Rng::derive(seed, "c09ctap", idx);
    let cfg = AuthCfg { counters: rng.bool(), id_len: None, hmac: *rng.pick(&[HmacCfg::None, HmacCfg::UvOnly, HmacCfg::WithoutUv, HmacCfg::WithoutUv]), hmac_mc: rng.bool(), ..Default::default() };
    let verified = !rng.chance(1, 3);
    let rig = Rig::new(Disc::Full, UvOutcome::Check { presence: true, verification: verified }, Some(true));
    let mut auth = rig.auth(cfg);
    let capability = cfg.hmac != HmacCfg::None;
    let mut ids: Vec<Vec<u8>> = Vec::new();
    for r in 0..rng.range(1, 2) {
        rep.eval();
        let hmac_secret = *rng.pick(&[None, Some(true), Some(false)]);
        let eval = if rng.chance(2, 3) { Some(AuthenticatorPrfValues { first: rng.arr32(), second: if rng.bool() { Some(rng.arr32()) } else { None } }) } else { None };
        let prf = if rng.chance(3, 4) { Some(AuthenticatorPrfInputs { eval: eval.clone(), eval_by_credential: None }) } else { None };
        let uv_req = verified && rng.bool();
        let ext = if hmac_secret.is_some() || prf.is_some() { Some(make_credential::ExtensionInputs { hmac_secret, hmac_secret_mc: None, prf: prf.clone() }) } else { None };
        let case = json!({"index": idx, "level": "ctap", "step": format!("make#{r}"), "config": cfg.json(), "hmac_secret": hmac_secret, "prf_requested": prf.is_some(), "eval": eval.is_some(), "uv_requested": uv_req, "user_verified": verified});
        let before = rig.store.snapshot();
        let res = block_on(auth.make_credential(mc_request("example.com", &[b'c', r as u8], &[1u8; 32], vec![pk_param(coset::iana::Algorithm::ES256)], None, ext, false, true, uv_req)));
        let after = rig.store.snapshot();
        let Ok(resp) = res else {
            rep.count("ctap_make_err");
            continue;
        };
        let Some(stored) = after.iter().find(|a| !before.contains(a)).cloned() else { continue };
        ids.push(stored.id.clone());
        let out = resp.unsigned_extension_outputs.as_ref().and_then(|u| u.prf.as_ref());
        rep.nontrivial(fnv_str(&format!("ctap-make|{:?}|{}|{hmac_secret:?}|{}|{}|{uv_req}|{verified}", cfg.hmac, cfg.hmac_mc, prf.is_some(), eval.is_some())));
        if !capability {
            rep.count("no_capability_checked");
            if out.is_some() {
                rep.violate("ctap: PRF output from an authenticator without the capability (registration)", String::new(), case.clone());
            }
            if stored.hmac_uv.is_some() {
                rep.violate("ctap: PRF secret stored by an authenticator without the capability", String::new(), case.clone());
            }
            continue;
        }
        // evaluation at creation was asked for in a ceremony without verification and the new credential
        // has no secret for such ceremonies: that is an error, not a success without results
        if cfg.hmac_mc && eval.is_some() && prf.is_some() && !verified && stored.hmac_uv.is_some() && stored.hmac_no_uv.is_none() {
            rep.violate("ctap: registration succeeded although a PRF evaluation was asked for, the user was not verified and the credential has no non-gated secret", format!("prf output {:?}", out.map(|o| (o.enabled, o.results.is_some()))), case.clone());
        }
        if let Some(o) = out {
            rep.count("ctap_enabled_checked");
            if o.enabled != stored.hmac_uv.is_some() {
                rep.violate("ctap: registration reports prf.enabled differently from whether secrets were stored", format!("enabled {}, stored {}", o.enabled, stored.hmac_uv.is_some()), case.clone());
            }
            if let (Some(res), Some(ev)) = (&o.results, &eval) {
                rep.count("ctap_registration_results_compared");
                let mut adm: Vec<Vec<u8>> = Vec::new();
                if verified {
                    adm.extend(stored.hmac_uv.clone());
                }
                adm.extend(stored.hmac_no_uv.clone());
                if !adm.iter().any(|s| oracle::hmac_sha256(s, &ev.first) == res.first) {
                    rep.violate("ctap: registration PRF result is not HMAC-SHA-256(admissible secret, salt)", String::new(), case.clone());
                }
            }
        } else if prf.is_some() && stored.hmac_uv.is_some() {
            rep.violate("ctap: secrets stored at registration but no prf output reported", String::new(), case.clone());
        }
    }
    for g in 0..rng.range(1, 4) {
        if ids.is_empty() {
            break;
        }
        rep.eval();
        let k = rng.below(ids.len());
        let id = ids[k].clone();
        let default_eval = if rng.chance(2, 3) { Some(AuthenticatorPrfValues { first: rng.arr32(), second: if rng.bool() { Some(rng.arr32()) } else { None } }) } else { None };
        let mut by: Option<std::collections::HashMap<passkey_types::Bytes, AuthenticatorPrfValues>> = None;
        let mut own: Option<AuthenticatorPrfValues> = None;
        if rng.bool() {
            let mut m = std::collections::HashMap::new();
            if rng.chance(2, 3) {
                let v = AuthenticatorPrfValues { first: rng.arr32(), second: None };
                own = Some(v.clone());
                m.insert(passkey_types::Bytes::from(id.clone()), v);
            }
            m.insert(passkey_types::Bytes::from(rng.bytes(16)), AuthenticatorPrfValues { first: rng.arr32(), second: None });
            if rng.bool() {
                // ids that merely share a prefix with the used one are different credentials
                m.insert(passkey_types::Bytes::from(id[..8].to_vec()), AuthenticatorPrfValues { first: rng.arr32(), second: None });
                let mut longer = id.clone();
                longer.push(7);
                m.insert(passkey_types::Bytes::from(longer), AuthenticatorPrfValues { first: rng.arr32(), second: None });
                m.insert(passkey_types::Bytes::from(vec![]), AuthenticatorPrfValues { first: rng.arr32(), second: None });
            }
            by = Some(m);
        }
        let uv_req = verified && rng.bool();
        // a quarter of the assertions do not ask for presence; the method then reports presence or not
        let up_req = !rng.chance(1, 4);
        let present = up_req || rng.bool();
        rig.uv.set_outcome(UvOutcome::Check { presence: present, verification: verified });
        let req = ga_request("example.com", &[2u8; 32], Some(vec![descriptor(&id)]), Some(get_assertion::ExtensionInputs { hmac_secret: None, prf: Some(AuthenticatorPrfInputs { eval: default_eval.clone(), eval_by_credential: by.clone() }) }), up_req, uv_req);
        let case = json!({"index": idx, "level": "ctap", "step": format!("get#{g}"), "config": cfg.json(), "default_eval": default_eval.is_some(), "per_credential_for_used": own.is_some(), "per_credential_map": by.is_some(), "uv_requested": uv_req, "user_verified": verified, "up_requested": up_req, "presence_reported": present});
        let before = rig.store.snapshot();
        let Ok(resp) = block_on(auth.get_assertion(req)) else {
            rep.count("ctap_get_err");
            continue;
        };
        let out = resp.unsigned_extension_outputs.as_ref().and_then(|u| u.prf.as_ref());
        rep.nontrivial(fnv_str(&format!("ctap-get|{:?}|{}|{}|{}|{uv_req}|{verified}|{up_req}|{present}", cfg.hmac, default_eval.is_some(), own.is_some(), by.is_some())));
        if !capability {
            if out.is_some() {
                rep.violate("ctap: PRF output from an authenticator without the capability (authentication)", String::new(), case.clone());
            }
            continue;
        }
        let Some(o) = out else { continue };
        let Some(used) = before.iter().find(|c| c.id == id) else { continue };
        let selected = own.clone().or(default_eval.clone());
        let Some(sel) = selected else {
            rep.violate("ctap: PRF results produced although no inputs apply to the used credential", String::new(), case.clone());
            continue;
        };
        if own.is_some() {
            rep.count("per_credential_inputs_present");
        }
        let secret = if verified { used.hmac_uv.clone() } else { used.hmac_no_uv.clone() };
        rep.count("ctap_authentication_results_compared");
        match secret {
            Some(sct) if oracle::hmac_sha256(&sct, &sel.first) == o.results.first => {
                if let (Some(r2), Some(s2)) = (&o.results.second, &sel.second) {
                    if oracle::hmac_sha256(&sct, s2) != *r2 {
                        rep.violate("ctap: second PRF result is not the HMAC of the second salt under the same secret", String::new(), case.clone());
                    }
                } else if o.results.second.is_some() {
                    rep.violate("ctap: second PRF result without a second salt", String::new(), case.clone());
                }
            }
            _ => rep.violate("ctap: assertion PRF result is not HMAC-SHA-256(secret admissible for this ceremony, selected salt)", format!("user verified: {verified}; per-credential inputs for the used credential: {}", own.is_some()), case.clone()),
        }
    }
}

fn gen_history(rng: &mut Rng) -> Vec<Op> {
    let mut ops = Vec::new();
    let n_reg = rng.range(1, 3);
    let origin = OriginSpec { scheme: "https", host: "example.com".into(), port: None, android: None };
    let uv_out = |rng: &mut Rng| if rng.chance(1, 3) { UvOutcome::Check { presence: true, verification: false } } else { UvOutcome::Check { presence: true, verification: true } };
    let uvr = |rng: &mut Rng| *rng.pick(&[UserVerificationRequirement::Required, UserVerificationRequirement::Preferred, UserVerificationRequirement::Discouraged, UserVerificationRequirement::Discouraged]);
    for i in 0..n_reg {
        let hashed = rng.chance(1, 4);
        let both = rng.chance(1, 6);
        let mut prf = PrfSpec::default();
        if rng.chance(5, 6) {
            let inputs = PrfInputs {
                eval: if rng.chance(3, 4) { Some(gen_eval(rng, hashed && !both, true)) } else { None },
                by_cred: if rng.chance(1, 10) { Some(vec![(KeyRef::Raw("AAAA".into()), gen_eval(rng, hashed, false))]) } else { None },
            };
            if both {
                prf.prf = Some(inputs.clone());
                prf.hashed = Some(PrfInputs { eval: Some(gen_eval(rng, true, false)), by_cred: None });
            } else if hashed {
                prf.hashed = Some(inputs);
            } else {
                prf.prf = Some(inputs);
            }
        }
        ops.push(Op::Register(RegSpec {
            origin: origin.clone(),
            rp_id: Some("example.com".into()),
            user_id: vec![b'u', i as u8],
            user_name: "u".into(),
            challenge: rng.bytes(16),
            algs: vec![-7],
            unknown_type_for_unsupported: false,
            cd: CdMode::Default,
            uv: Some(uvr(rng)),
            resident_key: None,
            require_rk: false,
            // another extension asked for in the same call does not change what is reported about PRF
            cred_props: *rng.pick(&[None, None, Some(true), Some(false)]),
            prf,
            exclude: None,
            uv_outcome: uv_out(rng),
            attestation: 0,
            misc: 0,
        }));
    }
    let n_auth = rng.range(2, 6);
    for _ in 0..n_auth {
        let hashed = rng.chance(1, 4);
        let both = rng.chance(1, 6);
        let allow = match rng.below(6) {
            0 => AllowSpec::Absent,
            1 => AllowSpec::Empty,
            2 => {
                // the used credential together with an id that is a proper prefix / an extension of it
                let k = rng.below(4);
                AllowSpec::Ids(vec![IdRef::Existing(k), IdRef::PrefixOf(k, 8), IdRef::ExtensionOf(k, vec![0xAB, 0xCD])])
            }
            _ => AllowSpec::Ids((0..rng.range(1, 2)).map(|_| IdRef::Existing(rng.below(4))).collect()),
        };
        let by_cred = if rng.chance(1, 2) {
            let mut v = Vec::new();
            for _ in 0..rng.range(1, 2) {
                let key = match rng.below(12) {
                    // another accepted spelling of a held id (alone in the map, so that no two keys name one id)
                    10 | 11 if v.is_empty() => {
                        v.push((KeyRef::Spelled(rng.below(4), rng.range(1, 3) as u8), gen_eval(rng, hashed && !both, true)));
                        break;
                    }
                    0 => KeyRef::Raw(String::new()),
                    1 => KeyRef::Raw("!!!!".into()),
                    2 => KeyRef::Raw(oracle::b64url(&rng.bytes(16))),
                    3 => KeyRef::PrefixOf(rng.below(4), 8),
                    4 => KeyRef::ExtensionOf(rng.below(4), vec![0xAB, 0xCD]),
                    _ => KeyRef::Existing(rng.below(4)),
                };
                v.push((key, gen_eval(rng, hashed && !both, true)));
            }
            Some(v)
        } else {
            None
        };
        let inputs = PrfInputs { eval: if rng.chance(3, 4) { Some(gen_eval(rng, hashed && !both, true)) } else { None }, by_cred };
        let mut prf = PrfSpec::default();
        if both {
            prf.prf = Some(inputs);
            prf.hashed = Some(PrfInputs { eval: Some(gen_eval(rng, true, false)), by_cred: None });
        } else if hashed {
            prf.hashed = Some(inputs);
        } else {
            prf.prf = Some(inputs);
        }
        ops.push(Op::Authenticate(AuthSpec {
            rp_of: None,
            origin: origin.clone(),
            rp_id: Some("example.com".into()),
            challenge: rng.bytes(16),
            allow,
            allow_types: 0,
            cd: CdMode::Default,
            uv: uvr(rng),
            prf,
            uv_outcome: uv_out(rng),
        }));
    }
    ops
}

pub fn run(args: &Args) -> Report {
    let mut rep = Report::new(
        "C09",
        &args.tier,
        args.seed,
        "histories of 1-3 registrations and 2-6 authentications with PRF requests over configurations {no hmac-secret, UV-only, with non-UV secret} x {evaluation at creation on/off} x userVerification {required, preferred, discouraged} x user verified or not x inputs of length {0,1,31,32,33,100} (one or two values; default and per-credential; hashed, pre-hashed, both) incl. malformed requests; distinct by (operation, configuration, UV requirement, UV outcome, variant, per-credential, malformed class, allow-list size); non-trivial when an output was produced and compared, enabled was checked, or a malformed request was rejected",
    );
    rep.assumptions.push("a second result that is absent is not a wrong result; which WebauthnError rejects a malformed request is not demanded".into());
    let n = args.size(1200, 25_000) as u64;
    let only = replay_index(args);
    for h in 0..n {
        if only.map_or(false, |o| o != h) {
            continue;
        }
        let mut rng = Rng::derive(args.seed, "c09", h);
        let cfg = AuthCfg {
            counters: rng.bool(),
            id_len: None,
            hmac: *rng.pick(&[HmacCfg::None, HmacCfg::UvOnly, HmacCfg::UvOnly, HmacCfg::WithoutUv, HmacCfg::WithoutUv, HmacCfg::WithoutUv]),
            hmac_mc: rng.bool(),
            ..Default::default()
        };
        let ops = gen_history(&mut rng);
        let res = catch(|| {
            let mut w = World::new(cfg, Disc::Full, Some(true));
            for (i, op) in ops.iter().enumerate() {
                w.step(i, op, &mut |st| monitor(&mut rep, h, st));
            }
        });
        if let Err((sig, d)) = res {
            rep.violate(&format!("ceremony {sig}"), d, json!({"index": h, "config": cfg.json(), "ops": ops.iter().map(|o| o.json()).collect::<Vec<_>>()}));
        }
    }
    for k in 0..args.size(600, 12_000) as u64 {
        let idx = 40_000_000 + k;
        if only.map_or(true, |o| o == idx) {
            if let Err((sig, d)) = catch(|| ctap_level(&mut rep, args.seed, idx)) {
                rep.violate(&format!("ctap ceremony {sig}"), d, json!({"index": idx}));
            }
            if k % 4 == 0 {
                if let Err((sig, d)) = catch(|| imported_secrets(&mut rep, args.seed, idx)) {
                    rep.violate(&format!("ctap ceremony with an imported credential {sig}"), d, json!({"index": idx}));
                }
            }
        }
    }
    let _ = cer::RPS;
    if only.is_none()
        && (rep.get("authentication_results_compared") == 0
            || rep.get("registration_results_compared") == 0
            || rep.get("malformed_requests") == 0
            || rep.get("authentication_keyed_with:uv-gated") == 0
            || rep.get("authentication_keyed_with:non-gated") == 0
            || rep.get("per_credential_inputs_present") == 0
            || rep.get("ctap_enabled_checked") == 0
            || rep.get("ctap_authentication_results_compared") == 0)
    {
        rep.inconclusive("a class of PRF observations (results at registration / authentication, both secrets, per-credential inputs, malformed requests) was never produced".into());
    }
    rep
}
