//! C07 — failed or cancelled ceremonies leave the credential store consistent.
//! Fault enumeration: every store call of a ceremony fails (singly with a set of status bytes, in
//! pairs); cancellation enumeration: the ceremony is dropped after every possible number of polls.

use std::sync::Arc;

use crate::{exec::block_on, report::hex_short};

use passkey_authenticator::Authenticator;
use passkey_client::{Client, DefaultClientData, WebauthnError};
use passkey_types::{ctap2, webauthn::UserVerificationRequirement};
use serde_json::{json, Value};

use crate::{
    collab::{CredSnap, Disc, Ev, Kind, RecStore, RecTld, RecUv, Stamped},
    exec::{block_on_counted, poll_n_then_drop},
    oracle::{self, authdata},
    props::c02::replay_index,
    report::Report,
    rng::{fnv_str, Rng},
    util::{creation_options, descriptor, ga_request, mc_request, mk_auth, pk_param, request_options, seeded_passkey, status_byte_ref, url, AuthCfg, HmacCfg, Rig},
    worker::catch,
    Args,
};

const RP: &str = "example.com";

#[derive(Clone, Copy, Debug, PartialEq, Eq, Hash)]
struct Shape {
    reg: bool,
    client: bool,
    /// reg: non-empty exclude list (misses); auth: non-empty allow list
    list: bool,
    prf: bool,
    counters: bool,
    rk: bool,
    /// authentication only: PRF requested but the stored credential holds no PRF secrets
    /// (the ceremony fails after the counter was advanced)
    no_secret: bool,
    /// registration only: UV-only PRF configuration with evaluation at creation, PRF requested,
    /// verification not requested - the extension step fails (nothing may have been stored)
    ext_fail: bool,
    /// authentication only: the stored signature counters sit at u32::MAX
    max_counter: bool,
    /// authentication only (CTAP level): neither presence nor verification asked, none reported
    silent: bool,
}

impl Shape {
    fn json(&self) -> Value {
        json!({"op": if self.reg {"registration"} else {"authentication"}, "level": if self.client {"client"} else {"ctap"},
            "list": self.list, "prf_extension": self.prf, "counters": self.counters, "rk": self.rk, "credential_without_prf_secret": self.no_secret, "extension_step_fails": self.ext_fail, "stored_counter_at_u32_max": self.max_counter, "silent": self.silent})
    }
    fn all() -> Vec<Shape> {
        let mut v = Vec::new();
        for reg in [true, false] {
            for client in [false, true] {
                for list in [false, true] {
                    for prf in [false, true] {
                        for counters in [false, true] {
                            for rk in [false, true] {
                                if !reg && rk {
                                    continue;
                                }
                                v.push(Shape { reg, client, list, prf, counters, rk, no_secret: false, ext_fail: false, max_counter: false, silent: false });
                                if !reg && prf {
                                    v.push(Shape { reg, client, list, prf, counters, rk, no_secret: true, ext_fail: false, max_counter: false, silent: false });
                                }
                                if reg && prf {
                                    v.push(Shape { reg, client, list, prf, counters, rk, no_secret: false, ext_fail: true, max_counter: false, silent: false });
                                }
                            }
                        }
                    }
                }
            }
        }
        for client in [false, true] {
            for list in [false, true] {
                v.push(Shape { reg: false, client, list, prf: false, counters: true, rk: false, no_secret: false, ext_fail: false, max_counter: true, silent: false });
            }
        }
        for list in [false, true] {
            for counters in [false, true] {
                v.push(Shape { reg: false, client: false, list, prf: false, counters, rk: false, no_secret: false, ext_fail: false, max_counter: false, silent: true });
            }
        }
        v
    }
    fn cfg(&self) -> AuthCfg {
        AuthCfg { counters: self.counters, id_len: Some(24), hmac: if self.ext_fail { HmacCfg::UvOnly } else if self.prf { HmacCfg::WithoutUv } else { HmacCfg::None }, hmac_mc: self.prf, ..Default::default() }
    }
}

#[derive(Clone, Debug, Default)]
struct PlanSpec {
    faults: Vec<(Kind, usize, u8)>,
    yields: usize,
    cancel_after: Option<usize>,
    /// run through Arc<tokio::Mutex<RecStore>> with the lock held by someone else while polling
    lock_held: bool,
}

impl PlanSpec {
    fn json(&self) -> Value {
        json!({"faults": self.faults.iter().map(|(k, n, c)| json!({"call": format!("{k:?}#{n}"), "status": c})).collect::<Vec<_>>(),
            "yields_per_call": self.yields, "cancel_after_polls": self.cancel_after, "lock_held_by_other_task": self.lock_held})
    }
}

struct Obs {
    /// None = cancelled
    result: Option<Result<Vec<u8>, u8>>, // Ok(authenticator data bytes) / Err(status byte or 0 for non-status client errors)
    client_err: Option<String>,
    used_id: Option<Vec<u8>>,
    before: Vec<CredSnap>,
    after: Vec<CredSnap>,
    events: Vec<Stamped>,
    polls: usize,
    seeded_id: Vec<u8>,
}

fn seed_store(rig: &Rig, sh: &Shape) -> Vec<u8> {
    let mut rng = Rng::derive(11, "c07seed", 0);
    let hm = if sh.prf && !sh.no_secret { Some((rng.bytes(32), Some(rng.bytes(32)))) } else { None };
    let id0 = vec![0xC0; 24];
    let (p0, _, _) = seeded_passkey(&mut rng, RP, &id0, Some(b"user-0"), if sh.max_counter { Some(u32::MAX) } else if sh.counters { Some(41) } else { None }, hm.clone());
    let (p1, _, _) = seeded_passkey(&mut rng, RP, &[0xC1; 24], Some(b"user-1"), if sh.max_counter { Some(u32::MAX) } else if sh.counters { Some(7) } else { None }, hm);
    let (p2, _, _) = seeded_passkey(&mut rng, "other.example", &[0xC2; 24], Some(b"user-0"), Some(3), None);
    rig.store.insert_raw(p0);
    rig.store.insert_raw(p1);
    rig.store.insert_raw(p2);
    id0
}

fn apply_plan(rig: &Rig, plan: &PlanSpec) {
    rig.store.set_all_yields(plan.yields);
    rig.uv.set_yields(plan.yields);
    for (k, n, c) in &plan.faults {
        rig.store.set_fault(*k, *n, *c);
    }
}

fn run_one(sh: &Shape, plan: &PlanSpec) -> Obs {
    let rig = Rig::ok(Disc::Full);
    if sh.silent {
        rig.uv.set_outcome(crate::collab::UvOutcome::Check { presence: false, verification: false });
    }
    let seeded_id = seed_store(&rig, sh);
    apply_plan(&rig, plan);
    let before = rig.store.snapshot();
    rig.log.clear();
    rig.store.reset_call_counts();
    let ext_make = sh.prf.then(|| ctap2::make_credential::ExtensionInputs {
        hmac_secret: None,
        hmac_secret_mc: None,
        prf: Some(ctap2::extensions::AuthenticatorPrfInputs { eval: Some(ctap2::extensions::AuthenticatorPrfValues { first: [9; 32], second: None }), eval_by_credential: None }),
    });
    let ext_get = sh.prf.then(|| ctap2::get_assertion::ExtensionInputs {
        hmac_secret: None,
        prf: Some(ctap2::extensions::AuthenticatorPrfInputs { eval: Some(ctap2::extensions::AuthenticatorPrfValues { first: [9; 32], second: Some([8; 32]) }), eval_by_credential: None }),
    });
    let mut polls = 0usize;
    let mut client_err = None;
    let mut used_id = None;
    macro_rules! drive {
        ($fut:expr) => {{
            match plan.cancel_after {
                None => match block_on_counted($fut, 100_000) {
                    Ok((v, p)) => {
                        polls = p;
                        Some(v)
                    }
                    Err(e) => panic!("harness: ceremony future did not finish: {e:?}"),
                },
                Some(n) => {
                    polls = n;
                    poll_n_then_drop($fut, n)
                }
            }
        }};
    }
    let result: Option<Result<Vec<u8>, u8>> = if sh.client {
        let tld = RecTld::default_list(rig.log.clone());
        let mut client = Client::new_with_custom_tld_provider(rig.auth(sh.cfg()), tld);
        let origin = url("https://www.example.com");
        if sh.reg {
            let mut opts = creation_options(Some(RP), b"new-user", "n", &[3u8; 16], vec![pk_param(coset::iana::Algorithm::ES256)]);
            opts.public_key.authenticator_selection = Some(passkey_types::webauthn::AuthenticatorSelectionCriteria {
                resident_key: Some(if sh.rk { passkey_types::webauthn::ResidentKeyRequirement::Required } else { passkey_types::webauthn::ResidentKeyRequirement::Discouraged }),
                user_verification: if sh.ext_fail { UserVerificationRequirement::Discouraged } else { UserVerificationRequirement::Preferred },
                ..Default::default()
            });
            if sh.list {
                opts.public_key.exclude_credentials = Some(vec![descriptor(&[0xEE; 24])]);
            }
            if sh.prf {
                opts.public_key.extensions = Some(passkey_types::webauthn::AuthenticationExtensionsClientInputs {
                    prf: Some(passkey_types::webauthn::AuthenticationExtensionsPrfInputs { eval: Some(passkey_types::webauthn::AuthenticationExtensionsPrfValues { first: vec![1, 2, 3].into(), second: None }), eval_by_credential: None }),
                    ..Default::default()
                });
            }
            // registrations for a discoverable credential also ask for the credential properties (whatever the
            // client does to answer that, a failure leaves the store as it was)
            if sh.rk {
                let mut e = opts.public_key.extensions.take().unwrap_or_default();
                e.cred_props = Some(true);
                opts.public_key.extensions = Some(e);
            }
            drive!(client.register(&origin, opts, DefaultClientData)).map(|r| match r {
                Ok(c) => Ok(c.response.authenticator_data.to_vec()),
                Err(WebauthnError::AuthenticatorError(b)) => Err(b),
                Err(e) => {
                    client_err = Some(format!("{e:?}"));
                    Err(if e == WebauthnError::CredentialNotFound { 0x2e } else { 0 })
                }
            })
        } else {
            let mut opts = request_options(Some(RP), &[4u8; 16], sh.list.then(|| vec![descriptor(&seeded_id)]), UserVerificationRequirement::Preferred);
            if sh.prf {
                opts.public_key.extensions = Some(passkey_types::webauthn::AuthenticationExtensionsClientInputs {
                    prf: Some(passkey_types::webauthn::AuthenticationExtensionsPrfInputs { eval: Some(passkey_types::webauthn::AuthenticationExtensionsPrfValues { first: vec![1, 2, 3].into(), second: None }), eval_by_credential: None }),
                    ..Default::default()
                });
            }
            drive!(client.authenticate(&origin, opts, DefaultClientData)).map(|r| match r {
                Ok(c) => {
                    used_id = Some(c.raw_id.to_vec());
                    Ok(c.response.authenticator_data.to_vec())
                }
                Err(WebauthnError::AuthenticatorError(b)) => Err(b),
                Err(e) => {
                    client_err = Some(format!("{e:?}"));
                    Err(if e == WebauthnError::CredentialNotFound { 0x2e } else { 0 })
                }
            })
        }
    } else if plan.lock_held {
        // shared store behind the real Arc<Mutex<_>> wrapper, lock held by "another task" while we poll
        let shared = Arc::new(tokio::sync::Mutex::new(rig.store.clone()));
        let guard = shared.clone().try_lock_owned().expect("fresh lock");
        let mut auth: Authenticator<Arc<tokio::sync::Mutex<RecStore>>, RecUv> = mk_auth(shared.clone(), rig.uv.clone(), sh.cfg());
        let r = if sh.reg {
            let req = mc_request(RP, b"new-user", &[1u8; 32], vec![pk_param(coset::iana::Algorithm::ES256)], sh.list.then(|| vec![descriptor(&[0xEE; 24])]), ext_make, sh.rk, true, !sh.ext_fail);
            poll_n_then_drop(auth.make_credential(req), plan.cancel_after.unwrap_or(3)).map(|r| r.map(|x| x.auth_data.to_vec()).map_err(|e| status_byte_ref(&e)))
        } else {
            let req = ga_request(RP, &[2u8; 32], sh.list.then(|| vec![descriptor(&seeded_id)]), ext_get, !sh.silent, !sh.silent);
            poll_n_then_drop(auth.get_assertion(req), plan.cancel_after.unwrap_or(3)).map(|r| r.map(|x| x.auth_data.to_vec()).map_err(|e| status_byte_ref(&e)))
        };
        polls = plan.cancel_after.unwrap_or(3);
        drop(guard);
        // the lock must be free again and the store usable
        if shared.try_lock().is_err() {
            client_err = Some("lock still held after the cancelled ceremony was dropped".into());
        }
        r
    } else {
        let mut auth = rig.auth(sh.cfg());
        if sh.reg {
            let req = mc_request(RP, b"new-user", &[1u8; 32], vec![pk_param(coset::iana::Algorithm::ES256)], sh.list.then(|| vec![descriptor(&[0xEE; 24])]), ext_make, sh.rk, true, !sh.ext_fail);
            drive!(auth.make_credential(req)).map(|r| r.map(|x| x.auth_data.to_vec()).map_err(|e| status_byte_ref(&e)))
        } else {
            let req = ga_request(RP, &[2u8; 32], sh.list.then(|| vec![descriptor(&seeded_id)]), ext_get, !sh.silent, !sh.silent);
            drive!(auth.get_assertion(req)).map(|r| {
                r.map(|x| {
                    used_id = x.credential.as_ref().map(|d| d.id.to_vec());
                    x.auth_data.to_vec()
                })
                .map_err(|e| status_byte_ref(&e))
            })
        }
    };
    Obs { result, client_err, used_id, before, after: rig.store.snapshot(), events: rig.log.snapshot(), polls, seeded_id }
}

/// Is `rec` a complete new credential for this shape?
fn complete_record(sh: &Shape, rec: &CredSnap) -> Result<(), String> {
    if rec.rp_id != RP {
        return Err(format!("rp_id {:?}", rec.rp_id));
    }
    if rec.id.len() != 24 {
        return Err(format!("id length {}", rec.id.len()));
    }
    match (&rec.d, &rec.x, &rec.y) {
        (Some(d), Some(x), Some(y)) => oracle::scalar_matches_point(d, x, y)?,
        _ => return Err("key pair incomplete".into()),
    }
    if rec.counter != if sh.counters { Some(0) } else { None } {
        return Err(format!("counter {:?}", rec.counter));
    }
    if rec.user_handle.is_some() != sh.rk {
        return Err(format!("user handle present = {}", rec.user_handle.is_some()));
    }
    if rec.hmac_uv.is_some() != sh.prf {
        return Err(format!("prf secrets present = {}", rec.hmac_uv.is_some()));
    }
    Ok(())
}

fn judge(rep: &mut Report, sh: &Shape, plan: &PlanSpec, o: &Obs, index: u64) {
    let case = json!({"index": index, "shape": sh.json(), "plan": plan.json(), "polls": o.polls,
        "events": o.events.iter().map(|e| e.ev.to_json()).collect::<Vec<_>>()});
    let lvl = if sh.client { "client" } else { "ctap" };
    let new: Vec<&CredSnap> = o.after.iter().filter(|a| !o.before.contains(a)).collect();
    let gone: Vec<&CredSnap> = o.before.iter().filter(|b| !o.after.contains(b)).collect();
    if let Some(e) = &o.client_err {
        if e.contains("lock still held") {
            rep.violate(&format!("{lvl}: store lock not released by a cancelled ceremony"), e.clone(), case.clone());
        }
    }
    let injected_save_or_update = plan.faults.iter().any(|(k, n, _)| {
        matches!(k, Kind::Save | Kind::Update) && o.events.iter().filter(|e| matches!((&e.ev, k), (Ev::Save { .. }, Kind::Save) | (Ev::Update { .. }, Kind::Update))).count() > *n
    });
    let injected_find_hit = plan.faults.iter().any(|(k, _, _)| *k == Kind::Find) && o.events.iter().any(|e| matches!(&e.ev, Ev::Find { result: Err(_), .. }));
    if sh.reg {
        match &o.result {
            Some(Err(code)) => {
                rep.count("reg_failed");
                if o.after != o.before {
                    rep.violate(&format!("{lvl}: failed registration changed the store"), format!("status {code:#x}; {} new, {} removed/altered", new.len(), gone.len()), case.clone());
                }
            }
            Some(Ok(ad)) => {
                rep.count("reg_ok");
                if injected_save_or_update {
                    rep.violate(&format!("{lvl}: store error while saving was turned into success"), String::new(), case.clone());
                }
                let saved = o.events.iter().any(|e| matches!(&e.ev, Ev::Save { result: Ok(()), .. }));
                if !saved {
                    rep.violate(&format!("{lvl}: registration succeeded although the store never accepted the credential"), String::new(), case.clone());
                }
                if new.len() != 1 || !gone.is_empty() {
                    rep.violate(&format!("{lvl}: successful registration did not add exactly one credential"), format!("{} new, {} removed/altered", new.len(), gone.len()), case.clone());
                } else {
                    if let Err(e) = complete_record(sh, new[0]) {
                        rep.violate(&format!("{lvl}: registered credential record is incomplete"), e, case.clone());
                    }
                    if let Ok(d) = authdata::decode(ad) {
                        if d.attested.as_ref().map(|a| &a.cred_id) != Some(&new[0].id) {
                            rep.violate(&format!("{lvl}: response names a credential other than the stored one"), String::new(), case.clone());
                        }
                    }
                }
            }
            None => {
                rep.count("reg_cancelled");
                if !gone.is_empty() || new.len() > 1 {
                    rep.violate(&format!("{lvl}: cancelled registration altered existing records or added several"), format!("{} new, {} removed/altered", new.len(), gone.len()), case.clone());
                } else if new.len() == 1 {
                    rep.count("reg_cancelled_after_save");
                    if let Err(e) = complete_record(sh, new[0]) {
                        rep.violate(&format!("{lvl}: cancelled registration left a partial record"), e, case.clone());
                    }
                }
            }
        }
    } else {
        // authentication: the only tolerated difference is counter+1 on the selected credential
        let mut ok_diff = true;
        let mut advanced = false;
        if !new.is_empty() || !gone.is_empty() {
            if new.len() == 1 && gone.len() == 1 && new[0].id == gone[0].id && new[0].id == o.seeded_id {
                let mut a = new[0].clone();
                a.counter = gone[0].counter;
                let plus_one = matches!((gone[0].counter, new[0].counter), (Some(x), Some(y)) if y == x.wrapping_add(1));
                ok_diff = a == *gone[0] && plus_one;
                advanced = ok_diff;
            } else {
                ok_diff = false;
            }
        }
        match &o.result {
            Some(Err(code)) => {
                rep.count("auth_failed");
                if !ok_diff {
                    rep.violate(&format!("{lvl}: failed authentication changed the store beyond the selected credential's counter"), format!("status {code:#x}; {} new, {} removed/altered", new.len(), gone.len()), case.clone());
                }
                if advanced {
                    rep.count("auth_failed_counter_advanced");
                }
            }
            None => {
                rep.count("auth_cancelled");
                if !ok_diff {
                    rep.violate(&format!("{lvl}: cancelled authentication changed the store beyond the selected credential's counter"), format!("{} new, {} removed/altered", new.len(), gone.len()), case.clone());
                }
                if advanced {
                    rep.count("auth_cancelled_counter_advanced");
                }
            }
            Some(Ok(ad)) => {
                rep.count("auth_ok");
                if injected_save_or_update {
                    rep.violate(&format!("{lvl}: store error while updating was turned into success"), String::new(), case.clone());
                }
                if injected_find_hit {
                    rep.violate(&format!("{lvl}: store lookup error was turned into success"), String::new(), case.clone());
                }
                if !ok_diff {
                    rep.violate(&format!("{lvl}: successful authentication changed the store beyond the selected credential's counter"), String::new(), case.clone());
                }
                match authdata::decode(ad) {
                    Ok(d) => {
                        if sh.counters {
                            let accepted = o.events.iter().any(|e| matches!(&e.ev, Ev::Update { id, counter: Some(c), result: Ok(()) } if Some(id) == o.used_id.as_ref() && *c == d.counter));
                            if !accepted {
                                rep.violate(&format!("{lvl}: assertion returned although the store never accepted its counter value"), format!("reported counter {}", d.counter), case.clone());
                            }
                        } else if d.counter != 0 {
                            rep.violate(&format!("{lvl}: counter-less credential reports a non-zero counter"), format!("{}", d.counter), case.clone());
                        }
                    }
                    Err(e) => rep.violate(&format!("{lvl}: assertion authenticator data does not decode"), format!("{e:?}"), case.clone()),
                }
            }
        }
    }
}

/// Failures that are not store faults (denied consent, unsupported options, extension errors,
/// excluded credentials, unknown credentials ...) over the shared ceremony workload.
fn history_sweep(rep: &mut Report, args: &Args, only: Option<u64>) {
    use crate::props::cer::{self, Op, Outcome, World};
    let n = args.size(300, 8000) as u64;
    for h in 0..n {
        let idx = 50_000_000 + h;
        if only.map_or(false, |o| o != idx) {
            continue;
        }
        let mut rng = Rng::derive(args.seed, "c07h", h);
        let (cfg, disc, ve) = cer::gen_cfg(&mut rng);
        let hl = rng.range(2, 14);
        let ops = cer::gen_history(&mut rng, hl, 50);
        let r = catch(|| {
            let mut w = World::new(cfg, disc, ve);
            for (i, op) in ops.iter().enumerate() {
                w.step(i, op, &mut |st| {
                    if st.outcome.is_ok() {
                        return;
                    }
                    rep.eval();
                    let case = json!({"index": idx, "step": st.index, "op": st.op.json(), "config": st.cfg.json(), "error": st.outcome.err_text()});
                    match (st.op, st.outcome) {
                        (Op::Register(_), Outcome::Reg(Err(_))) | (Op::Make(_), Outcome::Make(Err(_))) => {
                            rep.count("history_failed_registrations");
                            rep.nontrivial(fnv_str(&format!("hist-reg|{:?}|{:?}", st.outcome.err_text(), st.cfg.hmac)));
                            if st.after != st.before {
                                rep.violate("history: failed registration changed the store", st.outcome.err_text().unwrap_or_default(), case);
                            }
                        }
                        (Op::Authenticate(_), Outcome::Auth(Err(_))) | (Op::Get(_), Outcome::Get(Err(_))) => {
                            rep.count("history_failed_authentications");
                            rep.nontrivial(fnv_str(&format!("hist-auth|{:?}|{:?}", st.outcome.err_text(), st.cfg.hmac)));
                            let new: Vec<&CredSnap> = st.after.iter().filter(|a| !st.before.contains(a)).collect();
                            let gone: Vec<&CredSnap> = st.before.iter().filter(|b| !st.after.contains(b)).collect();
                            let ok = (new.is_empty() && gone.is_empty())
                                || (new.len() == 1 && gone.len() == 1 && new[0].id == gone[0].id && {
                                    let mut a = new[0].clone();
                                    a.counter = gone[0].counter;
                                    a == *gone[0] && matches!((gone[0].counter, new[0].counter), (Some(x), Some(y)) if y == x.saturating_add(1))
                                });
                            if !ok {
                                rep.violate("history: failed authentication changed the store beyond one credential's counter", st.outcome.err_text().unwrap_or_default(), case);
                            }
                        }
                        _ => {}
                    }
                });
            }
        });
        if let Err((sig, d)) = r {
            rep.violate(&format!("history {sig}"), d, json!({"index": idx}));
        }
    }
}

fn codes(thorough: bool) -> Vec<u8> {
    if thorough {
        (0..=255u8).collect()
    } else {
        vec![0x00, 0x01, 0x11, 0x19, 0x26, 0x27, 0x28, 0x2E, 0x2F, 0x7F, 0xE0, 0xFF]
    }
}

/// Registrations through the stores shipped with the library, empty and already occupied: a success
/// means the store holds the credential the response names.
fn shipped_store_registrations(rep: &mut Report, args: &Args, only: Option<u64>) {
    use passkey_authenticator::MemoryStore;
    use passkey_types::Passkey;
    let n = args.size(60, 600) as u64;
    for k in 0..n {
        let index = 40_000_000 + k;
        if only.map_or(false, |o| o != index) {
            continue;
        }
        let mut rng = Rng::derive(args.seed, "c07shipped", k);
        let occupied = rng.range(0, 3);
        let existing: Vec<Passkey> = (0..occupied)
            .map(|j| {
                let rp = if rng.bool() { RP } else { "other.example" };
                seeded_passkey(&mut rng, rp, &[0xD0 + j as u8; 24], Some(b"user-x"), Some(5), None).0
            })
            .collect();
        let kind = rng.below(10);
        let regs = rng.range(1, 3);
        // the registrations of a run are for different accounts, or the same account registers again
        let same_user = Rng::derive(args.seed, "c07sameuser", k).bool();
        let rk = rng.bool();
        let counters = rng.bool();
        let names = ["Option<Passkey>", "Arc<Mutex<Option<Passkey>>>", "Arc<RwLock<Option<Passkey>>>", "MemoryStore", "Arc<Mutex<MemoryStore>>", "Arc<RwLock<MemoryStore>>",
            "Arc<Mutex<reference store>>", "Arc<RwLock<reference store>>", "Mutex<reference store>", "RwLock<reference store>"];
        let case = json!({"index": index, "store": names[kind], "credentials_before": existing.iter().map(|p| json!({"id": hex_short(&p.credential_id), "rp": p.rp_id})).collect::<Vec<_>>(), "registrations": regs, "rk": rk, "counters": counters, "same_account_registers_again": same_user});
        rep.eval();
        rep.nontrivial(fnv_str(&format!("shipped|{kind}|{occupied}|{regs}|{rk}")));
        let uv = crate::collab::RecUv::new(crate::collab::Log::new(), crate::collab::UvOutcome::Check { presence: true, verification: true }, Some(true));
        let cfg = AuthCfg { counters, id_len: Some(24), ..Default::default() };
        macro_rules! drive {
            ($store:expr, $ids:expr) => {{
                let store = $store;
                let mut auth = mk_auth(store.clone(), uv.clone(), cfg);
                for r in 0..regs {
                    let req = mc_request(RP, format!("user-{}", if same_user { 0 } else { r }).as_bytes(), &[1u8; 32], vec![pk_param(coset::iana::Algorithm::ES256)], None, None, rk, true, true);
                    match catch(|| block_on(auth.make_credential(req))) {
                        Err((sig, d)) => rep.violate(&format!("shipped store: registration {sig}"), d, case.clone()),
                        Ok(Err(_)) => rep.count("shipped_reg_failed"),
                        Ok(Ok(resp)) => {
                            rep.count("shipped_reg_ok");
                            let id = authdata::decode(&resp.auth_data.to_vec()).ok().and_then(|d| d.attested.map(|a| a.cred_id)).unwrap_or_default();
                            let held: Vec<Vec<u8>> = $ids(&store);
                            if !held.contains(&id) {
                                rep.violate("shipped store: registration succeeded although the store does not hold the new credential", format!("{} after registration {r}: new id {}, store holds {:?}", names[kind], hex_short(&id), held.iter().map(|i| hex_short(i)).collect::<Vec<_>>()), case.clone());
                            }
                        }
                    }
                }
            }};
        }
        let single = existing.first().cloned();
        let mut mem = MemoryStore::new();
        for p in &existing {
            mem.insert(p.credential_id.to_vec(), p.clone());
        }
        match kind {
            0 => {
                // a plain Option<Passkey> is moved into the authenticator: read it back through store()
                let mut auth = mk_auth(single, uv.clone(), cfg);
                for r in 0..regs {
                    let req = mc_request(RP, format!("user-{}", if same_user { 0 } else { r }).as_bytes(), &[1u8; 32], vec![pk_param(coset::iana::Algorithm::ES256)], None, None, rk, true, true);
                    match catch(|| block_on(auth.make_credential(req))) {
                        Err((sig, d)) => rep.violate(&format!("shipped store: registration {sig}"), d, case.clone()),
                        Ok(Err(_)) => rep.count("shipped_reg_failed"),
                        Ok(Ok(resp)) => {
                            rep.count("shipped_reg_ok");
                            let id = authdata::decode(&resp.auth_data.to_vec()).ok().and_then(|d| d.attested.map(|a| a.cred_id)).unwrap_or_default();
                            let held: Vec<Vec<u8>> = auth.store().iter().map(|p| p.credential_id.to_vec()).collect();
                            if !held.contains(&id) {
                                rep.violate("shipped store: registration succeeded although the store does not hold the new credential", format!("{} after registration {r}: new id {}, store holds {:?}", names[kind], hex_short(&id), held.iter().map(|i| hex_short(i)).collect::<Vec<_>>()), case.clone());
                            }
                        }
                    }
                }
            }
            1 => drive!(Arc::new(tokio::sync::Mutex::new(single)), |s: &Arc<tokio::sync::Mutex<Option<Passkey>>>| s.try_lock().map(|g| g.iter().map(|p| p.credential_id.to_vec()).collect::<Vec<_>>()).unwrap_or_default()),
            2 => drive!(Arc::new(tokio::sync::RwLock::new(single)), |s: &Arc<tokio::sync::RwLock<Option<Passkey>>>| s.try_read().map(|g| g.iter().map(|p| p.credential_id.to_vec()).collect::<Vec<_>>()).unwrap_or_default()),
            3 => {
                let mut auth = mk_auth(mem, uv.clone(), cfg);
                for r in 0..regs {
                    let req = mc_request(RP, format!("user-{}", if same_user { 0 } else { r }).as_bytes(), &[1u8; 32], vec![pk_param(coset::iana::Algorithm::ES256)], None, None, rk, true, true);
                    match catch(|| block_on(auth.make_credential(req))) {
                        Err((sig, d)) => rep.violate(&format!("shipped store: registration {sig}"), d, case.clone()),
                        Ok(Err(_)) => rep.count("shipped_reg_failed"),
                        Ok(Ok(resp)) => {
                            rep.count("shipped_reg_ok");
                            let id = authdata::decode(&resp.auth_data.to_vec()).ok().and_then(|d| d.attested.map(|a| a.cred_id)).unwrap_or_default();
                            let held: Vec<Vec<u8>> = auth.store().iter().filter(|(k, p)| k.as_slice() == p.credential_id.as_slice()).map(|(k, _)| k.clone()).collect();
                            if !held.contains(&id) {
                                rep.violate("shipped store: registration succeeded although the store does not hold the new credential", format!("{} after registration {r}: new id {}, store holds {:?}", names[kind], hex_short(&id), held.iter().map(|i| hex_short(i)).collect::<Vec<_>>()), case.clone());
                            }
                        }
                    }
                }
            }
            4 => drive!(Arc::new(tokio::sync::Mutex::new(mem)), |s: &Arc<tokio::sync::Mutex<MemoryStore>>| s.try_lock().map(|g| g.iter().filter(|(k, p)| k.as_slice() == p.credential_id.as_slice()).map(|(k, _)| k.clone()).collect::<Vec<_>>()).unwrap_or_default()),
            6..=9 => {
                // the library's four lock wrappers around the reference store (for which saving and
                // updating are different things)
                let rec = crate::collab::RecStore::new(crate::collab::Log::new(), Disc::Full);
                for p in &existing {
                    rec.insert_raw(p.clone());
                }
                let h = rec.clone();
                let held = move || -> Vec<Vec<u8>> { h.passkeys().iter().map(|p| p.credential_id.to_vec()).collect() };
                macro_rules! through {
                    ($wrapped:expr) => {{
                        let mut auth = mk_auth($wrapped, uv.clone(), cfg);
                        for r in 0..regs {
                            let req = mc_request(RP, format!("user-{}", if same_user { 0 } else { r }).as_bytes(), &[1u8; 32], vec![pk_param(coset::iana::Algorithm::ES256)], None, None, rk, true, true);
                            match catch(|| block_on(auth.make_credential(req))) {
                                Err((sig, d)) => rep.violate(&format!("shipped store: registration {sig}"), d, case.clone()),
                                Ok(Err(_)) => rep.count("shipped_reg_failed"),
                                Ok(Ok(resp)) => {
                                    rep.count("shipped_reg_ok");
                                    let id = authdata::decode(&resp.auth_data.to_vec()).ok().and_then(|d| d.attested.map(|a| a.cred_id)).unwrap_or_default();
                                    if !held().contains(&id) {
                                        rep.violate("shipped store: registration succeeded although the store does not hold the new credential", format!("{} after registration {r}: new id {}", names[kind], hex_short(&id)), case.clone());
                                    }
                                }
                            }
                        }
                    }};
                }
                match kind {
                    6 => through!(Arc::new(tokio::sync::Mutex::new(rec))),
                    7 => through!(Arc::new(tokio::sync::RwLock::new(rec))),
                    8 => through!(tokio::sync::Mutex::new(rec)),
                    _ => through!(tokio::sync::RwLock::new(rec)),
                }
            }
            _ => drive!(Arc::new(tokio::sync::RwLock::new(mem)), |s: &Arc<tokio::sync::RwLock<MemoryStore>>| s.try_read().map(|g| g.iter().filter(|(k, p)| k.as_slice() == p.credential_id.as_slice()).map(|(k, _)| k.clone()).collect::<Vec<_>>()).unwrap_or_default()),
        }
    }
}

/// Registrations through the U2F entry point (caller-supplied key handles of 0..300 bytes), over the
/// reference store (optionally refusing the save) and the shipped stores: an error leaves the store
/// as it was, a success means the store holds the credential.
fn u2f_registrations(rep: &mut Report, args: &Args, only: Option<u64>) {
    use passkey_authenticator::{MemoryStore, U2fApi};
    use passkey_types::{u2f::RegisterRequest, Passkey};
    let n = args.size(90, 1200) as u64;
    for k in 0..n {
        let index = 45_000_000 + k;
        if only.map_or(false, |o| o != index) {
            continue;
        }
        rep.eval();
        let mut rng = Rng::derive(args.seed, "c07u2f", k);
        let hl = *rng.pick(&[0usize, 1, 16, 64, 255, 256, 257, 300]);
        let handle = rng.bytes(hl);
        // any status byte can come back from a store (it may forward a backend's byte through From<u8>):
        // the first cases walk through the list of codes, the others pick from it
        let all_codes = codes(args.thorough());
        let forced = (k as usize) < all_codes.len();
        let kind = if forced { 0 } else { rng.below(3) };
        let fault = forced || (kind == 0 && rng.chance(1, 3));
        let fault_code = if forced { all_codes[k as usize] } else { *rng.pick(&all_codes) };
        let names = ["reference store", "MemoryStore", "Option<Passkey>"];
        let case = json!({"index": index, "entry_point": "U2fApi::register", "store": names[kind], "key_handle_len": hl, "store_refuses_the_save": fault, "status_the_save_fails_with": fault.then_some(fault_code)});
        rep.nontrivial(fnv_str(&format!("u2freg|{kind}|{hl}|{fault}|{}", if fault { fault_code } else { 0 })));
        let req = RegisterRequest { challenge: rng.arr32(), application: rng.arr32() };
        let existing = seeded_passkey(&mut rng, "other.example", &[0xE1; 16], Some(b"x"), Some(2), None).0;
        let ids_of = |v: &[Passkey]| -> Vec<Vec<u8>> { v.iter().map(|p| p.credential_id.to_vec()).collect() };
        let (result, before, after): (Result<Result<(), String>, (String, String)>, Vec<Vec<u8>>, Vec<Vec<u8>>) = match kind {
            0 => {
                let rig = Rig::ok(Disc::Full);
                rig.store.insert_raw(existing.clone());
                if fault {
                    rig.store.set_fault(Kind::Save, 0, fault_code);
                    rep.count(&format!("u2f_save_fault:{fault_code:#04x}"));
                }
                let before = ids_of(&rig.store.passkeys());
                let mut auth = rig.auth(AuthCfg::default());
                let r = catch(|| block_on(auth.register(req, &handle)).map(|_| ()).map_err(|e| format!("{e:?}")));
                (r, before, ids_of(&rig.store.passkeys()))
            }
            1 => {
                let mut m = MemoryStore::new();
                m.insert(existing.credential_id.to_vec(), existing.clone());
                let before: Vec<Vec<u8>> = m.keys().cloned().collect();
                let uv = crate::collab::RecUv::ok(crate::collab::Log::new());
                let mut auth = mk_auth(m, uv, AuthCfg::default());
                let r = catch(|| block_on(auth.register(req, &handle)).map(|_| ()).map_err(|e| format!("{e:?}")));
                let after = auth.store().keys().cloned().collect();
                (r, before, after)
            }
            _ => {
                let before = vec![existing.credential_id.to_vec()];
                let uv = crate::collab::RecUv::ok(crate::collab::Log::new());
                let mut auth = mk_auth(Some(existing.clone()), uv, AuthCfg::default());
                let r = catch(|| block_on(auth.register(req, &handle)).map(|_| ()).map_err(|e| format!("{e:?}")));
                let after = auth.store().iter().map(|p| p.credential_id.to_vec()).collect();
                (r, before, after)
            }
        };
        // shipped stores: the same key handle registered once more (the caller chooses the handle): whatever
        // the answer, an error leaves the store as it was
        if kind != 0 && rng.bool() {
            let req2 = RegisterRequest { challenge: rng.arr32(), application: rng.arr32() };
            let uv = crate::collab::RecUv::ok(crate::collab::Log::new());
            let key_of = |p: &Passkey| {
                use coset::CborSerializable;
                p.key.clone().to_vec().unwrap_or_default()
            };
            let (r2, changed): (Result<Result<(), String>, (String, String)>, bool) = if kind == 1 {
                let mut m = MemoryStore::new();
                m.insert(existing.credential_id.to_vec(), existing.clone());
                let mut auth = mk_auth(m, uv, AuthCfg::default());
                let _ = block_on(auth.register(RegisterRequest { challenge: [1; 32], application: [2; 32] }, &handle));
                let before: Vec<(Vec<u8>, Vec<u8>)> = auth.store().iter().map(|(k, p)| (k.clone(), key_of(p))).collect();
                let r = catch(|| block_on(auth.register(req2, &handle)).map(|_| ()).map_err(|e| format!("{e:?}")));
                let mut after: Vec<(Vec<u8>, Vec<u8>)> = auth.store().iter().map(|(k, p)| (k.clone(), key_of(p))).collect();
                let mut b = before;
                b.sort();
                after.sort();
                (r, b != after)
            } else {
                let mut auth = mk_auth(Some(existing.clone()), uv, AuthCfg::default());
                let _ = block_on(auth.register(RegisterRequest { challenge: [1; 32], application: [2; 32] }, &handle));
                let before: Vec<(Vec<u8>, Vec<u8>)> = auth.store().iter().map(|p| (p.credential_id.to_vec(), key_of(p))).collect();
                let r = catch(|| block_on(auth.register(req2, &handle)).map(|_| ()).map_err(|e| format!("{e:?}")));
                let after: Vec<(Vec<u8>, Vec<u8>)> = auth.store().iter().map(|p| (p.credential_id.to_vec(), key_of(p))).collect();
                (r, before != after)
            };
            match r2 {
                Err((sig, d)) => rep.violate(&format!("u2f registration {sig}"), d, case.clone()),
                Ok(Err(e)) => {
                    rep.count("u2f_second_registration_refused");
                    if changed {
                        rep.violate("u2f: failed registration changed the store", format!("second registration of the same key handle on {}: {e}", names[kind]), case.clone());
                    }
                }
                Ok(Ok(())) => rep.count("u2f_second_registration_ok"),
            }
        }
        match result {
            Err((sig, d)) => rep.violate(&format!("u2f registration {sig}"), d, case),
            Ok(Err(e)) => {
                rep.count("u2f_reg_failed");
                let mut a = after.clone();
                let mut b = before.clone();
                a.sort();
                b.sort();
                if a != b {
                    rep.violate("u2f: failed registration changed the store", format!("error {e}; {} credential(s) before, {} after", before.len(), after.len()), case);
                }
            }
            Ok(Ok(())) => {
                rep.count("u2f_reg_ok");
                if fault {
                    rep.violate("u2f: store error while saving was turned into success", String::new(), case.clone());
                }
                if !after.contains(&handle) {
                    rep.violate("u2f: registration succeeded although the store does not hold the new credential", format!("store holds {:?}", after.iter().map(|i| hex_short(i)).collect::<Vec<_>>()), case);
                }
            }
        }
    }
}

/// The stores shipped with the library are meant to be shared (that is what the lock wrappers are
/// for) and the lock is not held while the user is asked: the record an assertion selected can leave the
/// store, or be replaced, during the prompt. Whatever happens then, an assertion that is returned
/// carries a counter value the store holds afterwards.
fn records_leaving_during_the_prompt(rep: &mut Report, args: &Args, only: Option<u64>) {
    use passkey_authenticator::MemoryStore;
    use passkey_types::Passkey;
    use std::sync::Arc;
    let n = args.size(48, 480) as u64;
    for k in 0..n {
        let index = 47_000_000 + k;
        if only.map_or(false, |o| o != index) {
            continue;
        }
        rep.eval();
        let mut rng = Rng::derive(args.seed, "c07leave", k);
        let kind = (k % 4) as usize;
        let what = ((k / 4) % 4) as usize;
        let names = ["Arc<Mutex<MemoryStore>>", "Arc<RwLock<MemoryStore>>", "Arc<Mutex<Option<Passkey>>>", "Arc<RwLock<Option<Passkey>>>"];
        let whats = ["the record is removed", "the store is emptied", "nothing happens", "another registration's credential takes the record's place"];
        let start = *rng.pick(&[0u32, 1, 41, 0x7FFF_FFFF, u32::MAX - 1]);
        let others = rng.range(0, 2);
        let case = json!({"index": index, "part": "record leaves the shared store during the prompt", "store": names[kind], "during_the_prompt": whats[what], "stored_counter": start, "other_records": others});
        rep.nontrivial(fnv_str(&format!("leave|{kind}|{what}|{start}|{others}")));
        let id = rng.bytes(20);
        let (p, _, _) = seeded_passkey(&mut rng, RP, &id, Some(b"user"), Some(start), None);
        let other: Vec<Passkey> = (0..others).map(|j| seeded_passkey(&mut rng, RP, &[0xB0 + j as u8; 20], Some(b"other"), Some(7), None).0).collect();
        let uv = crate::collab::RecUv::ok(crate::collab::Log::new());
        let req = ga_request(RP, &[4u8; 32], Some(vec![descriptor(&id)]), None, true, true);
        let newcomer = seeded_passkey(&mut rng, RP, &[0xC7; 20], Some(b"newcomer"), Some(1), None).0;
        let newcomer_held = std::sync::Arc::new(std::sync::atomic::AtomicBool::new(true));
        // (result, counter the store holds for the id afterwards)
        let outcome: Result<(Result<u32, u8>, Option<Option<u32>>), (String, String)> = if kind < 2 {
            let mut m = MemoryStore::new();
            m.insert(id.clone(), p.clone());
            for o in &other {
                m.insert(o.credential_id.to_vec(), o.clone());
            }
            macro_rules! go {
                ($shared:expr, $w:ident, $r:ident) => {{
                    let shared = $shared;
                    let s2 = shared.clone();
                    let id2 = id.clone();
                    let nc = newcomer.clone();
                    uv.set_action_during_check(Box::new(move || {
                        if let Ok(mut g) = s2.$w() {
                            match what {
                                0 => {
                                    g.remove(&id2);
                                }
                                1 => g.clear(),
                                3 => {
                                    g.remove(&id2);
                                    g.insert(nc.credential_id.to_vec(), nc);
                                }
                                _ => {}
                            }
                        }
                    }));
                    let mut auth = mk_auth(shared.clone(), uv.clone(), AuthCfg { counters: true, ..Default::default() });
                    catch(|| {
                        let r = block_on(auth.get_assertion(req)).map(|r| authdata::decode(&r.auth_data.to_vec()).map(|d| d.counter).unwrap_or(0)).map_err(|e| status_byte_ref(&e));
                        let held = shared.$r().ok().map(|g| {
                            newcomer_held.store(g.contains_key(&vec![0xC7u8; 20]), std::sync::atomic::Ordering::SeqCst);
                            g.get(&id).and_then(|p| p.counter)
                        });
                        (r, held)
                    })
                }};
            }
            if kind == 0 { go!(Arc::new(tokio::sync::Mutex::new(m)), try_lock, try_lock) } else { go!(Arc::new(tokio::sync::RwLock::new(m)), try_write, try_read) }
        } else {
            macro_rules! go {
                ($shared:expr, $w:ident, $r:ident) => {{
                    let shared = $shared;
                    let s2 = shared.clone();
                    let nc = newcomer.clone();
                    uv.set_action_during_check(Box::new(move || {
                        if let Ok(mut g) = s2.$w() {
                            if what < 2 {
                                *g = None;
                            } else if what == 3 {
                                *g = Some(nc);
                            }
                        }
                    }));
                    let mut auth = mk_auth(shared.clone(), uv.clone(), AuthCfg { counters: true, ..Default::default() });
                    catch(|| {
                        let r = block_on(auth.get_assertion(req)).map(|r| authdata::decode(&r.auth_data.to_vec()).map(|d| d.counter).unwrap_or(0)).map_err(|e| status_byte_ref(&e));
                        let held = shared.$r().ok().map(|g| {
                            newcomer_held.store(g.as_ref().map_or(false, |p| p.credential_id.to_vec() == vec![0xC7u8; 20]), std::sync::atomic::Ordering::SeqCst);
                            g.as_ref().filter(|p| p.credential_id.to_vec() == id).and_then(|p| p.counter)
                        });
                        (r, held)
                    })
                }};
            }
            if kind == 2 { go!(Arc::new(tokio::sync::Mutex::new(Some(p.clone()))), try_lock, try_lock) } else { go!(Arc::new(tokio::sync::RwLock::new(Some(p.clone()))), try_write, try_read) }
        };
        match outcome {
            Err((sig, d)) => rep.violate(&format!("shared shipped store: assertion {sig}"), d, case),
            Ok((Err(e), _)) => {
                rep.count("leaving_record_assertion_refused");
                // a failed authentication leaves the store as it was: the credential registered meanwhile is still there
                if what == 3 && !newcomer_held.load(std::sync::atomic::Ordering::SeqCst) {
                    rep.violate("shared shipped store: a failed assertion removed a credential another ceremony had registered meanwhile", format!("{}: status {e:#04x}", names[kind]), case);
                }
            }
            Ok((Ok(_), None)) => rep.count("leaving_record_store_unreadable"),
            Ok((Ok(c), Some(held))) => {
                rep.count("leaving_record_assertion_returned");
                if what != 2 {
                    rep.count("leaving_record_left_and_assertion_returned");
                }
                if held != Some(c) {
                    rep.violate("shared shipped store: an assertion was returned although the store does not hold its counter value", format!("{}: {}; assertion carries {c}, the store holds {held:?} for the credential", names[kind], whats[what]), case);
                }
            }
        }
    }
}

pub fn run(args: &Args) -> Report {
    let mut rep = Report::new(
        "C07",
        &args.tier,
        args.seed,
        "for each request shape (registration/authentication x client/CTAP level x exclude/allow list x PRF extension x counters x rk): a clean run to learn the store-call sequence, then every faultable store call failing with each status byte of the tier's set, all pairs of calls failing with 4 codes, and cancellation after every number of polls with collaborators yielding 1 and 2 times per call, plus cancellation while the store lock is held by another task; authentication shapes with the stored counters at u32::MAX; registrations (1-2 in a row) through the shipped stores and their lock wrappers, empty or already occupied; silent assertions; U2F registrations with key handles of 0-300 bytes over the reference store (also refusing the save with each status byte) and the shipped stores; assertions on shared shipped stores whose record is removed during the prompt; distinct by (shape, fault set or cancellation step, yield plan); non-trivial when the fault or cancellation point was actually reached",
    );
    rep.exhaustive = true;
    rep.assumptions.push("get_info of the store cannot fail (it returns no Result), so only lookup, save and update are faulted".into());
    rep.assumptions.push("an error of the exclude-list lookup is swallowed by make_credential; the statement covers errors while saving or updating, so this is logged, not judged".into());
    let only = replay_index(args);
    let mut index = 0u64;
    if args.engine.as_deref() == Some("miri") {
        // Crypto-free subset for the UB interpreter: drop the ceremony while it is still suspended in
        // the user-validation step or the first store call (polls 0..=3 with collaborators yielding twice),
        // i.e. half-polled async_trait boxed futures, incl. while the tokio lock is held by another task.
        let shard: u64 = args.get("shard").and_then(|s| s.parse().ok()).unwrap_or(0);
        let shards: u64 = args.get("shards").and_then(|s| s.parse().ok()).unwrap_or(1);
        for (k, sh) in Shape::all().into_iter().enumerate() {
            if k as u64 % shards != shard {
                continue;
            }
            for n in 0..=3usize {
                for lock_held in [false, true] {
                    if lock_held && (sh.client || n == 0) {
                        continue;
                    }
                    rep.eval();
                    let plan = PlanSpec { yields: 2, cancel_after: Some(n), lock_held, ..Default::default() };
                    match catch(|| run_one(&sh, &plan)) {
                        Ok(o) => {
                            judge(&mut rep, &sh, &plan, &o, index);
                            if o.result.is_none() {
                                rep.nontrivial(fnv_str(&format!("{sh:?}|miri-cancel{n}|{lock_held}")));
                                rep.count("cancel_points_reached");
                            }
                        }
                        Err((sig, d)) => rep.violate(&format!("ceremony {sig}"), d, json!({"index": index, "shape": sh.json(), "plan": plan.json()})),
                    }
                    index += 1;
                }
            }
        }
        rep.exhaustive = false;
        return rep;
    }
    let mut run_case = |rep: &mut Report, sh: &Shape, plan: &PlanSpec, index: u64| -> Option<Obs> {
        if only.map_or(false, |o| o != index) {
            return None;
        }
        rep.eval();
        match catch(|| run_one(sh, plan)) {
            Ok(o) => {
                judge(rep, sh, plan, &o, index);
                Some(o)
            }
            Err((sig, d)) => {
                rep.violate(&format!("ceremony {sig}"), d, json!({"index": index, "shape": sh.json(), "plan": plan.json()}));
                None
            }
        }
    };
    for sh in Shape::all() {
        // ---- clean run: learn the call sequence
        let clean = match catch(|| run_one(&sh, &PlanSpec::default())) {
            Ok(o) => o,
            Err((sig, d)) => {
                rep.violate(&format!("clean run {sig}"), d, json!({"shape": sh.json()}));
                continue;
            }
        };
        if only.is_none() {
            rep.eval();
            judge(&mut rep, &sh, &PlanSpec::default(), &clean, index);
            if sh.ext_fail && matches!(clean.result, Some(Err(_))) {
                rep.count("registrations_failing_in_the_extension_step");
            }
            if !matches!(clean.result, Some(Ok(_))) && !sh.no_secret && !sh.ext_fail {
                rep.inconclusive(format!("clean run of shape {:?} did not succeed: {:?} {:?}", sh, clean.result.as_ref().map(|r| r.as_ref().map(|_| ()).map_err(|e| *e)), clean.client_err));
            }
        }
        index += 1;
        let mut calls: Vec<(Kind, usize)> = Vec::new();
        let mut per: std::collections::HashMap<Kind, usize> = Default::default();
        for e in &clean.events {
            let k = match &e.ev {
                Ev::Find { .. } => Kind::Find,
                Ev::Save { .. } => Kind::Save,
                Ev::Update { .. } => Kind::Update,
                _ => continue,
            };
            let n = per.entry(k).or_insert(0);
            calls.push((k, *n));
            *n += 1;
        }
        rep.sample_class(&format!("calls/{}", if sh.reg { "reg" } else { "auth" }), json!({"shape": sh.json(), "store_calls": calls.iter().map(|(k, n)| format!("{k:?}#{n}")).collect::<Vec<_>>(), "clean_polls": clean.polls}));
        // ---- single faults
        for (k, n) in &calls {
            for c in codes(args.thorough()) {
                let plan = PlanSpec { faults: vec![(*k, *n, c)], ..Default::default() };
                if let Some(o) = run_case(&mut rep, &sh, &plan, index) {
                    let reached = o.events.iter().any(|e| matches!(&e.ev, Ev::Find { result: Err(_), .. } | Ev::Save { result: Err(_), .. } | Ev::Update { result: Err(_), .. }));
                    if reached {
                        rep.nontrivial(fnv_str(&format!("{sh:?}|{k:?}#{n}|{c}")));
                        rep.count(&format!("fault_reached:{k:?}"));
                    }
                }
                index += 1;
            }
        }
        // ---- pairs of faults
        for i in 0..calls.len() {
            for j in i + 1..calls.len() {
                for (c1, c2) in [(0x28u8, 0x7Fu8), (0x2E, 0x2E), (0x00, 0xFF), (0x19, 0x27)] {
                    let plan = PlanSpec { faults: vec![(calls[i].0, calls[i].1, c1), (calls[j].0, calls[j].1, c2)], ..Default::default() };
                    if let Some(o) = run_case(&mut rep, &sh, &plan, index) {
                        let reached = o.events.iter().filter(|e| matches!(&e.ev, Ev::Find { result: Err(_), .. } | Ev::Save { result: Err(_), .. } | Ev::Update { result: Err(_), .. })).count();
                        if reached > 0 {
                            rep.nontrivial(fnv_str(&format!("{sh:?}|pair{i},{j}|{c1},{c2}")));
                            rep.count("fault_pair_reached");
                        }
                    }
                    index += 1;
                }
            }
        }
        // ---- cancellation after every number of polls
        for yields in [1usize, 2] {
            let full = match catch(|| run_one(&sh, &PlanSpec { yields, ..Default::default() })) {
                Ok(o) => o.polls,
                Err(_) => 0,
            };
            for n in 0..=full {
                let plan = PlanSpec { yields, cancel_after: Some(n), ..Default::default() };
                if let Some(o) = run_case(&mut rep, &sh, &plan, index) {
                    if o.result.is_none() {
                        rep.nontrivial(fnv_str(&format!("{sh:?}|cancel{n}|y{yields}")));
                        rep.count("cancel_points_reached");
                    } else {
                        rep.count("cancel_after_completion");
                    }
                }
                index += 1;
            }
            rep.count_n("polls_of_complete_runs", full as u64);
        }
        // ---- cancellation while another task holds the store lock (CTAP level only)
        if !sh.client {
            for n in [1usize, 2, 5] {
                let plan = PlanSpec { yields: 0, cancel_after: Some(n), lock_held: true, ..Default::default() };
                if let Some(o) = run_case(&mut rep, &sh, &plan, index) {
                    if o.result.is_none() {
                        rep.nontrivial(fnv_str(&format!("{sh:?}|lockheld{n}")));
                        rep.count("cancel_while_lock_held");
                    }
                }
                index += 1;
            }
        }
    }
    // ---- seeded ceremony histories: every failed registration / authentication, whatever the reason
    if only.is_none() || only.map_or(false, |o| o >= 50_000_000) {
        history_sweep(&mut rep, args, only);
    }
    if only.is_none() || only.map_or(false, |o| (40_000_000..50_000_000).contains(&o)) {
        shipped_store_registrations(&mut rep, args, only);
        u2f_registrations(&mut rep, args, only);
        records_leaving_during_the_prompt(&mut rep, args, only);
    }
    rep.obs("shapes", json!(Shape::all().len()));
    rep.obs("status_bytes_per_call", json!(codes(args.thorough()).len()));
    if only.is_none() && (rep.get("fault_reached:Save") == 0 || rep.get("fault_reached:Update") == 0 || rep.get("cancel_points_reached") == 0 || rep.get("reg_cancelled_after_save") == 0) {
        rep.inconclusive("a fault class or the cancellation sweep (incl. a cancellation after the save happened) was never reached".into());
    }
    rep
}
