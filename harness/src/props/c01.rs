//! C01 — RP ID bound to the origin at a label boundary and registrable.
//!
//! Monitor: code accepts  ==>  reference predicate accepts, and the id returned is the effective id.
//! End-to-end: a rejected pair never reaches the authenticator (no check_user / find / save / update
//! events); an accepted pair is stored / asserted under exactly the effective id.

use passkey_client::{DefaultClientData, Origin, RpIdVerifier, UnverifiedAssetLink};
use passkey_types::webauthn::UserVerificationRequirement;
use serde_json::{json, Value};

use crate::{
    collab::{Disc, Ev, Log, RecTld},
    exec::block_on,
    oracle::{
        authdata,
        psl::{RefPsl, RuleKind},
        sha256,
    },
    report::Report,
    rng::{fnv_str, Rng},
    util::{creation_options, pk_param, request_options, url, AuthCfg, Rig},
    worker::catch,
    Args,
};

const FP: &str = "B3:5B:68:D5:CE:84:50:55:7C:6A:55:FD:64:B5:1F:EA:C1:10:CB:36:D6:A3:52:1C:59:48:DB:3A:38:0A:34:A9";

#[derive(Clone, Debug)]
struct Pair {
    android: bool,
    /// web: full origin URL; android: the asset-link host
    origin: String,
    rp: Option<String>,
    localhost: bool,
    custom: bool,
    tag: &'static str,
}

impl Pair {
    fn json(&self) -> Value {
        json!({"kind": if self.android {"android"} else {"web"}, "origin": self.origin, "rp_id": self.rp,
            "insecure_localhost": self.localhost, "custom_provider": self.custom, "tag": self.tag,
            "insecure_localhost_setter_calls": self.flag_history(), "provider_error_variant": if self.custom { self.err_variant() } else { 0 }})
    }
    fn h(&self) -> u64 {
        crate::rng::fnv_str(&format!("{}|{:?}|{}", self.origin, self.rp, self.android))
    }
    /// The calls made to the insecure-localhost setter, the last one being the configuration in force.
    fn flag_history(&self) -> Vec<bool> {
        match self.h() % 4 {
            0 => vec![!self.localhost, self.localhost],
            1 => vec![self.localhost, !self.localhost, self.localhost],
            _ => vec![self.localhost],
        }
    }
    /// Which error variant the custom provider reports refusals with.
    fn err_variant(&self) -> u8 {
        ((self.h() >> 8) % 4) as u8
    }
}

const PRIVATE_RULES: &[&str] = &["example.com", "internal.corp", "shop.example.org"];

struct Reference<'a> {
    psl: &'a RefPsl,
}

#[derive(Debug, PartialEq)]
enum RefVerdict {
    Accept(String),
    Reject(&'static str),
    NotJudged(&'static str),
}

impl Reference<'_> {
    fn registrable(&self, id: &str, custom: bool) -> bool {
        let Ok(ascii) = idna::domain_to_ascii(id) else { return false };
        if RefPsl::has_empty_label(&ascii) {
            return false;
        }
        let (suffix, _) = self.psl.public_suffix(&ascii);
        let mut suffix_len = suffix.len();
        if custom {
            for r in PRIVATE_RULES {
                if ascii == *r || ascii.ends_with(&format!(".{r}")) {
                    suffix_len = suffix_len.max(r.len());
                }
            }
        }
        ascii.len() > suffix_len
    }

    fn judge(&self, p: &Pair) -> RefVerdict {
        let (host, https): (String, bool) = if p.android {
            (p.origin.clone(), true)
        } else {
            let u = match url::Url::parse(&p.origin) {
                Ok(u) => u,
                Err(_) => return RefVerdict::Reject("origin does not parse"),
            };
            match u.host() {
                Some(url::Host::Domain(d)) => (d.to_string(), u.scheme().eq_ignore_ascii_case("https")),
                _ => return RefVerdict::Reject("host is not a DNS name"),
            }
        };
        let eff = p.rp.clone().unwrap_or_else(|| host.clone());
        if eff.is_empty() {
            return RefVerdict::Reject("empty effective RP ID");
        }
        if !(eff == host || host.ends_with(&format!(".{eff}"))) {
            return RefVerdict::Reject("RP ID is not the host nor a label-aligned suffix of it");
        }
        if eff == "localhost" {
            if host != "localhost" {
                return RefVerdict::NotJudged("RP ID localhost under a *.localhost host");
            }
            if p.android {
                return RefVerdict::NotJudged("localhost asset-link host");
            }
            return if p.localhost { RefVerdict::Accept(eff) } else { RefVerdict::Reject("localhost not enabled") };
        }
        if !https {
            return RefVerdict::Reject("origin is not https");
        }
        if !self.registrable(&eff, p.custom) {
            return RefVerdict::Reject("effective RP ID is not a registrable domain");
        }
        RefVerdict::Accept(eff)
    }
}

fn relation_class(p: &Pair, host: &str) -> &'static str {
    match &p.rp {
        None => "absent",
        Some(r) if r == host => "equal",
        Some(r) if r.is_empty() => "empty",
        Some(r) if host.ends_with(&format!(".{r}")) => "label-suffix",
        Some(r) if host.ends_with(r.as_str()) => "char-suffix",
        Some(r) if r.ends_with(&format!(".{host}")) => "host-is-parent-of-id",
        Some(r) if host.contains(&format!(".{r}.")) || host.starts_with(&format!("{r}.")) => "labels-inside-the-host",
        Some(r) if r.eq_ignore_ascii_case(host) => "case-variant",
        Some(_) => "unrelated",
    }
}

fn verify_pair(rep: &mut Report, reference: &Reference, log: &std::sync::Arc<Log>, p: &Pair, index: u64) {
    rep.eval();
    let case = {
        let mut c = p.json();
        c["index"] = json!(index);
        c
    };
    let tld = if p.custom {
        RecTld::with_private(log.clone(), PRIVATE_RULES.iter().map(|s| s.to_string()).collect())
    } else {
        RecTld::default_list(log.clone())
    };
    let tld = if p.custom { tld.reporting_errors_as(p.err_variant()) } else { tld };
    let mut verifier = RpIdVerifier::new(tld);
    for f in p.flag_history() {
        verifier = verifier.allows_insecure_localhost(f);
    }
    let got: Result<Result<String, String>, (String, String)> = catch(|| {
        if p.android {
            let link = UnverifiedAssetLink::new(
                "com.example.app",
                FP,
                p.origin.clone(),
                url("https://example.com/.well-known/assetlinks.json"),
            )
            .map_err(|e| format!("asset link: {e:?}"))?;
            let origin = Origin::Android(link);
            verifier.assert_domain(&origin, p.rp.as_deref()).map(|s| s.to_string()).map_err(|e| format!("{e:?}"))
        } else {
            let u = url::Url::parse(&p.origin).map_err(|e| format!("url: {e}"))?;
            let origin = Origin::from(&u);
            verifier.assert_domain(&origin, p.rp.as_deref()).map(|s| s.to_string()).map_err(|e| format!("{e:?}"))
        }
    });
    let got = match got {
        Ok(g) => g,
        Err((sig, detail)) => {
            rep.violate(&format!("assert_domain {sig}"), detail, case);
            return;
        }
    };
    let verdict = reference.judge(p);
    let host = if p.android {
        p.origin.clone()
    } else {
        url::Url::parse(&p.origin).ok().and_then(|u| u.host_str().map(|s| s.to_string())).unwrap_or_default()
    };
    let rel = relation_class(p, &host);
    let kind = if p.android { "android" } else { "web" };
    match (&got, &verdict) {
        (Ok(id), RefVerdict::Accept(eff)) => {
            rep.count("accepted");
            if id != eff {
                rep.violate(
                    &format!("{kind}: accepted pair yields an id different from the effective RP ID"),
                    format!("returned {id:?}, effective {eff:?}"),
                    case.clone(),
                );
            }
        }
        (Ok(id), RefVerdict::Reject(why)) => {
            rep.violate(
                &format!("{kind}: accepted a pair the statement rejects: {why} (relation {rel})"),
                format!("assert_domain returned Ok({id:?})"),
                case.clone(),
            );
        }
        (Ok(_), RefVerdict::NotJudged(_)) | (Err(_), RefVerdict::NotJudged(_)) => rep.count("not-judged"),
        (Err(_), RefVerdict::Accept(_)) => rep.count("rejected-though-reference-accepts (completeness not demanded)"),
        (Err(_), RefVerdict::Reject(_)) => rep.count("rejected"),
    }
    let class = format!(
        "{kind}|{}|{rel}|{}|lh{}|cp{}|{:?}",
        p.tag,
        if p.android { "-".to_string() } else { p.origin.split(':').next().unwrap_or("").to_string() },
        p.localhost,
        p.custom,
        matches!(verdict, RefVerdict::Accept(_))
    );
    let nontrivial = matches!(rel, "label-suffix" | "char-suffix" | "case-variant" | "host-is-parent-of-id" | "labels-inside-the-host")
        || p.tag.starts_with("psl")
        || host.contains("xn--")
        || host == "localhost"
        || p.origin.contains("localhost")
        || p.custom;
    if nontrivial {
        rep.nontrivial(fnv_str(&format!("{class}|{}|{:?}", p.origin, p.rp)));
    }
    rep.sample_class(&class, json!({"pair": p.json(), "code": format!("{got:?}"), "reference": format!("{verdict:?}")}));
}

fn check_valid_rp_id(rep: &mut Report, reference: &Reference, log: &std::sync::Arc<Log>, id: &str, localhost: bool, tag: &str, index: u64) {
    rep.eval();
    let verifier = RpIdVerifier::new(RecTld::default_list(log.clone())).allows_insecure_localhost(localhost);
    let case = json!({"kind": "is_valid_rp_id", "rp_id": id, "insecure_localhost": localhost, "tag": tag, "index": index});
    let got = match catch(|| verifier.is_valid_rp_id(id)) {
        Ok(g) => g,
        Err((sig, d)) => {
            rep.violate(&format!("is_valid_rp_id {sig}"), d, case);
            return;
        }
    };
    let expect = if id == "localhost" { localhost } else { reference.registrable(id, false) };
    if got && !expect {
        rep.violate(
            &format!("is_valid_rp_id accepts an id that is not a registrable domain ({tag})"),
            format!("{id:?} judged valid"),
            case,
        );
    }
    rep.count(if got { "valid_rp_id:true" } else { "valid_rp_id:false" });
    if tag.starts_with("psl") {
        rep.nontrivial(fnv_str(&format!("valid|{id}|{localhost}")));
    }
    rep.sample_class(&format!("is_valid_rp_id|{tag}|{got}"), json!({"rp_id": id, "code": got, "reference": expect}));
}

/// End-to-end through Client::register and Client::authenticate.
fn end_to_end(rep: &mut Report, reference: &Reference, p: &Pair, index: u64) {
    if p.android && url::Url::parse("https://example.com").is_err() {
        return;
    }
    rep.count("end_to_end");
    let rig = Rig::ok(Disc::Full);
    let tld = if p.custom {
        RecTld::with_private(rig.log.clone(), PRIVATE_RULES.iter().map(|s| s.to_string()).collect())
    } else {
        RecTld::default_list(rig.log.clone())
    };
    let tld = if p.custom { tld.reporting_errors_as(p.err_variant()) } else { tld };
    let hist = p.flag_history();
    let mut client = rig.client_with(AuthCfg::default(), tld, hist[0]);
    for f in &hist[1..] {
        client = client.allows_insecure_localhost(*f);
    }
    let verdict = reference.judge(p);
    let mut case = p.json();
    case["index"] = json!(index);
    case["end_to_end"] = json!(true);
    let mk_origin_url = || url::Url::parse(&p.origin);
    let opts = creation_options(p.rp.as_deref(), b"user-1", "u", &[7u8; 32], vec![pk_param(coset::iana::Algorithm::ES256)]);
    let reg = catch(|| {
        if p.android {
            let link = UnverifiedAssetLink::new("com.example.app", FP, p.origin.clone(), url("https://example.com/.well-known/assetlinks.json")).unwrap();
            block_on(client.register(Origin::Android(link), opts, DefaultClientData))
        } else {
            match mk_origin_url() {
                Ok(u) => block_on(client.register(&u, opts, DefaultClientData)),
                Err(_) => Err(passkey_client::WebauthnError::OriginMissingDomain),
            }
        }
    });
    let reg = match reg {
        Ok(r) => r,
        Err((sig, d)) => {
            rep.violate(&format!("client register {sig}"), d, case);
            return;
        }
    };
    let events = rig.log.snapshot();
    let touched: Vec<&'static str> = events
        .iter()
        .filter(|e| matches!(e.ev, Ev::CheckUser { .. } | Ev::Find { .. } | Ev::Save { .. } | Ev::Update { .. }))
        .map(|e| e.ev.kind())
        .collect();
    match (&reg, &verdict) {
        (Ok(cred), RefVerdict::Accept(eff)) => {
            rep.count("e2e_register_ok");
            let snap = rig.store.snapshot();
            if snap.len() != 1 || snap[0].rp_id != *eff {
                rep.violate("register: credential not stored under the effective RP ID", format!("store {:?}, effective {eff:?}", snap.iter().map(|s| s.rp_id.clone()).collect::<Vec<_>>()), case.clone());
            }
            match authdata::decode(&cred.response.authenticator_data) {
                Ok(ad) if ad.rp_id_hash == sha256(eff.as_bytes()) => {}
                Ok(_) => rep.violate("register: rpIdHash is not SHA-256 of the effective RP ID", format!("effective {eff:?}"), case.clone()),
                Err(e) => rep.violate("register: authenticator data undecodable", format!("{e:?}"), case.clone()),
            }
            // authenticate under the same pair
            rig.log.clear();
            let ropts = request_options(p.rp.as_deref(), &[9u8; 16], None, UserVerificationRequirement::Preferred);
            let auth = catch(|| {
                if p.android {
                    let link = UnverifiedAssetLink::new("com.example.app", FP, p.origin.clone(), url("https://example.com/.well-known/assetlinks.json")).unwrap();
                    block_on(client.authenticate(Origin::Android(link), ropts, DefaultClientData))
                } else {
                    let u = mk_origin_url().unwrap();
                    block_on(client.authenticate(&u, ropts, DefaultClientData))
                }
            });
            match auth {
                Ok(Ok(a)) => {
                    rep.count("e2e_authenticate_ok");
                    let finds: Vec<String> = rig.log.snapshot().iter().filter_map(|e| if let Ev::Find { rp, .. } = &e.ev { Some(rp.clone()) } else { None }).collect();
                    if finds.iter().any(|r| r != eff) {
                        rep.violate("authenticate: store looked up under an id other than the effective RP ID", format!("{finds:?} vs {eff:?}"), case.clone());
                    }
                    match authdata::decode(&a.response.authenticator_data) {
                        Ok(ad) if ad.rp_id_hash == sha256(eff.as_bytes()) => {}
                        _ => rep.violate("authenticate: rpIdHash is not SHA-256 of the effective RP ID", format!("effective {eff:?}"), case.clone()),
                    }
                }
                Ok(Err(e)) => rep.count(&format!("e2e_authenticate_err:{e:?}")),
                Err((sig, d)) => rep.violate(&format!("client authenticate {sig}"), d, case.clone()),
            }
        }
        (Ok(_), RefVerdict::Reject(why)) => {
            rep.violate(&format!("register succeeded for a pair the statement rejects: {why}"), String::new(), case.clone());
        }
        (Err(_), RefVerdict::Reject(_)) => {
            rep.count("e2e_register_rejected");
            if !touched.is_empty() {
                rep.violate("rejected pair reached the authenticator", format!("collaborator calls {touched:?}"), case.clone());
            }
            // authenticate must not reach the authenticator either
            rig.log.clear();
            let ropts = request_options(p.rp.as_deref(), &[9u8; 16], None, UserVerificationRequirement::Preferred);
            let auth = catch(|| {
                if p.android {
                    let link = UnverifiedAssetLink::new("com.example.app", FP, p.origin.clone(), url("https://example.com/.well-known/assetlinks.json")).unwrap();
                    block_on(client.authenticate(Origin::Android(link), ropts, DefaultClientData))
                } else {
                    match mk_origin_url() {
                        Ok(u) => block_on(client.authenticate(&u, ropts, DefaultClientData)),
                        Err(_) => Err(passkey_client::WebauthnError::OriginMissingDomain),
                    }
                }
            });
            let touched: Vec<&'static str> = rig.log.snapshot().iter().filter(|e| matches!(e.ev, Ev::CheckUser { .. } | Ev::Find { .. } | Ev::Save { .. } | Ev::Update { .. })).map(|e| e.ev.kind()).collect();
            match auth {
                Ok(Ok(_)) => rep.violate("authenticate succeeded for a pair the statement rejects", String::new(), case.clone()),
                Ok(Err(_)) => {
                    if !touched.is_empty() {
                        rep.violate("rejected pair reached the authenticator (authenticate)", format!("collaborator calls {touched:?}"), case.clone());
                    }
                }
                Err((sig, d)) => rep.violate(&format!("client authenticate {sig}"), d, case.clone()),
            }
        }
        _ => rep.count("e2e_other"),
    }
}

/// One verifier (and one client) reused for a whole sequence of pairs: a verdict must not depend on
/// what was accepted before. For every multi-label rule R of the list whose parent has a registrable
/// domain D: first the pair (https://D, RP ID absent), which is accepted, then a pair whose RP ID is
/// the public suffix R itself (below D), then is_valid_rp_id(R).
fn reused_verifier(rep: &mut Report, reference: &Reference, log: &std::sync::Arc<Log>, psl: &RefPsl, thorough: bool) {
    let verifier = RpIdVerifier::new(RecTld::default_list(log.clone()));
    let mut k = 0u64;
    for r in psl.rules.iter() {
        if r.kind == RuleKind::Exception || r.ascii.split('.').count() < if r.kind == RuleKind::Wildcard { 2 } else { 3 } {
            continue;
        }
        if !thorough && r.line % 3 != 0 && r.kind == RuleKind::Normal {
            continue;
        }
        let suffix = if r.kind == RuleKind::Wildcard { format!("zq.{}", r.ascii) } else { r.ascii.clone() };
        let parent = if r.kind == RuleKind::Wildcard { r.ascii.clone() } else { r.ascii.split_once('.').map(|x| x.1.to_string()).unwrap_or_default() };
        let Ok(d) = psl.etld_plus_one(&parent) else { continue };
        let d = d.to_string();
        k += 1;
        rep.eval();
        let first = Pair { android: false, origin: format!("https://{d}"), rp: None, localhost: false, custom: false, tag: "verifier-reuse-first" };
        let second = Pair { android: false, origin: format!("https://bucket.{suffix}"), rp: Some(suffix.clone()), localhost: false, custom: false, tag: "verifier-reuse-then" };
        let case = json!({"index": 20_000_000 + k, "part": "one verifier reused", "first": first.json(), "then": second.json()});
        let run = |p: &Pair| -> Result<Result<String, String>, (String, String)> {
            catch(|| {
                let u = url::Url::parse(&p.origin).map_err(|e| format!("url: {e}"))?;
                verifier.assert_domain(&Origin::from(&u), p.rp.as_deref()).map(|s| s.to_string()).map_err(|e| format!("{e:?}"))
            })
        };
        for p in [&first, &second] {
            match (run(p), reference.judge(p)) {
                (Err((sig, d)), _) => rep.violate(&format!("assert_domain {sig}"), d, case.clone()),
                (Ok(Ok(id)), RefVerdict::Reject(why)) => rep.violate(&format!("web: accepted a pair the statement rejects: {why} (the same verifier had just accepted another pair)"), format!("assert_domain returned Ok({id:?})"), case.clone()),
                (Ok(Ok(_)), RefVerdict::Accept(_)) => rep.count("reused_verifier_accepts"),
                (Ok(Err(_)), RefVerdict::Reject(_)) => rep.count("reused_verifier_rejects"),
                _ => {}
            }
        }
        if let Ok(valid) = catch(|| verifier.is_valid_rp_id(&suffix)) {
            if valid {
                rep.violate("is_valid_rp_id accepts a public suffix (the same verifier had just accepted a pair above it)", suffix.clone(), case.clone());
            }
        }
        rep.nontrivial(fnv_str(&format!("reuse|{suffix}")));
    }
}

fn char_suffixes(host: &str) -> Vec<String> {
    // every proper suffix of the host that does not start at a label boundary
    let mut v = Vec::new();
    for (i, _) in host.char_indices().skip(1) {
        let s = &host[i..];
        let aligned = host.as_bytes()[i - 1] == b'.';
        if !aligned && !s.starts_with('.') {
            v.push(s.to_string());
        }
    }
    v
}

fn label_suffixes(host: &str) -> Vec<String> {
    let mut v = Vec::new();
    let mut rest = host;
    while let Some((_, r)) = rest.split_once('.') {
        v.push(r.to_string());
        rest = r;
    }
    v
}

fn generate(args: &Args, psl: &RefPsl, rng: &mut Rng) -> Vec<Pair> {
    let mut out: Vec<Pair> = Vec::new();
    let hosts: Vec<&str> = vec![
        "example.com", "www.example.com", "login.accounts.example.co.uk", "evilexample.com", "a.b.c.d.example.org",
        "shop.example.org", "x.shop.example.org", "internal.corp", "app.internal.corp", "xn--bcher-kva.de",
        "www.xn--bcher-kva.de", "a.xn--55qx5d.cn", "xn--55qx5d.cn", "localhost", "app.localhost", "com", "co.uk",
        "example.co.uk", "www.ck", "foo.www.ck", "a.b.kobe.jp", "city.kobe.jp", "x.city.kobe.jp", "github.io",
        "user.github.io", "example.com.", "www.example.com.evil.net", "example.com.evil.net", "github.io.attacker.org", "127.0.0.1", "[::1]", "1.2.3.4", "future.1password.com", "notexample.co.uk",
    ];
    let schemes: Vec<&str> = vec!["https", "HTTPS", "http", "ws", "wss", "ftp"];
    for host in &hosts {
        let mut rps: Vec<(Option<String>, &'static str)> = vec![(None, "absent"), (Some(host.to_string()), "equal")];
        for s in label_suffixes(host) {
            rps.push((Some(s), "label-suffix"));
        }
        for s in char_suffixes(host) {
            rps.push((Some(s), "char-suffix"));
        }
        // the host is a parent domain of the RP ID (RP ID has more labels than the origin host)
        rps.push((Some(format!("login.{host}")), "host-is-parent-of-id"));
        rps.push((Some(format!("a.b.{host}")), "host-is-parent-of-id"));
        // runs of the host's labels that do not reach its end (the RP ID occurs inside or at the front
        // of the host: `www.example.com.evil.net` is not a page of `example.com`)
        {
            let labels: Vec<&str> = host.split('.').collect();
            for i in 0..labels.len() {
                for j in i + 1..labels.len() {
                    rps.push((Some(labels[i..j].join(".")), "labels-inside-the-host"));
                }
            }
        }
        rps.push((Some(format!(".{host}")), "leading-dot"));
        rps.push((Some(format!("{host}.")), "trailing-dot"));
        for s in label_suffixes(host).into_iter().take(2) {
            rps.push((Some(format!(".{s}")), "leading-dot-suffix"));
        }
        rps.push((Some(String::new()), "empty"));
        rps.push((Some(".".into()), "dot"));
        rps.push((Some("...com".into()), "dots"));
        rps.push((Some("unrelated.net".into()), "unrelated"));
        rps.push((Some(host.to_ascii_uppercase()), "upper-case"));
        rps.push((Some("localhost".into()), "localhost-id"));
        for (rp, tag) in rps {
            for (si, scheme) in schemes.iter().enumerate() {
                // non-https schemes only for a subset of relations to keep the product moderate
                if si >= 2 && !matches!(tag, "absent" | "equal" | "label-suffix" | "localhost-id") {
                    continue;
                }
                for port in ["", ":8443"] {
                    if !port.is_empty() && si > 2 {
                        continue;
                    }
                    let origin = format!("{scheme}://{host}{port}");
                    for localhost in [false, true] {
                        for custom in [false, true] {
                            if custom && !(host.contains("example") || host.contains("internal")) {
                                continue;
                            }
                            if localhost && !(host.contains("localhost") || tag == "localhost-id" || tag == "absent") {
                                continue;
                            }
                            out.push(Pair { android: false, origin: origin.clone(), rp: rp.clone(), localhost, custom, tag });
                        }
                    }
                }
            }
            // android: DNS-name hosts only
            if !host.contains('[') && !host.chars().all(|c| c.is_ascii_digit() || c == '.') {
                for custom in [false, true] {
                    if custom && !(host.contains("example") || host.contains("internal")) {
                        continue;
                    }
                    out.push(Pair { android: true, origin: host.to_string(), rp: rp.clone(), localhost: false, custom, tag });
                }
            }
        }
    }
    // every public suffix of the list (quick: all IDN / wildcard / exception rules + seeded sample)
    let sample_rest = args.size(1500, usize::MAX / 200);
    let mut plain: Vec<usize> = Vec::new();
    let mut chosen: Vec<usize> = Vec::new();
    for (i, r) in psl.rules.iter().enumerate() {
        if r.kind != RuleKind::Normal || r.ascii != r.unicode {
            chosen.push(i);
        } else {
            plain.push(i);
        }
    }
    rng.shuffle(&mut plain);
    chosen.extend(plain.into_iter().take(sample_rest));
    chosen.sort();
    for i in chosen {
        let r = &psl.rules[i];
        let suffix = match r.kind {
            RuleKind::Wildcard => format!("zq.{}", r.ascii),
            _ => r.ascii.clone(),
        };
        let host = format!("a.{suffix}");
        let origin = format!("https://{host}");
        out.push(Pair { android: false, origin: origin.clone(), rp: Some(suffix.clone()), localhost: false, custom: false, tag: "psl-suffix-as-id" });
        out.push(Pair { android: false, origin: origin.clone(), rp: Some(host.clone()), localhost: false, custom: false, tag: "psl-host-as-id" });
        out.push(Pair { android: false, origin: format!("https://{suffix}"), rp: None, localhost: false, custom: false, tag: "psl-suffix-as-host" });
        out.push(Pair { android: false, origin: format!("https://{suffix}"), rp: Some(host.clone()), localhost: false, custom: false, tag: "psl-host-is-parent-of-id" });
        out.push(Pair { android: true, origin: host.clone(), rp: Some(suffix.clone()), localhost: false, custom: false, tag: "psl-suffix-as-id" });
        out.push(Pair { android: true, origin: suffix.clone(), rp: None, localhost: false, custom: false, tag: "psl-suffix-as-host" });
        if r.ascii != r.unicode {
            // Unicode presentation of the suffix as RP ID (never equals the punycode host: must not be accepted)
            out.push(Pair { android: false, origin: origin.clone(), rp: Some(r.unicode.clone()), localhost: false, custom: false, tag: "psl-unicode-suffix-as-id" });
            out.push(Pair { android: true, origin: r.unicode.clone(), rp: None, localhost: false, custom: false, tag: "psl-unicode-suffix-as-host" });
        }
    }
    // wildcard instances whose label is not made up: the labels that deeper rules of the list put in the
    // wildcard position (`ex` in `*.ex.futurecms.at` under `*.futurecms.at`) - such a label has table nodes
    // of its own, and the name is a public suffix through the wildcard alone (or registrable through an exception)
    for w in psl.rules.iter().filter(|r| r.kind == RuleKind::Wildcard) {
        let tail = format!(".{}", w.ascii);
        let mut labels: Vec<String> = psl.rules.iter().filter(|r| r.ascii.len() > tail.len() && r.ascii.ends_with(&tail)).filter_map(|r| r.ascii[..r.ascii.len() - tail.len()].rsplit('.').next().map(|l| l.to_string())).collect();
        labels.sort();
        labels.dedup();
        for l in labels {
            let suffix = format!("{l}.{}", w.ascii);
            let host = format!("a.{suffix}");
            out.push(Pair { android: false, origin: format!("https://{host}"), rp: Some(suffix.clone()), localhost: false, custom: false, tag: "psl-wildcard-instance-with-nodes-of-its-own" });
            out.push(Pair { android: false, origin: format!("https://{suffix}"), rp: None, localhost: false, custom: false, tag: "psl-wildcard-instance-with-nodes-of-its-own" });
            out.push(Pair { android: true, origin: host.clone(), rp: Some(suffix.clone()), localhost: false, custom: false, tag: "psl-wildcard-instance-with-nodes-of-its-own" });
            out.push(Pair { android: false, origin: format!("https://b.{host}"), rp: Some(host.clone()), localhost: false, custom: false, tag: "psl-wildcard-instance-with-nodes-of-its-own" });
        }
    }
    out
}

pub fn run(args: &Args) -> Report {
    let mut rep = Report::new(
        "C01",
        &args.tier,
        args.seed,
        "generated (origin, RP ID, localhost flag, provider, web/android) tuples: hand-built hosts x every relation of the RP ID to the host (absent, equal, every label-aligned suffix, every character-level non-aligned suffix, dotted, empty, unrelated, case) x schemes/ports, plus every selected public suffix of the shipped list in punycode and Unicode form and every wildcard instance whose label carries deeper rules of its own; distinct by the full tuple; non-trivial when the reference verdict depends on more than syntax (RP ID is a proper suffix / case variant, PSL-derived, IDN, localhost or custom provider)",
    );
    rep.assumptions.push("url crate decides what is a DNS host; idna crate gives the ASCII form; reference PSL algorithm over the shipped .dat decides 'registrable'".into());
    rep.assumptions.push("monitor is one-directional: acceptance implies the reference accepts (completeness is not part of the statement)".into());
    let psl = match RefPsl::load() {
        Ok(p) => p,
        Err(e) => {
            rep.inconclusive(e);
            return rep;
        }
    };
    let reference = Reference { psl: &psl };
    let mut rng = Rng::derive(args.seed, "c01", 0);
    let pairs = generate(args, &psl, &mut rng);
    rep.obs("pairs_generated", json!(pairs.len()));
    let log = Log::new();
    let replay_index: Option<u64> = args.get("replay").and_then(|p| {
        let v: Value = serde_json::from_str(&std::fs::read_to_string(p).ok()?).ok()?;
        v["case"]["index"].as_u64()
    }).or(args.only);
    let e2e_every = if args.thorough() { 10 } else { 50 };
    for (i, p) in pairs.iter().enumerate() {
        let i = i as u64;
        if let Some(only) = replay_index {
            if only != i {
                continue;
            }
        }
        log.clear();
        verify_pair(&mut rep, &reference, &log, p, i);
        let interesting = matches!(p.tag, "char-suffix" | "psl-suffix-as-id" | "psl-unicode-suffix-as-id" | "label-suffix");
        let mut r2 = Rng::derive(args.seed, "c01-e2e", i);
        if replay_index.is_some() || r2.below(e2e_every) == 0 || (interesting && r2.below(e2e_every / 5 + 1) == 0) {
            end_to_end(&mut rep, &reference, p, i);
        }
    }
    // is_valid_rp_id over the suffixes themselves, both forms
    if replay_index.is_none() || replay_index.map_or(false, |i| i >= 10_000_000) {
        let mut k = 10_000_000u64;
        for r in psl.rules.iter() {
            let ids: Vec<(String, &str)> = match r.kind {
                RuleKind::Wildcard => vec![(format!("zq.{}", r.ascii), "psl-wildcard-instance"), (format!("a.zq.{}", r.ascii), "psl-plus1")],
                RuleKind::Exception => vec![(r.ascii.clone(), "psl-exception"), (r.ascii.split_once('.').map(|x| x.1.to_string()).unwrap_or_default(), "psl-exception-parent")],
                RuleKind::Normal => vec![(r.ascii.clone(), "psl-suffix"), (format!("a.{}", r.ascii), "psl-plus1")],
            };
            for (id, tag) in ids {
                if replay_index.map_or(true, |i| i == k) && (args.thorough() || r.ascii != r.unicode || r.kind != RuleKind::Normal || r.line % 4 == 0) {
                    check_valid_rp_id(&mut rep, &reference, &log, &id, false, tag, k);
                }
                k += 1;
            }
            if r.ascii != r.unicode {
                if replay_index.map_or(true, |i| i == k) {
                    check_valid_rp_id(&mut rep, &reference, &log, &r.unicode, false, "psl-suffix-unicode-form", k);
                }
                k += 1;
            }
        }
        for w in psl.rules.iter().filter(|r| r.kind == RuleKind::Wildcard) {
            let tail = format!(".{}", w.ascii);
            let mut labels: Vec<String> = psl.rules.iter().filter(|r| r.ascii.len() > tail.len() && r.ascii.ends_with(&tail)).filter_map(|r| r.ascii[..r.ascii.len() - tail.len()].rsplit('.').next().map(|l| l.to_string())).collect();
            labels.sort();
            labels.dedup();
            for l in labels {
                if replay_index.map_or(true, |i| i == k) {
                    check_valid_rp_id(&mut rep, &reference, &log, &format!("{l}.{}", w.ascii), false, "psl-wildcard-instance-with-nodes-of-its-own", k);
                }
                k += 1;
            }
        }
        for (id, lh) in [("localhost", false), ("localhost", true), ("", false), (".", false), ("com", false), ("example.com", false), ("a..b.com", false)] {
            if replay_index.map_or(true, |i| i == k) {
                check_valid_rp_id(&mut rep, &reference, &log, id, lh, "fixed", k);
            }
            k += 1;
        }
    }
    if replay_index.is_none() {
        reused_verifier(&mut rep, &reference, &log, &psl, args.thorough());
    }
    if replay_index.is_none() && (rep.get("reused_verifier_rejects") == 0 || rep.get("accepted") == 0 || rep.get("e2e_register_ok") == 0 || rep.get("e2e_register_rejected") == 0) {
        rep.inconclusive("no accepted pair / no end-to-end accept / no end-to-end reject was observed".into());
    }
    rep
}
