//! C02 — registration returns a credential a standard relying party can verify.

use ciborium::value::Value as Cbor;
use serde_json::{json, Value};

use crate::{
    collab::CredSnap,
    oracle::{self, authdata},
    props::cer::{self, Op, Outcome, Step, World},
    report::{hex_short, Report},
    rng::{fnv_str, Rng},
    worker::catch,
    Args,
};

pub struct RegCheck<'a> {
    pub rep: &'a mut Report,
    pub history: u64,
    pub seen_ids: std::collections::HashSet<Vec<u8>>,
}

fn case_json(history: u64, st: &Step) -> Value {
    json!({"index": history, "step": st.index, "op": st.op.json(), "config": st.cfg.json(), "store_capability": format!("{:?}", st.disc)})
}

/// COSE / DER / point / stored-scalar checks shared by both levels. Returns (x, y) if the key parsed.
fn check_key_and_store(
    rep: &mut Report,
    level: &str,
    st: &Step,
    case: &Value,
    at: &authdata::RefAttested,
    eff_rp: &str,
    seen_ids: &mut std::collections::HashSet<Vec<u8>>,
) -> Option<(Vec<u8>, Vec<u8>)> {
    // what the store was handed besides the credential: the entities of the request
    let (want_user, want_names): (Vec<u8>, Option<(String, String, String)>) = match st.op {
        Op::Register(r) => {
            let (rp_name, disp) = cer::misc_names(r.misc).map(|n| (n.clone(), n)).unwrap_or(("RP".to_string(), r.user_name.clone()));
            (r.user_id.clone(), Some((rp_name, r.user_name.clone(), disp)))
        }
        Op::Make(m) => (m.user_id.clone(), None),
        _ => (vec![], None),
    };
    for e in st.events.iter() {
        if let crate::collab::Ev::Save { rp_entity, user_entity, names, rp_id, result: Ok(()), .. } = &e.ev {
            rep.count("save_arguments_checked");
            if rp_entity != eff_rp || rp_id != eff_rp {
                rep.violate(&format!("{level}: the store was handed an RP entity / credential RP ID other than the effective RP ID"), format!("rp argument {rp_entity:?}, credential {rp_id:?}, effective {eff_rp:?}"), case.clone());
            }
            if user_entity != &want_user {
                rep.violate(&format!("{level}: the store was handed a user entity other than the request's"), format!("{} vs {}", hex_short(user_entity), hex_short(&want_user)), case.clone());
            }
            if let Some((rn, un, dn)) = &want_names {
                if names.0.as_deref() != Some(rn.as_str()) || names.1.as_deref() != Some(un.as_str()) || names.2.as_deref() != Some(dn.as_str()) {
                    rep.violate(&format!("{level}: the store was handed display strings other than the request's"), format!("lengths rp {:?}/{} user {:?}/{} display {:?}/{}", names.0.as_ref().map(|s| s.len()), rn.len(), names.1.as_ref().map(|s| s.len()), un.len(), names.2.as_ref().map(|s| s.len()), dn.len()), case.clone());
                }
            }
        }
    }
    let mut xy = None;
    match oracle::cose_ec2_public(&at.key) {
        Ok((labels, x, y)) => {
            if labels.iter().any(|l| ![1, 3, -1, -2, -3].contains(l)) {
                rep.violate(&format!("{level}: attested COSE key carries labels outside {{1,3,-1,-2,-3}}"), format!("labels {labels:?}"), case.clone());
            }
            if let Err(e) = oracle::verifying_key(&x, &y) {
                rep.violate(&format!("{level}: attested public key is not a valid P-256 point"), e, case.clone());
            }
            xy = Some((x, y));
        }
        Err(e) => rep.violate(&format!("{level}: attested COSE key is not an ES256 EC2 P-256 key"), e.to_string(), case.clone()),
    }
    // ---- store delta: exactly one new record
    let new: Vec<&CredSnap> = st.after.iter().filter(|a| !st.before.contains(a)).collect();
    let removed = st.before.iter().filter(|b| !st.after.contains(b)).count();
    if new.len() != 1 || removed != 0 || st.after.len() != st.before.len() + 1 {
        rep.violate(
            &format!("{level}: successful registration did not add exactly one credential to the store"),
            format!("before {} after {} new {} removed {}", st.before.len(), st.after.len(), new.len(), removed),
            case.clone(),
        );
        return xy;
    }
    let rec = new[0];
    if rec.id != at.cred_id {
        rep.violate(&format!("{level}: stored credential id differs from the attested credential id"), format!("stored {} attested {}", hex_short(&rec.id), hex_short(&at.cred_id)), case.clone());
    }
    if rec.rp_id != eff_rp {
        rep.violate(&format!("{level}: stored credential is not bound to the effective RP ID"), format!("stored {:?} effective {:?}", rec.rp_id, eff_rp), case.clone());
    }
    if let (Some((x, y)), Some(d)) = (&xy, &rec.d) {
        if let Err(e) = oracle::scalar_matches_point(d, x, y) {
            rep.violate(&format!("{level}: stored private key does not match the returned public key"), e, case.clone());
        }
    } else if rec.d.is_none() {
        rep.violate(&format!("{level}: stored credential holds no private scalar"), String::new(), case.clone());
    }
    let want_len = st.cfg.expected_id_len();
    if rec.id.len() != want_len {
        rep.violate(&format!("{level}: credential id length is not the configured length"), format!("got {} want {}", rec.id.len(), want_len), case.clone());
    }
    if !seen_ids.insert(rec.id.clone()) || st.before.iter().any(|b| b.id == rec.id) {
        rep.violate(&format!("{level}: credential id was already used in this history (not fresh)"), hex_short(&rec.id), case.clone());
    }
    if rec.id.len() >= 8 && rec.id.iter().all(|b| *b == rec.id[0]) {
        rep.violate(&format!("{level}: credential id is a constant byte pattern (not random)"), hex_short(&rec.id), case.clone());
    }
    let want_counter = if st.cfg.counters { Some(0) } else { None };
    if rec.counter != want_counter {
        rep.violate(&format!("{level}: initial signature counter does not follow the configuration"), format!("stored {:?} want {:?}", rec.counter, want_counter), case.clone());
    }
    xy
}

pub fn monitor(c: &mut RegCheck, st: &Step) {
    let rep = &mut *c.rep;
    match (st.op, st.outcome) {
        (Op::Register(r), Outcome::Reg(res)) => {
            rep.eval();
            let case = case_json(c.history, st);
            let eff = r.rp_id.clone().unwrap_or_else(|| r.origin.host.clone());
            let list: Vec<i64> = if r.algs.is_empty() { vec![-7, -257] } else { r.algs.clone() };
            let supported = list.contains(&-7);
            let shape = format!(
                "reg|ch{}|u{}|{:?}|{}|idl{:?}|c{}|rp{}|p{:?}|att{}|pos{}",
                r.challenge.len(), r.user_id.len().min(65), r.algs, r.cd.name(), st.cfg.id_len, st.cfg.counters,
                r.rp_id.is_some(), r.origin.port, r.attestation, st.index.min(20)
            );
            match res {
                Err(e) => {
                    rep.count(&format!("register_err:{e:?}"));
                    if !supported {
                        rep.count("unsupported_list_failed");
                        rep.nontrivial(fnv_str(&shape));
                        if st.after != st.before {
                            rep.violate("client: registration with no supported algorithm changed the store", format!("{e:?}"), case);
                        }
                    }
                }
                Ok(cred) => {
                    rep.count("register_ok");
                    rep.nontrivial(fnv_str(&shape));
                    if !supported {
                        rep.violate("client: registration succeeded although the preference list has no supported algorithm", format!("list {:?}", r.algs), case.clone());
                    }
                    // 1. client data
                    match serde_json::from_slice::<Value>(&cred.response.client_data_json) {
                        Ok(cd) => {
                            if cd["type"] != json!("webauthn.create") {
                                rep.violate("client: clientDataJSON type is not webauthn.create", format!("{}", cd["type"]), case.clone());
                            }
                            if cd["challenge"] != json!(oracle::b64url(&r.challenge)) {
                                rep.violate("client: clientDataJSON challenge is not the unpadded base64url of the request challenge", format!("got {} want {}", cd["challenge"], oracle::b64url(&r.challenge)), case.clone());
                            }
                            if cd["origin"] != json!(r.origin.expected()) {
                                rep.violate("client: clientDataJSON origin is not the caller's origin", format!("got {} want {}", cd["origin"], r.origin.expected()), case.clone());
                            }
                        }
                        Err(e) => rep.violate("client: clientDataJSON is not valid JSON", e.to_string(), case.clone()),
                    }
                    // 2. attestation object
                    let mut att_auth: Option<Vec<u8>> = None;
                    match oracle::cbor_parse(&cred.response.attestation_object) {
                        Ok(v) => {
                            let fmt = oracle::cbor_map_get(&v, &Cbor::Text("fmt".into()));
                            if fmt.and_then(|f| f.as_text()) != Some("none") {
                                rep.violate("client: attestation object fmt is not \"none\"", format!("{fmt:?}"), case.clone());
                            }
                            let stmt = oracle::cbor_map_get(&v, &Cbor::Text("attStmt".into()));
                            if stmt.and_then(|s| s.as_map()).map(|m| m.len()) != Some(0) {
                                rep.violate("client: attestation statement is not the empty map", format!("{stmt:?}"), case.clone());
                            }
                            att_auth = oracle::cbor_map_get(&v, &Cbor::Text("authData".into())).and_then(|a| a.as_bytes()).cloned();
                        }
                        Err(e) => rep.violate("client: attestation object is not valid CBOR", e, case.clone()),
                    }
                    if att_auth.as_deref() != Some(cred.response.authenticator_data.as_slice()) {
                        rep.violate("client: authenticator data inside and outside the attestation object differ", String::new(), case.clone());
                    }
                    // 3. authenticator data
                    match authdata::decode(&cred.response.authenticator_data) {
                        Err(e) => rep.violate("client: authenticator data does not decode", format!("{e:?}"), case.clone()),
                        Ok(ad) => {
                            if ad.rp_id_hash != oracle::sha256(eff.as_bytes()) {
                                rep.violate("client: rpIdHash is not SHA-256 of the effective RP ID", format!("effective {eff:?}"), case.clone());
                            }
                            if ad.trailing != 0 {
                                rep.count("authdata_trailing_bytes_observed");
                            }
                            match &ad.attested {
                                None => rep.violate("client: authenticator data has no attested credential data", format!("flags {:#x}", ad.flags), case.clone()),
                                Some(at) => {
                                    if at.cred_id != cred.raw_id.as_slice() {
                                        rep.violate("client: attested credential id differs from rawId", String::new(), case.clone());
                                    }
                                    if cred.id != oracle::b64url(&cred.raw_id) {
                                        rep.violate("client: id is not the base64url of rawId", format!("{} vs {}", cred.id, oracle::b64url(&cred.raw_id)), case.clone());
                                    }
                                    let xy = check_key_and_store(rep, "client", st, &case, at, &eff, &mut c.seen_ids);
                                    // 5. DER form
                                    match (&cred.response.public_key, &xy) {
                                        (Some(der), Some((x, y))) => match oracle::spki_to_xy(der) {
                                            Ok((dx, dy)) => {
                                                if &dx != x || &dy != y {
                                                    rep.violate("client: DER public key differs from the COSE public key", String::new(), case.clone());
                                                }
                                            }
                                            Err(e) => rep.violate("client: DER public key does not decode", e, case.clone()),
                                        },
                                        (None, _) => rep.violate("client: no DER public key returned for an ES256 credential", String::new(), case.clone()),
                                        _ => {}
                                    }
                                }
                            }
                        }
                    }
                    // 6. algorithm
                    if cred.response.public_key_algorithm != -7 {
                        rep.violate("client: reported algorithm is not the first supported entry of the preference list", format!("reported {} list {:?}", cred.response.public_key_algorithm, list), case.clone());
                    }
                    rep.sample_class(&format!("register/{}", r.cd.name()), json!({"op": st.op.json(), "id": cred.id, "clientDataJSON": String::from_utf8_lossy(&cred.response.client_data_json), "authData_len": cred.response.authenticator_data.len()}));
                }
            }
        }
        (Op::Make(m), Outcome::Make(res)) => {
            rep.eval();
            let case = case_json(c.history, st);
            let supported = m.algs.contains(&-7);
            let shape = format!("make|u{}|{:?}|idl{:?}|c{}|rk{}|uv{}|pos{}", m.user_id.len().min(65), m.algs, st.cfg.id_len, st.cfg.counters, m.rk, m.uv, st.index.min(20));
            match res {
                Err(e) => {
                    rep.count(&format!("make_err:{:#x}", crate::util::status_byte_ref(e)));
                    if !supported && st.after != st.before {
                        rep.violate("ctap: make_credential with no supported algorithm changed the store", format!("{e:?}"), case);
                    }
                    if !supported {
                        rep.nontrivial(fnv_str(&shape));
                    }
                }
                Ok(resp) => {
                    rep.count("make_ok");
                    rep.nontrivial(fnv_str(&shape));
                    if !supported {
                        rep.violate("ctap: make_credential succeeded although the preference list has no supported algorithm", format!("list {:?}", m.algs), case.clone());
                    }
                    let bytes = resp.auth_data.to_vec();
                    match authdata::decode(&bytes) {
                        Err(e) => rep.violate("ctap: authenticator data does not decode", format!("{e:?}"), case.clone()),
                        Ok(ad) => {
                            if ad.rp_id_hash != oracle::sha256(m.rp_id.as_bytes()) {
                                rep.violate("ctap: rpIdHash is not SHA-256 of the RP ID", String::new(), case.clone());
                            }
                            match &ad.attested {
                                None => rep.violate("ctap: authenticator data has no attested credential data", String::new(), case.clone()),
                                Some(at) => {
                                    check_key_and_store(rep, "ctap", st, &case, at, &m.rp_id, &mut c.seen_ids);
                                }
                            }
                        }
                    }
                }
            }
        }
        _ => {}
    }
}

pub fn run_histories(args: &Args, rep: &mut Report, label: &str, n_hist: usize, reg_bias: usize, mut f: impl FnMut(&mut Report, u64, &Step)) {
    let only = replay_index(args);
    for h in 0..n_hist as u64 {
        if let Some(o) = only {
            if o != h {
                continue;
            }
        }
        let mut rng = Rng::derive(args.seed, label, h);
        let (cfg, disc, ve) = cer::gen_cfg(&mut rng);
        let len = rng.range(1, 20);
        let ops = cer::gen_history(&mut rng, len, reg_bias);
        let res = catch(|| {
            let mut w = World::new(cfg, disc, ve);
            for (i, op) in ops.iter().enumerate() {
                w.step(i, op, &mut |st| f(rep, h, st));
            }
        });
        if let Err((sig, detail)) = res {
            rep.violate(&format!("ceremony {sig}"), detail, json!({"index": h, "config": cfg.json(), "ops": ops.iter().map(|o| o.json()).collect::<Vec<_>>()}));
        }
    }
}

pub fn replay_index(args: &Args) -> Option<u64> {
    args.get("replay")
        .and_then(|p| {
            let v: Value = serde_json::from_str(&std::fs::read_to_string(p).ok()?).ok()?;
            v["case"]["index"].as_u64()
        })
        .or(args.only)
}

/// Sequences of registrations through the client into the library's own in-memory store (and its
/// Arc<Mutex> wrapper), with user ids repeating within an RP and every residentKey preference: after
/// each success the store holds what it held before plus exactly the new credential.
fn memory_store_sequences(rep: &mut Report, args: &Args) {
    use passkey_authenticator::MemoryStore;
    use passkey_client::{Client, DefaultClientData};
    use passkey_types::webauthn::{AuthenticatorSelectionCriteria, ResidentKeyRequirement, UserVerificationRequirement};
    let only = replay_index(args);
    let n = args.size(80, 1500) as u64;
    for k in 0..n {
        let index = 30_000_000 + k;
        if only.map_or(false, |o| o != index) {
            continue;
        }
        let mut rng = Rng::derive(args.seed, "c02mem", k);
        let log = crate::collab::Log::new();
        let uv = crate::collab::RecUv::new(log.clone(), crate::collab::UvOutcome::Check { presence: true, verification: true }, Some(true));
        let cfg = crate::util::AuthCfg { counters: rng.bool(), id_len: Some(*rng.pick(&[16u8, 32, 64])), ..Default::default() };
        let wrapped = rng.bool();
        // a third of the sequences go through one of the library's lock wrappers around the reference
        // store instead (for which saving and updating are different things)
        let around_reference = rng.below(3) == 0;
        let steps = rng.range(2, 5);
        let rps = ["example.com", "example.org"];
        let users: [&[u8]; 3] = [b"alice", b"bob", b"\x00"];
        let mut held: Vec<Vec<u8>> = Vec::new();
        macro_rules! drive {
            ($store:expr, $ids:expr) => {{
                let mut client = Client::new_with_custom_tld_provider(crate::util::mk_auth($store, uv.clone(), cfg), crate::collab::RecTld::default_list(log.clone()));
                for step in 0..steps {
                    rep.eval();
                    let rp = *rng.pick(&rps);
                    let user = *rng.pick(&users);
                    let rk = *rng.pick(&[None, Some(ResidentKeyRequirement::Discouraged), Some(ResidentKeyRequirement::Preferred), Some(ResidentKeyRequirement::Required)]);
                    let case = json!({"index": index, "part": "memory-store-sequence", "store": if around_reference {"a lock wrapper around the reference store"} else if wrapped {"Arc<Mutex<MemoryStore>>"} else {"MemoryStore"}, "step": step, "rp": rp, "user_id": hex_short(user), "residentKey": rk.map(|r| format!("{r:?}")), "held_before": held.len()});
                    let mut opts = crate::util::creation_options(Some(rp), user, "n", &rng.bytes(16), vec![crate::util::pk_param(coset::iana::Algorithm::ES256)]);
                    opts.public_key.authenticator_selection = Some(AuthenticatorSelectionCriteria { authenticator_attachment: None, resident_key: rk, require_resident_key: rng.chance(1, 4), user_verification: UserVerificationRequirement::Preferred });
                    let origin = crate::util::url(&format!("https://{rp}"));
                    rep.nontrivial(fnv_str(&format!("mem|{wrapped}|{step}|{rp}|{}|{rk:?}|{}", user.len(), held.len().min(4))));
                    match catch(|| crate::exec::block_on(client.register(&origin, opts, DefaultClientData))) {
                        Err((sig, d)) => rep.violate(&format!("memory store sequence: register {sig}"), d, case),
                        Ok(Err(_)) => rep.count("memory_sequence_refused"),
                        Ok(Ok(c)) => {
                            rep.count("memory_sequence_registered");
                            let now: Vec<Vec<u8>> = $ids(&client);
                            let new_id = c.raw_id.to_vec();
                            let missing: Vec<String> = held.iter().filter(|h| !now.contains(h)).map(|h| hex_short(h)).collect();
                            if !missing.is_empty() {
                                rep.violate("memory store sequence: a successful registration removed credentials the store held before", format!("missing afterwards: {missing:?}"), case.clone());
                            }
                            if !now.contains(&new_id) || now.len() != held.len() + 1 {
                                rep.violate("memory store sequence: a successful registration did not add exactly one credential", format!("{} before, {} after, new id present: {}", held.len(), now.len(), now.contains(&new_id)), case.clone());
                            }
                            held = now;
                        }
                    }
                }
            }};
        }
        if around_reference {
            let rec = crate::collab::RecStore::new(log.clone(), crate::collab::Disc::Full);
            let h = rec.clone();
            let ids = move || -> Vec<Vec<u8>> { h.passkeys().iter().map(|p| p.credential_id.to_vec()).collect() };
            match rng.below(4) {
                0 => drive!(std::sync::Arc::new(tokio::sync::Mutex::new(rec)), |_c: &Client<std::sync::Arc<tokio::sync::Mutex<crate::collab::RecStore>>, crate::collab::RecUv, crate::collab::RecTld>| ids()),
                1 => drive!(std::sync::Arc::new(tokio::sync::RwLock::new(rec)), |_c: &Client<std::sync::Arc<tokio::sync::RwLock<crate::collab::RecStore>>, crate::collab::RecUv, crate::collab::RecTld>| ids()),
                2 => drive!(tokio::sync::Mutex::new(rec), |_c: &Client<tokio::sync::Mutex<crate::collab::RecStore>, crate::collab::RecUv, crate::collab::RecTld>| ids()),
                _ => drive!(tokio::sync::RwLock::new(rec), |_c: &Client<tokio::sync::RwLock<crate::collab::RecStore>, crate::collab::RecUv, crate::collab::RecTld>| ids()),
            }
        } else if wrapped {
            drive!(std::sync::Arc::new(tokio::sync::Mutex::new(MemoryStore::new())), |c: &Client<std::sync::Arc<tokio::sync::Mutex<MemoryStore>>, crate::collab::RecUv, crate::collab::RecTld>| c.authenticator().store().try_lock().map(|g| g.keys().cloned().collect::<Vec<_>>()).unwrap_or_default());
        } else {
            drive!(MemoryStore::new(), |c: &Client<MemoryStore, crate::collab::RecUv, crate::collab::RecTld>| c.authenticator().store().keys().cloned().collect::<Vec<_>>());
        }
    }
}

/// The single-slot store shipped with the library (`Option<Passkey>`, bare and behind the lock wrappers),
/// empty or already occupied: after every successful registration the slot holds the new credential.
fn single_slot_sequences(rep: &mut Report, args: &Args) {
    use passkey_client::{Client, DefaultClientData};
    use passkey_types::Passkey;
    let only = replay_index(args);
    let n = args.size(45, 600) as u64;
    for k in 0..n {
        let index = 33_000_000 + k;
        if only.map_or(false, |o| o != index) {
            continue;
        }
        let mut rng = Rng::derive(args.seed, "c02slot", k);
        let log = crate::collab::Log::new();
        let uv = crate::collab::RecUv::new(log.clone(), crate::collab::UvOutcome::Check { presence: true, verification: true }, Some(true));
        let cfg = crate::util::AuthCfg { counters: rng.bool(), ..Default::default() };
        let occupied = rng.bool();
        let form = k % 3;
        let start: Option<Passkey> = occupied.then(|| crate::util::seeded_passkey(&mut rng, "example.com", &[0xAB; 16], Some(b"earlier"), Some(3), None).0);
        let steps = rng.range(1, 3);
        macro_rules! drive {
            ($store:expr, $held:expr) => {{
                let mut client = Client::new_with_custom_tld_provider(crate::util::mk_auth($store, uv.clone(), cfg), crate::collab::RecTld::default_list(log.clone()));
                for step in 0..steps {
                    rep.eval();
                    let case = json!({"index": index, "part": "single-slot-store-sequence", "store": (["Option<Passkey>", "Arc<Mutex<Option<Passkey>>>", "Arc<RwLock<Option<Passkey>>>"][form as usize]), "occupied_at_the_start": occupied, "step": step});
                    rep.nontrivial(fnv_str(&format!("slot|{form}|{occupied}|{step}")));
                    let opts = crate::util::creation_options(Some("example.com"), format!("user-{step}").as_bytes(), "n", &rng.bytes(16), vec![crate::util::pk_param(coset::iana::Algorithm::ES256)]);
                    match catch(|| crate::exec::block_on(client.register(&crate::util::url("https://example.com"), opts, DefaultClientData))) {
                        Err((sig, d)) => rep.violate(&format!("single-slot store: register {sig}"), d, case),
                        Ok(Err(_)) => rep.count("single_slot_refused"),
                        Ok(Ok(c)) => {
                            rep.count("single_slot_registered");
                            let held: Option<Vec<u8>> = $held(&client);
                            if held.as_deref() != Some(c.raw_id.as_slice()) {
                                rep.violate("single-slot store: after a successful registration the store does not hold the new credential", format!("returned id {}, the slot holds {:?}", hex_short(&c.raw_id), held.as_ref().map(|h| hex_short(h))), case);
                            }
                        }
                    }
                }
            }};
        }
        match form {
            0 => drive!(start, |c: &Client<Option<Passkey>, crate::collab::RecUv, crate::collab::RecTld>| c.authenticator().store().as_ref().map(|p| p.credential_id.to_vec())),
            1 => drive!(std::sync::Arc::new(tokio::sync::Mutex::new(start)), |c: &Client<std::sync::Arc<tokio::sync::Mutex<Option<Passkey>>>, crate::collab::RecUv, crate::collab::RecTld>| c.authenticator().store().try_lock().ok().and_then(|g| g.as_ref().map(|p| p.credential_id.to_vec()))),
            _ => drive!(std::sync::Arc::new(tokio::sync::RwLock::new(start)), |c: &Client<std::sync::Arc<tokio::sync::RwLock<Option<Passkey>>>, crate::collab::RecUv, crate::collab::RecTld>| c.authenticator().store().try_read().ok().and_then(|g| g.as_ref().map(|p| p.credential_id.to_vec()))),
        }
    }
}

/// The id-length value an application obtains from `CredentialIdLength::randomized` (with whatever
/// random source it has) is a length the authenticator then honours: 16..=64, and the registered id
/// has exactly that length.
fn randomized_id_lengths(rep: &mut Report, args: &Args) {
    use passkey_authenticator::CredentialIdLength;
    use rand::rngs::mock::StepRng;
    if replay_index(args).is_some() {
        return;
    }
    let mut rng = Rng::derive(args.seed, "c02rand", 0);
    let mut sources: Vec<(u64, u64)> = vec![(0, 0), (u64::MAX, 0), (1, 0), (u64::MAX / 2, 0), (0, 1), (0, u64::MAX / 49), (u64::MAX - 3, 1)];
    for _ in 0..args.size(60, 600) {
        sources.push((rng.next_u64(), rng.next_u64()));
    }
    let mut seen = std::collections::BTreeSet::new();
    for (k, (start, step)) in sources.into_iter().enumerate() {
        rep.eval();
        let case = json!({"index": 35_000_000u64 + k as u64, "part": "CredentialIdLength::randomized", "random_source": {"first_value": start, "increment": step}});
        let len = match catch(|| usize::from(CredentialIdLength::randomized(&mut StepRng::new(start, step)))) {
            Ok(l) => l,
            Err((sig, d)) => {
                rep.violate(&format!("CredentialIdLength::randomized {sig}"), d, case);
                continue;
            }
        };
        seen.insert(len);
        rep.nontrivial(fnv_str(&format!("randlen|{len}")));
        if !(16..=64).contains(&len) {
            rep.violate("CredentialIdLength::randomized yields a length outside 16..=64", format!("{len}"), case.clone());
        }
        // and a registration under it has an id of exactly that length
        if k % 8 == 0 {
            let rig = crate::util::Rig::ok(crate::collab::Disc::Full);
            let mut auth = rig.auth(Default::default());
            auth.set_make_credential_id_length(CredentialIdLength::randomized(&mut StepRng::new(start, step)));
            if let Ok(Ok(resp)) = catch(|| crate::exec::block_on(auth.make_credential(crate::util::mc_request("example.com", b"u", &[1u8; 32], vec![crate::util::pk_param(coset::iana::Algorithm::ES256)], None, None, false, true, true)))) {
                let got = authdata::decode(&resp.auth_data.to_vec()).ok().and_then(|d| d.attested.map(|a| a.cred_id.len()));
                rep.count("randomized_length_registrations");
                if got != Some(len) {
                    rep.violate("credential id length is not the configured (randomized) length", format!("got {got:?} want {len}"), case);
                }
            }
        }
    }
    rep.obs("randomized_lengths_seen", json!(seen.into_iter().collect::<Vec<_>>()));
}

pub fn run(args: &Args) -> Report {
    let mut rep = Report::new(
        "C02",
        &args.tier,
        args.seed,
        "seeded histories of 1-20 ceremonies (registration-heavy) into one store over generated configurations (id length 0..255 requested, counters on/off, hmac config, store capability), plus sequences of 2-5 client registrations into the library's in-memory store with repeating user ids and every residentKey preference; distinct by request shape (challenge length, user id length, algorithm list, client-data mode, id-length config, counter config, RP-id relation, port) and position in the history; non-trivial when the registration succeeded and every oracle clause was evaluated, or it is the specified failure (no supported algorithm)",
    );
    rep.assumptions.push("origins are supplied as origins (scheme, host, optional port)".into());
    rep.assumptions.push("freshness of credential ids = uniqueness within the history and not a constant pattern".into());
    let n = args.size(400, 12_000);
    let mut seen: std::collections::HashMap<u64, std::collections::HashSet<Vec<u8>>> = Default::default();
    run_histories(args, &mut rep, "c02", n, 70, |rep, h, st| {
        let ids = seen.entry(h).or_default();
        let mut c = RegCheck { rep, history: h, seen_ids: std::mem::take(ids) };
        monitor(&mut c, st);
        *ids = c.seen_ids;
        if seen.len() > 4 {
            seen.retain(|k, _| *k + 2 >= h);
        }
    });
    if replay_index(args).map_or(true, |o| (30_000_000..40_000_000).contains(&o)) {
        memory_store_sequences(&mut rep, args);
        single_slot_sequences(&mut rep, args);
    }
    randomized_id_lengths(&mut rep, args);
    if replay_index(args).is_none() && (rep.get("register_ok") == 0 || rep.get("make_ok") == 0 || rep.get("unsupported_list_failed") == 0) {
        rep.inconclusive("no successful client registration / CTAP registration / unsupported-list failure observed".into());
    }
    rep
}
