//! C04 — no credential is created or used without user consent; flags are truthful.
//! The finite product is enumerated completely on every run.

use std::collections::HashMap;

use passkey_client::DefaultClientData;
use passkey_types::webauthn::UserVerificationRequirement;
use serde_json::{json, Value};

use crate::{
    collab::{Disc, Ev, Stamped, UvOutcome},
    exec::block_on,
    oracle::authdata,
    props::c02::replay_index,
    report::{hex_short, Report},
    rng::{fnv_str, Rng},
    util::{creation_options, descriptor, ga_request, mc_request, pk_param, request_options, seeded_passkey, status_byte_ref, url, AuthCfg, Rig},
    worker::catch,
    Args,
};

const RP: &str = "example.com";

#[derive(Clone, Copy, Debug, PartialEq, Eq, Hash)]
enum StoreContent {
    NoMatch,
    OneMatch,
    TwoMatches,
}

#[derive(Clone, Copy, Debug, PartialEq, Eq, Hash)]
struct Case {
    make: bool,
    rk: bool,
    up: bool,
    uv: bool,
    ver_cap: Option<bool>,
    pres_cap: bool,
    outcome: UvOutcome,
    pin_auth: bool,
    store: StoreContent,
    /// make only: the exclude list names an existing credential
    exclude_hit: bool,
    /// get only: 0 = no allow list, 1 = allow list naming the first seeded credential id, 2 = naming an unknown id
    allow: u8,
}

impl Case {
    fn json(&self, index: u64) -> Value {
        json!({"index": index, "level": "ctap", "op": if self.make {"make_credential"} else {"get_assertion"}, "rk": self.rk, "up": self.up, "uv": self.uv,
            "verification_capability": self.ver_cap, "presence_capability": self.pres_cap, "uv_outcome": format!("{:?}", self.outcome),
            "pin_auth": self.pin_auth, "store": format!("{:?}", self.store), "exclude_hit": self.exclude_hit, "allow_list": self.allow})
    }
    /// parameters other than "is there a matching credential"
    fn group_key(&self) -> String {
        format!("{}|{}|{}|{}|{:?}|{}|{:?}|{}|{}", self.make, self.rk, self.up, self.uv, self.ver_cap, self.pres_cap, self.outcome, self.pin_auth, self.allow)
    }
    /// one of the consent-missing classes of the statement
    fn consent_missing(&self) -> Option<&'static str> {
        if self.uv && self.ver_cap != Some(true) {
            return Some("verification requested but absent/unconfigured");
        }
        if self.make && !self.up {
            return Some("registration waives presence");
        }
        match self.outcome {
            UvOutcome::Err(_) => Some("validation step failed / user denied"),
            UvOutcome::Check { presence, verification } => {
                if self.up && !presence {
                    Some("presence required but not reported")
                } else if self.uv && !verification {
                    Some("verification required but not reported")
                } else {
                    None
                }
            }
        }
    }
}

fn all_cases() -> Vec<Case> {
    let outcomes = [
        UvOutcome::Check { presence: false, verification: false },
        UvOutcome::Check { presence: true, verification: false },
        UvOutcome::Check { presence: false, verification: true },
        UvOutcome::Check { presence: true, verification: true },
        UvOutcome::Err(0x27),
        UvOutcome::Err(0x2F),
    ];
    let mut v = Vec::new();
    for make in [true, false] {
        for rk in [false, true] {
            for up in [false, true] {
                for uv in [false, true] {
                    for ver_cap in [None, Some(false), Some(true)] {
                        for pres_cap in [false, true] {
                            for outcome in outcomes {
                                for pin_auth in [false, true] {
                                    for store in [StoreContent::NoMatch, StoreContent::OneMatch, StoreContent::TwoMatches] {
                                        for exclude_hit in [false, true] {
                                            if exclude_hit && (!make || store == StoreContent::NoMatch) {
                                                continue;
                                            }
                                            for allow in [0u8, 1, 2] {
                                                if allow > 0 && make {
                                                    continue;
                                                }
                                                v.push(Case { make, rk, up, uv, ver_cap, pres_cap, outcome, pin_auth, store, exclude_hit, allow });
                                            }
                                        }
                                    }
                                }
                            }
                        }
                    }
                }
            }
        }
    }
    v
}

/// The last user-validation report before event index `upto` (exclusive).
fn last_check(events: &[Stamped], upto: usize) -> Option<(Option<Vec<u8>>, bool, bool, Result<(bool, bool), u8>)> {
    events[..upto].iter().rev().find_map(|e| match &e.ev {
        Ev::CheckUser { shown, up, uv, result } => Some((shown.clone(), *up, *uv, *result)),
        _ => None,
    })
}

struct Observed {
    ok: bool,
    status: Option<u8>,
    flags: Option<u8>,
    used_id: Option<Vec<u8>>,
    events: Vec<Stamped>,
    store_changed: bool,
}

fn judge(rep: &mut Report, level: &str, case_json: &Value, up_req: bool, uv_req: bool, missing: Option<&'static str>, o: &Observed) {
    // (I1) every accepted store mutation and every success is preceded by a sufficient report
    for (i, e) in o.events.iter().enumerate() {
        let mutating = matches!(&e.ev, Ev::Save { result: Ok(()), .. } | Ev::Update { result: Ok(()), .. });
        if mutating {
            let sufficient = match last_check(&o.events, i) {
                Some((_, _, _, Ok((p, v)))) => (!up_req || p) && (!uv_req || v),
                Some((_, _, _, Err(_))) => false,
                None => !up_req && !uv_req,
            };
            if !sufficient {
                rep.violate(&format!("{level}: store mutated ({}) without a preceding sufficient user-validation report", e.ev.kind()), format!("events: {}", events_text(&o.events)), case_json.clone());
            }
        }
    }
    if o.ok {
        let chk = last_check(&o.events, o.events.len());
        let sufficient = match &chk {
            Some((_, _, _, Ok((p, v)))) => (!up_req || *p) && (!uv_req || *v),
            Some((_, _, _, Err(_))) => false,
            None => !up_req && !uv_req,
        };
        if !sufficient {
            rep.violate(&format!("{level}: ceremony succeeded without the required presence/verification having been reported"), format!("events: {}", events_text(&o.events)), case_json.clone());
        }
        // (I2) truthful flags
        if let (Some(flags), Some((_, _, _, Ok((p, v))))) = (o.flags, &chk) {
            let up_bit = flags & authdata::UP != 0;
            let uv_bit = flags & authdata::UV != 0;
            if up_bit != *p || uv_bit != *v {
                rep.violate(&format!("{level}: UP/UV flags differ from what the user-validation step reported"), format!("flags {flags:#04x}, reported presence={p} verification={v}"), case_json.clone());
            }
        } else if let (Some(flags), None) = (o.flags, &chk) {
            if flags & (authdata::UP | authdata::UV) != 0 {
                rep.violate(&format!("{level}: UP/UV flags set although the user-validation step never ran"), format!("flags {flags:#04x}"), case_json.clone());
            }
        }
        // (I5) the credential shown is the credential that signs
        if let (Some(used), Some((shown, ..))) = (&o.used_id, &chk) {
            if shown.as_ref() != Some(used) {
                rep.violate(&format!("{level}: credential shown to the user for consent is not the one that signed"), format!("shown {:?} used {}", shown.as_ref().map(|s| hex_short(s)), hex_short(used)), case_json.clone());
            }
        }
    }
    // (I3) consent-missing classes: error and store untouched
    if let Some(why) = missing {
        if o.ok {
            rep.violate(&format!("{level}: ceremony succeeded although consent is missing ({why})"), String::new(), case_json.clone());
        }
        if o.store_changed {
            rep.violate(&format!("{level}: store changed although consent is missing ({why})"), format!("events: {}", events_text(&o.events)), case_json.clone());
        }
    }
}

fn events_text(ev: &[Stamped]) -> String {
    ev.iter().map(|e| e.ev.to_json().to_string()).collect::<Vec<_>>().join(" ; ")
}

fn prepare(rig: &Rig, store: StoreContent, rng: &mut Rng) -> Vec<Vec<u8>> {
    let mut ids = Vec::new();
    let n = match store {
        StoreContent::NoMatch => 0,
        StoreContent::OneMatch => 1,
        StoreContent::TwoMatches => 2,
    };
    // a credential of another RP is always present: it must never matter
    let (other, _, _) = seeded_passkey(rng, "other.example", &[0xBB; 16], Some(b"u"), Some(5), None);
    rig.store.insert_raw(other);
    for k in 0..n {
        let id = vec![0xA0 + k as u8; 16];
        let (pk, _, _) = seeded_passkey(rng, RP, &id, Some(b"user"), Some(10), None);
        rig.store.insert_raw(pk);
        ids.push(id);
    }
    ids
}

fn run_ctap(rep: &mut Report, c: &Case, index: u64, outcomes: &mut HashMap<String, Vec<(StoreContent, bool, Option<u8>)>>) {
    rep.eval();
    rep.nontrivial(fnv_str(&format!("{c:?}")));
    let mut cj = c.json(index);
    // (chosen by a hash of the tuple, so that the entry point is independent of every other dimension)
    let via_trait = fnv_str(&format!("{c:?}")) % 3 == 0;
    cj["entry_point"] = json!(if via_trait { "Ctap2Api trait" } else { "inherent method" });
    let mut rng = Rng::derive(7, "c04", index);
    let mut rig = Rig::new(Disc::Full, c.outcome, c.ver_cap);
    rig.uv.presence_enabled = c.pres_cap;
    let ids = prepare(&rig, c.store, &mut rng);
    let before = rig.store.snapshot();
    let mut auth = rig.auth(AuthCfg { counters: true, ..Default::default() });
    let res = catch(|| {
        if c.make {
            let exclude = if c.exclude_hit { Some(vec![descriptor(&ids[0])]) } else if c.store != StoreContent::NoMatch { Some(vec![descriptor(&[0xEE; 16])]) } else { None };
            let mut req = mc_request(RP, b"new-user", &[1u8; 32], vec![pk_param(coset::iana::Algorithm::ES256)], exclude, None, c.rk, c.up, c.uv);
            if c.pin_auth {
                req.pin_auth = Some(vec![1, 2, 3, 4].into());
                req.pin_protocol = Some(1);
            }
            // every third case enters through the `Ctap2Api` trait (what a transport front end calls)
            let r = if via_trait { block_on(passkey_authenticator::Ctap2Api::make_credential(&mut auth, req)) } else { block_on(auth.make_credential(req)) };
            match r {
                Ok(r) => (true, None, Some(u8::from(r.auth_data.flags)), r.auth_data.to_vec(), None),
                Err(e) => (false, Some(status_byte_ref(&e)), None, vec![], None),
            }
        } else {
            let allow = match c.allow {
                1 => Some(vec![descriptor(&[0xA0; 16])]),
                2 => Some(vec![descriptor(&[0xEF; 16])]),
                _ => None,
            };
            let mut req = ga_request(RP, &[2u8; 32], allow, None, c.up, c.uv);
            req.options.rk = c.rk;
            if c.pin_auth {
                req.pin_auth = Some(vec![1, 2, 3, 4].into());
                req.pin_protocol = Some(1);
            }
            let r = if via_trait { block_on(passkey_authenticator::Ctap2Api::get_assertion(&mut auth, req)) } else { block_on(auth.get_assertion(req)) };
            match r {
                Ok(r) => {
                    let id = r.credential.as_ref().map(|d| d.id.to_vec());
                    (true, None, Some(u8::from(r.auth_data.flags)), r.auth_data.to_vec(), id)
                }
                Err(e) => (false, Some(status_byte_ref(&e)), None, vec![], None),
            }
        }
    });
    let (ok, status, _lib_flags, ad_bytes, used_id) = match res {
        Ok(v) => v,
        Err((sig, d)) => {
            rep.violate(&format!("ctap: ceremony {sig}"), d, cj);
            return;
        }
    };
    // flags read by the own decoder from the encoded authenticator data
    let flags = if ok { authdata::decode(&ad_bytes).ok().map(|a| a.flags) } else { None };
    let after = rig.store.snapshot();
    let o = Observed { ok, status, flags, used_id, events: rig.log.snapshot(), store_changed: after != before };
    rep.count(if ok { "ctap_ok" } else { "ctap_err" });
    if let Some(s) = status {
        rep.count(&format!("ctap_status:{s:#04x}"));
    }
    judge(rep, "ctap", &cj, c.up, c.uv, c.consent_missing(), &o);
    if c.consent_missing().is_some() {
        rep.count("consent_missing_cases");
        outcomes.entry(c.group_key()).or_default().push((c.store, ok, status));
    }
    rep.sample_class(&format!("{}|missing={:?}|ok={}", if c.make { "make" } else { "get" }, c.consent_missing().is_some(), ok), json!({"case": cj, "status": status, "events": o.events.iter().map(|e| e.ev.to_json()).collect::<Vec<_>>()}));
}

/// The store changes while the user is being asked (another credential for the same RP arrives):
/// whatever signs afterwards is what was shown.
fn arrivals_during_consent(rep: &mut Report, only: Option<u64>) {
    let mut index = 50_000u64;
    for counters in [false, true] {
        for newest_first in [false, true] {
            for allow in [0u8, 1, 2] {
                for arrival_counter in [None, Some(0u32), Some(99)] {
                    index += 1;
                    if only.map_or(false, |o| o != index) {
                        continue;
                    }
                    rep.eval();
                    let cj = json!({"index": index, "level": "ctap", "part": "credential arrives during consent", "held_credential_has_counter": counters, "store_lists_newest_first": newest_first,
                        "allow_list": (["absent", "names both", "names the arriving one first"][usize::from(allow)]), "arriving_credential_counter": arrival_counter});
                    rep.nontrivial(fnv_str(&cj.to_string()));
                    let mut rng = Rng::derive(7, "c04arr", index);
                    let rig = Rig::ok(Disc::Full);
                    rig.store.set_newest_first(newest_first);
                    let id_a = vec![0xA0u8; 16];
                    let id_b = vec![0xB0u8; 16];
                    let (a, _, _) = seeded_passkey(&mut rng, RP, &id_a, Some(b"user"), counters.then_some(10), None);
                    let (b, _, _) = seeded_passkey(&mut rng, RP, &id_b, Some(b"user2"), arrival_counter, None);
                    rig.store.insert_raw(a);
                    rig.uv.set_arrival_during_check(rig.store.clone(), b);
                    let mut auth = rig.auth(AuthCfg { counters: true, ..Default::default() });
                    let allow_list = match allow {
                        1 => Some(vec![descriptor(&id_a), descriptor(&id_b)]),
                        2 => Some(vec![descriptor(&id_b), descriptor(&id_a)]),
                        _ => None,
                    };
                    match catch(|| block_on(auth.get_assertion(ga_request(RP, &[2u8; 32], allow_list, None, true, true)))) {
                        Err((sig, d)) => rep.violate(&format!("ctap: ceremony {sig}"), d, cj),
                        Ok(Err(_)) => rep.count("arrival_cases_refused"),
                        Ok(Ok(r)) => {
                            rep.count("arrival_cases_signed");
                            let used = r.credential.as_ref().map(|d| d.id.to_vec()).unwrap_or_default();
                            let events = rig.log.snapshot();
                            let shown = last_check(&events, events.len()).and_then(|c| c.0);
                            if shown.as_ref() != Some(&used) {
                                rep.violate("ctap: credential shown to the user for consent is not the one that signed", format!("shown {:?} used {} (a credential arrived in the store during the prompt)", shown.as_ref().map(|s| hex_short(s)), hex_short(&used)), cj.clone());
                            }
                            // the counter written back belongs to the credential that signed
                            for e in &events {
                                if let Ev::Update { id, result: Ok(()), .. } = &e.ev {
                                    if id != &used {
                                        rep.violate("ctap: the counter of a credential other than the one that signed was written", hex_short(id), cj.clone());
                                    }
                                }
                            }
                        }
                    }
                }
            }
        }
    }
}

/// The user-validation method's capability report changes between two ceremonies on one authenticator:
/// each ceremony is judged by the report in force when it runs.
fn capability_changes(rep: &mut Report, only: Option<u64>) {
    let mut index = 60_000u64;
    for first_make in [true, false] {
        for second_make in [true, false] {
            for before in [Some(true), Some(false), None] {
                for after in [Some(true), Some(false), None] {
                    index += 1;
                    if only.map_or(false, |o| o != index) {
                        continue;
                    }
                    rep.eval();
                    let cj = json!({"index": index, "level": "ctap", "part": "verification capability changes between two ceremonies", "first": if first_make {"make_credential"} else {"get_assertion"},
                        "then": if second_make {"make_credential"} else {"get_assertion"}, "capability_first": before, "capability_then": after});
                    rep.nontrivial(fnv_str(&cj.to_string()));
                    let mut rng = Rng::derive(7, "c04cap", index);
                    let rig = Rig::new(Disc::Full, UvOutcome::Check { presence: true, verification: true }, before);
                    let (a, _, _) = seeded_passkey(&mut rng, RP, &[0xA0; 16], Some(b"user"), Some(3), None);
                    rig.store.insert_raw(a);
                    let mut auth = rig.auth(AuthCfg { counters: true, ..Default::default() });
                    let mut run = |make: bool, tag: u8| -> Result<bool, (String, String)> {
                        catch(|| {
                            if make {
                                block_on(auth.make_credential(mc_request(RP, &[tag], &[1u8; 32], vec![pk_param(coset::iana::Algorithm::ES256)], None, None, false, true, true))).is_ok()
                            } else {
                                block_on(auth.get_assertion(ga_request(RP, &[2u8; 32], Some(vec![descriptor(&[0xA0; 16])]), None, true, true))).is_ok()
                            }
                        })
                    };
                    let first = run(first_make, 1);
                    rig.uv.set_verification_capability(after);
                    let snap = rig.store.snapshot();
                    rig.log.clear();
                    let second = run(second_make, 2);
                    let changed = rig.store.snapshot() != snap;
                    match (first, second) {
                        (Err((sig, d)), _) | (_, Err((sig, d))) => rep.violate(&format!("ctap: ceremony {sig}"), d, cj),
                        (Ok(f), Ok(s)) => {
                            rep.count("capability_change_cases");
                            if f != (before == Some(true)) {
                                rep.violate("ctap: a ceremony asking for verification did not succeed exactly when verification is configured", format!("first ceremony ok={f} under {before:?}"), cj.clone());
                            }
                            if after != Some(true) {
                                if s {
                                    rep.violate("ctap: ceremony succeeded although consent is missing (verification requested but absent/unconfigured)", format!("capability was {before:?} for the previous ceremony on this authenticator and is {after:?} now"), cj.clone());
                                }
                                if changed {
                                    rep.violate("ctap: store changed although consent is missing (verification requested but absent/unconfigured)", String::new(), cj.clone());
                                }
                            } else if !s {
                                rep.violate("ctap: a ceremony asking for verification did not succeed exactly when verification is configured", format!("second ceremony refused under {after:?} (was {before:?})"), cj.clone());
                            }
                        }
                    }
                }
            }
        }
    }
}

/// Requests as they arrive over the wire: CBOR whose options map leaves members out. An option that is
/// not named has its specified default (up = true): presence is required although nobody spelled it out.
fn decoded_requests(rep: &mut Report, only: Option<u64>) {
    fn strip(bytes: &[u8], key: i128, keep: &[&str]) -> Vec<u8> {
        let mut v: ciborium::Value = ciborium::de::from_reader(bytes).expect("parse request");
        if let ciborium::Value::Map(m) = &mut v {
            for (k, val) in m.iter_mut() {
                if k.as_integer().map(i128::from) == Some(key) {
                    if let ciborium::Value::Map(o) = val {
                        o.retain(|(n, _)| n.as_text().map_or(false, |t| keep.contains(&t)));
                    }
                }
            }
        }
        let mut out = Vec::new();
        ciborium::ser::into_writer(&v, &mut out).expect("serialise");
        out
    }
    let mut index = 70_000u64;
    for make in [true, false] {
        for keep in [&[][..], &["uv"][..], &["rk"][..], &["rk", "uv"][..]] {
            for (present, verified) in [(false, false), (false, true), (true, false), (true, true)] {
                index += 1;
                if only.map_or(false, |o| o != index) {
                    continue;
                }
                rep.eval();
                let cj = json!({"index": index, "level": "ctap", "part": "request decoded from CBOR, options map names only some members", "op": if make {"make_credential"} else {"get_assertion"},
                    "options_members_on_the_wire": keep, "reported_presence": present, "reported_verification": verified});
                rep.nontrivial(fnv_str(&cj.to_string()));
                let mut rng = Rng::derive(7, "c04dec", index);
                let rig = Rig::new(Disc::Full, UvOutcome::Check { presence: present, verification: verified }, Some(true));
                let (a, _, _) = seeded_passkey(&mut rng, RP, &[0xA0; 16], Some(b"user"), Some(3), None);
                rig.store.insert_raw(a);
                let before = rig.store.snapshot();
                let mut auth = rig.auth(AuthCfg { counters: true, ..Default::default() });
                let mut bytes = Vec::new();
                let res: Result<Result<Vec<u8>, u8>, (String, String)> = if make {
                    ciborium::ser::into_writer(&mc_request(RP, b"new-user", &[1u8; 32], vec![pk_param(coset::iana::Algorithm::ES256)], None, None, false, true, false), &mut bytes).expect("serialise");
                    let wire = strip(&bytes, 7, keep);
                    catch(|| {
                        let req: passkey_types::ctap2::make_credential::Request = ciborium::de::from_reader(wire.as_slice()).expect("request with a partial options map decodes");
                        block_on(auth.make_credential(req)).map(|r| r.auth_data.to_vec()).map_err(|e| status_byte_ref(&e))
                    })
                } else {
                    ciborium::ser::into_writer(&ga_request(RP, &[2u8; 32], Some(vec![descriptor(&[0xA0; 16])]), None, true, false), &mut bytes).expect("serialise");
                    let wire = strip(&bytes, 5, keep);
                    catch(|| {
                        let req: passkey_types::ctap2::get_assertion::Request = ciborium::de::from_reader(wire.as_slice()).expect("request with a partial options map decodes");
                        block_on(auth.get_assertion(req)).map(|r| r.auth_data.to_vec()).map_err(|e| status_byte_ref(&e))
                    })
                };
                let changed = rig.store.snapshot() != before;
                match res {
                    Err((sig, d)) => rep.violate(&format!("ctap: ceremony {sig}"), d, cj),
                    Ok(Ok(ad)) => {
                        rep.count("decoded_requests_succeeded");
                        // rk=true on make is not in the wire map unless kept, uv unnamed = false: the only consent needed is presence
                        if !present {
                            rep.violate("ctap: ceremony succeeded although consent is missing (presence required by default but not reported)", String::new(), cj.clone());
                        }
                        if let Ok(d) = authdata::decode(&ad) {
                            if (d.flags & authdata::UP != 0) != present || (d.flags & authdata::UV != 0) != verified {
                                rep.violate("ctap: UP/UV flags differ from what the user-validation step reported", format!("flags {:#04x}, reported presence={present} verification={verified}", d.flags), cj.clone());
                            }
                        }
                    }
                    Ok(Err(_)) => {
                        rep.count("decoded_requests_refused");
                        if changed {
                            rep.violate("ctap: store changed although the ceremony was refused", String::new(), cj.clone());
                        }
                    }
                }
            }
        }
    }
}

/// A conforming store whose items are vault records with a fallible conversion into `Passkey`: some of
/// the records the lookup returns cannot be converted. Whatever signs is what was shown; when the shown
/// record cannot sign, nothing signs.
fn vault_signers(rep: &mut Report, only: Option<u64>) {
    use crate::collab::{VaultStore, VaultUv};
    let mut index = 80_000u64;
    for n in [2usize, 3] {
        for locked_mask in 0u8..(1 << n) {
            for newest_first in [false, true] {
                for allow in [false, true] {
                    index += 1;
                    if only.map_or(false, |o| o != index) {
                        continue;
                    }
                    rep.eval();
                    let cj = json!({"index": index, "level": "ctap", "part": "vault records, some of which cannot be converted", "matching_records": n,
                        "unconvertible_records_mask": locked_mask, "store_lists_newest_first": newest_first, "allow_list": allow});
                    rep.nontrivial(fnv_str(&cj.to_string()));
                    let mut rng = Rng::derive(7, "c04vault", index);
                    let rig = Rig::ok(Disc::Full);
                    rig.store.set_newest_first(newest_first);
                    let mut keys: HashMap<Vec<u8>, (Vec<u8>, Vec<u8>)> = HashMap::new();
                    let locked: std::sync::Arc<std::sync::Mutex<std::collections::HashSet<Vec<u8>>>> = Default::default();
                    let mut descs = vec![];
                    for j in 0..n {
                        let id = vec![0xC0u8 + j as u8; 16];
                        let (p, x, y) = seeded_passkey(&mut rng, RP, &id, Some(format!("user{j}").as_bytes()), Some(5), None);
                        rig.store.insert_raw(p);
                        keys.insert(id.clone(), (x, y));
                        if locked_mask & (1 << j) != 0 {
                            locked.lock().unwrap().insert(id.clone());
                        }
                        descs.push(descriptor(&id));
                    }
                    let store = VaultStore { inner: rig.store.clone(), locked: locked.clone(), rp_as_converted: None };
                    let mut auth = passkey_authenticator::Authenticator::new(passkey_types::ctap2::Aaguid::new_empty(), store, VaultUv(rig.uv.clone()));
                    let cdh = [2u8; 32];
                    match catch(|| block_on(auth.get_assertion(ga_request(RP, &cdh, allow.then_some(descs), None, true, true)))) {
                        Err((sig, d)) => rep.violate(&format!("ctap: ceremony {sig}"), d, cj),
                        Ok(Err(_)) => rep.count("vault_cases_refused"),
                        Ok(Ok(r)) => {
                            rep.count("vault_cases_signed");
                            let events = rig.log.snapshot();
                            let shown = last_check(&events, events.len()).and_then(|c| c.0);
                            let Some(shown) = shown else {
                                rep.violate("ctap: an assertion was signed although no record was shown to the user", String::new(), cj.clone());
                                continue;
                            };
                            if let Some(used) = r.credential.as_ref().map(|d| d.id.to_vec()) {
                                if used != shown {
                                    rep.violate("ctap: credential shown to the user for consent is not the one that signed", format!("shown {} used {} (the shown vault record cannot be converted)", hex_short(&shown), hex_short(&used)), cj.clone());
                                }
                            }
                            let mut msg = r.auth_data.to_vec();
                            msg.extend_from_slice(&cdh);
                            match keys.get(&shown) {
                                Some((x, y)) => {
                                    if crate::oracle::verify_es256_any(x, y, &msg, &r.signature).is_err() {
                                        rep.violate("ctap: the signature does not verify under the key of the record shown to the user", format!("shown {}", hex_short(&shown)), cj.clone());
                                    }
                                }
                                None => rep.violate("ctap: a record the store does not hold was shown", hex_short(&shown), cj.clone()),
                            }
                            if locked.lock().unwrap().contains(&shown) {
                                rep.violate("ctap: an assertion was signed although the record shown to the user cannot sign", hex_short(&shown), cj.clone());
                            }
                        }
                    }
                }
            }
        }
    }
}

fn run_client(rep: &mut Report, index: u64, register: bool, uvr: UserVerificationRequirement, ver_cap: Option<bool>, pres_cap: bool, outcome: UvOutcome, store: StoreContent, outcomes: &mut HashMap<String, Vec<(StoreContent, bool, Option<u8>)>>) {
    rep.eval();
    let cj = json!({"index": index, "level": "client", "op": if register {"register"} else {"authenticate"}, "userVerification": format!("{uvr:?}"),
        "verification_capability": ver_cap, "presence_capability": pres_cap, "uv_outcome": format!("{outcome:?}"), "store": format!("{store:?}")});
    rep.nontrivial(fnv_str(&cj.to_string()));
    let mut rng = Rng::derive(7, "c04c", index);
    let mut rig = Rig::new(Disc::Full, outcome, ver_cap);
    rig.uv.presence_enabled = pres_cap;
    let ids = prepare(&rig, store, &mut rng);
    let before = rig.store.snapshot();
    let mut client = rig.client(AuthCfg { counters: true, ..Default::default() });
    let uv_req = uvr != UserVerificationRequirement::Discouraged;
    let origin = url("https://example.com");
    let res = catch(|| {
        if register {
            let mut opts = creation_options(Some(RP), b"new-user", "n", &[3u8; 16], vec![pk_param(coset::iana::Algorithm::ES256)]);
            opts.public_key.authenticator_selection = Some(passkey_types::webauthn::AuthenticatorSelectionCriteria { user_verification: uvr, ..Default::default() });
            if store != StoreContent::NoMatch {
                opts.public_key.exclude_credentials = Some(vec![descriptor(&ids[0])]);
            }
            match block_on(client.register(&origin, opts, DefaultClientData)) {
                Ok(c) => (true, None, c.response.authenticator_data.to_vec(), None),
                Err(e) => (false, Some(format!("{e:?}")), vec![], None),
            }
        } else {
            let opts = request_options(Some(RP), &[4u8; 16], None, uvr);
            match block_on(client.authenticate(&origin, opts, DefaultClientData)) {
                Ok(c) => (true, None, c.response.authenticator_data.to_vec(), Some(c.raw_id.to_vec())),
                Err(e) => (false, Some(format!("{e:?}")), vec![], None),
            }
        }
    });
    let (ok, err, ad, used) = match res {
        Ok(v) => v,
        Err((sig, d)) => {
            rep.violate(&format!("client: ceremony {sig}"), d, cj);
            return;
        }
    };
    let flags = if ok { authdata::decode(&ad).ok().map(|a| a.flags) } else { None };
    let after = rig.store.snapshot();
    let o = Observed { ok, status: None, flags, used_id: used, events: rig.log.snapshot(), store_changed: after != before };
    let c = Case { make: register, rk: false, up: true, uv: uv_req, ver_cap, pres_cap, outcome, pin_auth: false, store, exclude_hit: false, allow: 0 };
    rep.count(if ok { "client_ok" } else { "client_err" });
    judge(rep, "client", &cj, true, uv_req, c.consent_missing(), &o);
    if c.consent_missing().is_some() {
        // same outcome with / without a matching credential: compare the error text
        let code = err.as_ref().map(|e| (fnv_str(e) % 251) as u8);
        outcomes.entry(format!("client|{register}|{uvr:?}|{ver_cap:?}|{pres_cap}|{outcome:?}")).or_default().push((store, ok, code));
    }
}

pub fn run(args: &Args) -> Report {
    let mut rep = Report::new(
        "C04",
        &args.tier,
        args.seed,
        "complete product operation x rk x up x uv x verification capability x presence capability x user-validation outcome (4 reports + 2 errors) x pin-auth x store content (no / one / two matching credentials, exclude-list hit or miss; for assertions: no allow list / naming a held id / naming an unknown id) at CTAP level, plus 36 assertion cases in which another credential of the RP arrives in the store while the user is being asked, plus 36 pairs of ceremonies on one authenticator between which the verification capability report changes, plus 32 requests decoded from CBOR whose options map names only some members, plus 48 assertions over a store of vault records some of which cannot be converted into a Passkey, plus userVerification x verification capability x presence capability x outcome x store content at client level; distinct by the tuple; every tuple is non-trivial (finite product)",
    );
    rep.exhaustive = true;
    let only = replay_index(args);
    let mut outcomes: HashMap<String, Vec<(StoreContent, bool, Option<u8>)>> = HashMap::new();
    let cases = all_cases();
    rep.obs("ctap_product_size", json!(cases.len()));
    for (i, c) in cases.iter().enumerate() {
        if only.map_or(true, |o| o == i as u64) {
            run_ctap(&mut rep, c, i as u64, &mut outcomes);
        }
    }
    let mut k = 100_000u64;
    let outs = [
        UvOutcome::Check { presence: false, verification: false },
        UvOutcome::Check { presence: true, verification: false },
        UvOutcome::Check { presence: false, verification: true },
        UvOutcome::Check { presence: true, verification: true },
        UvOutcome::Err(0x27),
        UvOutcome::Err(0x2F),
    ];
    for pres_cap in [true, false] {
        for register in [true, false] {
            for uvr in [UserVerificationRequirement::Required, UserVerificationRequirement::Preferred, UserVerificationRequirement::Discouraged] {
                for ver_cap in [None, Some(false), Some(true)] {
                    for outcome in outs {
                        for store in [StoreContent::NoMatch, StoreContent::OneMatch, StoreContent::TwoMatches] {
                            if only.map_or(true, |o| o == k) {
                                run_client(&mut rep, k, register, uvr, ver_cap, pres_cap, outcome, store, &mut outcomes);
                            }
                            k += 1;
                        }
                    }
                }
            }
        }
    }
    rep.obs("client_product_size", json!(k - 100_000));
    if only.map_or(true, |o| (50_000..60_000).contains(&o)) {
        arrivals_during_consent(&mut rep, only);
    }
    if only.map_or(true, |o| (60_000..70_000).contains(&o)) {
        capability_changes(&mut rep, only);
    }
    if only.map_or(true, |o| (70_000..80_000).contains(&o)) {
        decoded_requests(&mut rep, only);
    }
    if only.map_or(true, |o| (80_000..90_000).contains(&o)) {
        vault_signers(&mut rep, only);
    }
    // (I4) while consent is missing the outcome does not depend on the store content
    for (group, v) in &outcomes {
        let first = (v[0].1, v[0].2);
        if v.iter().any(|x| (x.1, x.2) != first) {
            rep.violate(
                "outcome depends on whether a matching credential exists while consent is missing",
                format!("group {group}: {:?}", v),
                json!({"group": group, "outcomes": v.iter().map(|x| json!({"store": format!("{:?}", x.0), "ok": x.1, "status": x.2})).collect::<Vec<_>>()}),
            );
        }
        rep.count("consent_missing_groups_compared");
    }
    if only.is_none() && (rep.get("ctap_ok") == 0 || rep.get("client_ok") == 0 || rep.get("consent_missing_cases") == 0) {
        rep.inconclusive("no successful ceremony or no consent-missing case observed".into());
    }
    rep
}
