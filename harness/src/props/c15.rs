//! C15 — decoders of untrusted input never crash or allocate out of proportion.
//! Every case runs in a crash-isolating worker that measures panics, process deaths, the largest
//! single allocation request, peak live bytes and thread CPU time (worker.rs).

use std::sync::OnceLock;

use ciborium::value::Value as Cbor;
use passkey_client::{RpIdVerifier, UnverifiedAssetLink};
use passkey_transports::hid::{ChannelHandler, Command, Message};
use passkey_types::{
    ctap2::{self, extensions::AuthenticatorPrfInputs, extensions::HmacGetSecretInput, Aaguid, AuthenticatorData},
    u2f, webauthn, Bytes,
};
use public_suffix::{EffectiveTLDProvider, DEFAULT_PROVIDER};
use serde_json::{json, Value};

use crate::{
    oracle,
    props::{c02::replay_index, c13, c14, c16::Capture},
    report::{hex_short, Report},
    rng::{fnv, Rng},
    worker::{run_isolated, CaseDesc, CaseOut, IsoCfg},
    Args,
};

pub const DECODERS: [&str; 30] = [
    "cbor:makeCredential request",
    "cbor:makeCredential response",
    "cbor:getAssertion request",
    "cbor:getAssertion response",
    "cbor:getInfo response",
    "cbor:hmac-secret input",
    "cbor:Bytes",
    "cbor:Aaguid",
    "cbor:prf inputs",
    "cbor:AuthenticatorData",
    "AuthenticatorData::from_slice",
    "json:creation options",
    "json:request options",
    "json:created credential",
    "json:authenticated credential",
    "json:client data",
    "json:descriptor",
    "Bytes::try_from(str)",
    "try_from_base64url",
    "u2f::Request::try_from",
    "u2f::RegisterRequest::try_from",
    "u2f::AuthenticationRequest::try_from",
    "hid::ChannelHandler::handle_packet",
    "public_key_der_from_cose_key",
    "valid_fingerprint",
    "UnverifiedAssetLink::new",
    "public-suffix lookups",
    "RpIdVerifier",
    "HmacSecretSaltOrOutput::try_from(&[u8])",
    "single-byte conversions (status codes, flags, command bytes, id lengths)",
];

// ---------------------------------------------------------------------------------------------
// valid seeds
// ---------------------------------------------------------------------------------------------

fn emitted_samples() -> &'static (Vec<Vec<u8>>, Vec<Vec<u8>>) {
    static S: OnceLock<(Vec<Vec<u8>>, Vec<Vec<u8>>)> = OnceLock::new();
    S.get_or_init(|| {
        use crate::{collab::Disc, exec::block_on, util::*};
        use passkey_client::DefaultClientData;
        let mut created = Vec::new();
        let mut authed = Vec::new();
        for k in 0..3u8 {
            let rig = Rig::ok(Disc::Full);
            let mut client = rig.client(AuthCfg { counters: k % 2 == 0, hmac: HmacCfg::WithoutUv, hmac_mc: true, id_len: Some(16 + k * 20), ..Default::default() });
            let origin = url("https://example.com");
            let mut o = creation_options(Some("example.com"), &[k; 10], "n", &[k; 32], vec![pk_param(coset::iana::Algorithm::ES256)]);
            o.public_key.extensions = Some(passkey_types::webauthn::AuthenticationExtensionsClientInputs { cred_props: Some(true), ..Default::default() });
            if let Ok(c) = block_on(client.register(&origin, o, DefaultClientData)) {
                created.push(serde_json::to_vec(&c).unwrap());
                if let Ok(a) = block_on(client.authenticate(&origin, request_options(Some("example.com"), &[9; 16], None, Default::default()), DefaultClientData)) {
                    authed.push(serde_json::to_vec(&a).unwrap());
                }
            }
        }
        (created, authed)
    })
}

fn u2f_frame(ins: u8, p1: u8, data: &[u8]) -> Vec<u8> {
    let mut f = vec![0x00, ins, p1, 0x00, 0x00];
    f.extend_from_slice(&(data.len() as u16).to_be_bytes());
    f.extend_from_slice(data);
    f
}

fn hid_packets(rng: &mut Rng) -> Vec<Vec<u8>> {
    let len = *rng.pick(&[0usize, 1, 57, 58, 120, 300]);
    let cmd = *rng.pick(&[Command::Cbor, Command::Msg, Command::Ping, Command::Init]);
    let mut c = Capture::default();
    if let Ok(m) = Message::new(rng.next_u64() as u32 & 3, cmd, &rng.bytes(len)) {
        let _ = m.send(&mut c);
    }
    c.writes
}

/// a valid encoding for decoder `d`
fn seed_for(d: usize, rng: &mut Rng) -> Vec<u8> {
    match d {
        0 => c13::ser(&c13::gen_mc_req(rng).0).unwrap(),
        1 => c13::ser(&c13::gen_mc_resp(rng).0).unwrap(),
        2 => c13::ser(&c13::gen_ga_req(rng).0).unwrap(),
        3 => c13::ser(&c13::gen_ga_resp(rng).0).unwrap(),
        4 => c13::ser(&c13::gen_gi_resp(rng).0).unwrap(),
        5 => c13::ser(&c13::gen_hmac_input(rng).0).unwrap(),
        6 => {
            let b = rng.bytes(rng.clone().range(0, 64));
            if rng.bool() {
                oracle::cbor_ser(&Cbor::Bytes(b))
            } else {
                oracle::cbor_ser(&Cbor::Array(b.into_iter().map(|x| Cbor::Integer(x.into())).collect()))
            }
        }
        7 => oracle::cbor_ser(&Cbor::Bytes(rng.bytes(16))),
        8 => c13::ser(&c13::gen_prf_inputs(rng)).unwrap(),
        9 => c13::ser(&c13::gen_authdata(rng, rng.clone().bool())).unwrap(),
        10 => c13::gen_authdata(rng, rng.clone().bool()).to_vec(),
        11 | 12 => {
            let doc = c14::gen_doc(rng, d == 11);
            let p = c14::Present { bin: *rng.pick(&[c14::Bin::Array, c14::Bin::Url, c14::Bin::StdPad]), num: *rng.pick(&[c14::Num::Number, c14::Num::Str, c14::Num::Float]), unknown_members: rng.bool(), unknown_enums: rng.bool(), aliases: rng.bool() };
            c14::finish_text(c14::render(&doc, &p, rng).to_string()).into_bytes()
        }
        13 => {
            let s = &emitted_samples().0;
            s[rng.below(s.len().max(1)) % s.len().max(1)].clone()
        }
        14 => {
            let s = &emitted_samples().1;
            s[rng.below(s.len().max(1)) % s.len().max(1)].clone()
        }
        15 => json!({"type": "webauthn.get", "challenge": oracle::b64url(&rng.bytes(32)), "origin": "https://example.com", "crossOrigin": rng.bool(), "extra": {"a": [1, 2, {"b": null}]}}).to_string().into_bytes(),
        16 => json!({"type": "public-key", "id": oracle::b64url(&rng.bytes(32)), "transports": ["usb", "internal", "cable"]}).to_string().into_bytes(),
        17 | 18 => match rng.below(3) {
            0 => oracle::b64url(&rng.bytes(rng.clone().range(0, 80))).into_bytes(),
            1 => oracle::b64std_padded(&rng.bytes(rng.clone().range(0, 80))).into_bytes(),
            _ => oracle::b64url_padded(&rng.bytes(rng.clone().range(0, 80))).into_bytes(),
        },
        19 => match rng.below(3) {
            0 => u2f_frame(1, 0, &rng.bytes(64)),
            1 => {
                let hl = rng.range(0, 255);
                let mut data = rng.bytes(64);
                data.push(hl as u8);
                data.extend(rng.bytes(hl));
                u2f_frame(2, *rng.pick(&[3u8, 7, 8]), &data)
            }
            _ => vec![0, 3, 0, 0, 0, 0, 0],
        },
        20 => rng.bytes(64),
        21 => {
            let hl = rng.range(0, 255);
            let mut data = rng.bytes(64);
            data.push(hl as u8);
            data.extend(rng.bytes(hl));
            data
        }
        22 => hid_packets(rng).concat(),
        23 => {
            // COSE keys as a peer could send them: coordinates of any length, members missing,
            // duplicated or of the wrong type, other key types / algorithms
            let lens = [32usize, 32, 32, 0, 1, 31, 33, 64, 65];
            let (lx, ly) = (*rng.pick(&lens), *rng.pick(&lens));
            let int = |i: i64| Cbor::Integer(i.into());
            let mut m = vec![
                (int(1), int(*rng.pick(&[2i64, 2, 2, 1, 3]))),
                (int(3), int(*rng.pick(&[-7i64, -7, -7, -8, -257]))),
                (int(-1), int(*rng.pick(&[1i64, 1, 2, 6]))),
                (int(-2), if rng.chance(1, 10) { int(5) } else { Cbor::Bytes(rng.bytes(lx)) }),
                (int(-3), if rng.chance(1, 10) { Cbor::Bool(true) } else { Cbor::Bytes(rng.bytes(ly)) }),
            ];
            match rng.below(8) {
                0 => {
                    m.remove(4);
                }
                1 => {
                    m.remove(3);
                }
                2 => m.push((int(-2), Cbor::Bytes(rng.bytes(32)))),
                3 => m.push((int(-4), Cbor::Bytes(rng.bytes(32)))),
                4 => m.push((int(-70000), Cbor::Text("x".into()))),
                // a structurally valid key with tens of thousands of further parameters (about 1 MiB)
                5 if rng.chance(1, 40) => {
                    for j in 0..rng.range(60_000, 90_000) {
                        m.push((Cbor::Text(format!("p{j}")), int(j as i64)));
                    }
                }
                _ => {}
            }
            oracle::cbor_ser(&Cbor::Map(m))
        }
        24 | 25 => {
            let fp: Vec<String> = (0..32).map(|_| format!("{:02X}", rng.byte())).collect();
            fp.join(":").into_bytes()
        }
        // (also names spelled with capitals next to characters whose lower-case form has another UTF-8 length)
        26 => rng.pick(&["www.example.co.uk", "a.b.c.kobe.jp", "xn--55qx5d.cn", "example.com", "foo.ck", "Www.Example.CO.UK", "A\u{23a}", "Example.\u{1e9e}", "Www.Example.\u{212a}", "Shop.\u{2126}", "\u{130}stanbul.Example.TR", "M\u{fc}nchen.DE", "example\u{3002}com", "www\u{ff0e}example.co.uk", "a\u{ff61}kobe.jp"]).as_bytes().to_vec(),
        28 => {
            // AES-CBC output as a platform sends it: any multiple of 16, mostly the two specified sizes
            let l = *rng.pick(&[32usize, 64, 32, 64, 0, 16, 48, 80, 96, 128, 160, 256, 1024, 4096]);
            rng.bytes(l)
        }
        29 => vec![rng.byte()],
        _ => rng.pick(&["example.com", "login.example.co.uk", "localhost", "xn--bcher-kva.de", "Login.Example.\u{212a}", "A\u{23a}.example.com", "Shop.\u{2126}"]).as_bytes().to_vec(),
    }
}

// ---------------------------------------------------------------------------------------------
// CBOR header walker (own, minimal) for structure-aware length rewrites
// ---------------------------------------------------------------------------------------------

#[derive(Clone, Debug)]
struct Hdr {
    pos: usize,
    hdr_len: usize,
    major: u8,
    path: String,
}

fn walk_cbor(b: &[u8], pos: &mut usize, path: &str, out: &mut Vec<Hdr>, depth: usize) -> Option<()> {
    if depth > 40 || out.len() > 400 {
        return None;
    }
    let first = *b.get(*pos)?;
    let major = first >> 5;
    let ai = first & 0x1f;
    let (val, hl): (u64, usize) = match ai {
        0..=23 => (u64::from(ai), 1),
        24 => (u64::from(*b.get(*pos + 1)?), 2),
        25 => (u64::from(u16::from_be_bytes(b.get(*pos + 1..*pos + 3)?.try_into().ok()?)), 3),
        26 => (u64::from(u32::from_be_bytes(b.get(*pos + 1..*pos + 5)?.try_into().ok()?)), 5),
        27 => (u64::from_be_bytes(b.get(*pos + 1..*pos + 9)?.try_into().ok()?), 9),
        _ => return None,
    };
    let start = *pos;
    *pos += hl;
    match major {
        0 | 1 | 7 => {}
        2 | 3 => {
            out.push(Hdr { pos: start, hdr_len: hl, major, path: path.to_string() });
            *pos = pos.checked_add(usize::try_from(val).ok()?)?;
            if *pos > b.len() {
                return None;
            }
        }
        4 => {
            out.push(Hdr { pos: start, hdr_len: hl, major, path: path.to_string() });
            for _ in 0..val.min(10_000) {
                walk_cbor(b, pos, &format!("{path}[]"), out, depth + 1)?;
            }
        }
        5 => {
            out.push(Hdr { pos: start, hdr_len: hl, major, path: path.to_string() });
            for _ in 0..val.min(10_000) {
                // key: use small ints / short text as path component
                let kpos = *pos;
                let kb = *b.get(kpos)?;
                let comp = match kb >> 5 {
                    0 if kb & 0x1f < 24 => format!("{}", kb & 0x1f),
                    3 if (kb & 0x1f) < 24 => String::from_utf8_lossy(b.get(kpos + 1..kpos + 1 + usize::from(kb & 0x1f))?).to_string(),
                    _ => "k".into(),
                };
                walk_cbor(b, pos, &format!("{path}.key"), &mut Vec::new(), depth + 1)?;
                walk_cbor(b, pos, &format!("{path}/{comp}"), out, depth + 1)?;
            }
        }
        6 => walk_cbor(b, pos, path, out, depth + 1)?,
        _ => {}
    }
    Some(())
}

/// path of the first array header that declares at least 2^20 elements and more than the input holds
fn huge_array_path(input: &[u8]) -> Option<String> {
    let mut hdrs = Vec::new();
    let mut pos = 0;
    let _ = walk_cbor(input, &mut pos, "", &mut hdrs, 0);
    for h in hdrs {
        if h.major != 4 {
            continue;
        }
        let ai = input[h.pos] & 0x1f;
        let val = match ai {
            26 => u64::from(u32::from_be_bytes(input.get(h.pos + 1..h.pos + 5)?.try_into().ok()?)),
            27 => u64::from_be_bytes(input.get(h.pos + 1..h.pos + 9)?.try_into().ok()?),
            _ => 0,
        };
        if val >= (1 << 20) && val > input.len() as u64 {
            return Some(h.path);
        }
    }
    None
}

fn cbor_header(major: u8, val: u64) -> Vec<u8> {
    let m = major << 5;
    if val < 24 {
        vec![m | val as u8]
    } else if val <= 0xff {
        vec![m | 24, val as u8]
    } else if val <= 0xffff {
        let mut v = vec![m | 25];
        v.extend_from_slice(&(val as u16).to_be_bytes());
        v
    } else if val <= 0xffff_ffff {
        let mut v = vec![m | 26];
        v.extend_from_slice(&(val as u32).to_be_bytes());
        v
    } else {
        let mut v = vec![m | 27];
        v.extend_from_slice(&val.to_be_bytes());
        v
    }
}

fn major_name(m: u8) -> &'static str {
    match m {
        2 => "bytes",
        3 => "text",
        4 => "array",
        5 => "map",
        _ => "other",
    }
}

// ---------------------------------------------------------------------------------------------
// mutation
// ---------------------------------------------------------------------------------------------

struct Case {
    decoder: usize,
    mutation: String,
    input: Vec<u8>,
    /// hid: split points; u2f auth: control byte
    aux: Vec<usize>,
}

fn is_cbor(d: usize) -> bool {
    d <= 9 || d == 23
}
fn is_json(d: usize) -> bool {
    (11..=16).contains(&d)
}

/// Fixed regression corpus at the start of the index space (independent of the seed): the inputs
/// behind every recorded finding and every repaired defect, so that each is exercised on every run.
pub const CORPUS: u64 = 17;

fn corpus_case(k: u64) -> Case {
    let known_paths: [(usize, &str); 4] = [(4, "/9"), (2, "/3[]/transports"), (3, "/1/transports"), (0, "/5[]/transports")];
    if (k as usize) < known_paths.len() {
        let (decoder, path) = known_paths[k as usize];
        for j in 0..10_000u64 {
            let mut rng = Rng::derive(0xC0FFEE, "c15corpus", j * 8 + k);
            let mut input = seed_for(decoder, &mut rng);
            let mut hdrs = Vec::new();
            let mut pos = 0;
            let _ = walk_cbor(&input, &mut pos, "", &mut hdrs, 0);
            if let Some(h) = hdrs.iter().find(|h| h.major == 4 && h.path == path) {
                let new_hdr = cbor_header(4, 1 << 28);
                let at = h.pos;
                input.splice(at..at + h.hdr_len, new_hdr);
                input.truncate(at + 5);
                return Case { decoder, mutation: format!("len-rewrite(array at {path} -> huge)"), input, aux: vec![] };
            }
        }
    }
    let c = |decoder: usize, mutation: &str, input: Vec<u8>, aux: Vec<usize>| Case { decoder, mutation: format!("corpus:{mutation}"), input, aux };
    match k {
        4 => c(19, "u2f 6-byte frame", vec![0, 1, 0, 0, 0, 0], vec![]),
        5 => c(19, "u2f declared length beyond the frame", vec![0, 1, 0, 0, 0, 0xff, 0xff, 1, 2, 3], vec![]),
        6 => c(20, "u2f register payload of 10 bytes", vec![7; 10], vec![]),
        7 => {
            let mut d = vec![1u8; 64];
            d.push(200);
            d.extend_from_slice(&[2; 5]);
            c(21, "u2f authenticate handle length beyond the payload", d, vec![3])
        }
        8 => {
            let mut f = vec![0u8, 2, 0x55, 0, 0, 0, 66];
            f.extend_from_slice(&[1; 64]);
            f.extend_from_slice(&[1, 9]);
            c(19, "u2f authenticate with an unknown control byte", f, vec![])
        }
        9 => c(22, "hid 7-byte initialisation packet", vec![1, 0, 0, 0, 0x90, 0, 30], vec![7]),
        10 => {
            let mut p = vec![1u8, 0, 0, 0, 0x90, 0, 100];
            p.extend_from_slice(&[5; 57]);
            p.extend_from_slice(&[1, 0, 0, 0, 0, 9, 9]);
            c(22, "hid short continuation packet", p, vec![64, 71])
        }
        11 => {
            let mut p = vec![1u8, 0, 0, 0, 0x90, 0, 58];
            p.extend_from_slice(&[5; 93]);
            p.extend_from_slice(&[1, 0, 0, 0, 0]);
            p.extend_from_slice(&[6; 59]);
            c(22, "hid over-long initialisation packet then continuation", p, vec![100, 164])
        }
        12 => {
            let int = |i: i64| Cbor::Integer(i.into());
            c(23, "cose key with a 31-byte x coordinate", oracle::cbor_ser(&Cbor::Map(vec![(int(1), int(2)), (int(3), int(-7)), (int(-1), int(1)), (int(-2), Cbor::Bytes(vec![1; 31])), (int(-3), Cbor::Bytes(vec![2; 32]))])), vec![])
        }
        13 => c(6, "9-byte array header declaring 2^40 elements", vec![0x9b, 0, 0, 1, 0, 0, 0, 0, 0], vec![]),
        14 => c(6, "array header declaring 2^24 elements", vec![0x9a, 1, 0, 0, 0], vec![]),
        15 => {
            // a binary member presented as an array of integers: 5000 real elements, 2^40 declared
            let mut v = vec![0x9b, 0, 0, 1, 0, 0, 0, 0, 0];
            v.extend(std::iter::repeat(0x07u8).take(5000));
            c(6, "array of 5000 integers declaring 2^40 elements", v, vec![])
        }
        _ => c(10, "36-byte authenticator data", vec![0; 36], vec![]),
    }
}

fn rng_mut(r: &mut Rng) -> &mut Rng {
    r
}

fn gen_case(seed: u64, idx: u64) -> Case {
    if idx < CORPUS {
        return corpus_case(idx);
    }
    let mut rng = Rng::derive(seed, "c15", idx);
    let decoder = (idx % DECODERS.len() as u64) as usize;
    let mut input = seed_for(decoder, &mut rng);
    let mut aux = Vec::new();
    let choice = rng.below(100);
    let mutation: String;
    if choice < 6 {
        mutation = "valid".into();
    } else if choice < 20 {
        let cut = rng.below(input.len() + 1);
        input.truncate(cut);
        mutation = "truncate".into();
    } else if choice < 26 {
        let n = rng.range(1, 40);
        input.extend(rng.bytes(n));
        mutation = "extend".into();
    } else if choice < 38 && !input.is_empty() {
        for _ in 0..rng.range(1, 3) {
            let p = rng.below(input.len());
            input[p] ^= 1 << rng.below(8);
        }
        mutation = "bit-flip".into();
    } else if choice < 46 && !input.is_empty() {
        for _ in 0..rng.range(1, 4) {
            let p = rng.below(input.len());
            input[p] = *rng.pick(&[0x00u8, 0xff, 0x7f, 0x80, 0x1b, 0x9b, 0xbb, 0x5b, 0x7b, 0x3b]);
        }
        mutation = "byte-set".into();
    } else if choice < 72 && is_cbor(decoder) {
        // structure-aware: rewrite a length field
        let mut hdrs = Vec::new();
        let mut pos = 0;
        let _ = walk_cbor(&input, &mut pos, "", &mut hdrs, 0);
        if hdrs.is_empty() {
            mutation = "valid".into();
        } else {
            let h = hdrs[rng.below(hdrs.len())].clone();
            let (label, val): (&str, u64) = match rng.below(9) {
                0 => ("0", 0),
                1 => ("len+1", 1),  // patched below
                2 => ("len-1", 2),  // patched below
                3 => ("2^16-1", 0xffff),
                4 => ("huge", 1 << 24),
                5 => ("huge", 0xffff_ffff),
                6 => ("huge", 1 << 40),
                7 => ("huge", u64::MAX),
                _ => ("huge", 1 << 28),
            };
            // current value
            let cur = {
                let ai = input[h.pos] & 0x1f;
                match ai {
                    0..=23 => u64::from(ai),
                    24 => u64::from(input[h.pos + 1]),
                    25 => u64::from(u16::from_be_bytes([input[h.pos + 1], input[h.pos + 2]])),
                    26 => u64::from(u32::from_be_bytes(input[h.pos + 1..h.pos + 5].try_into().unwrap())),
                    _ => u64::from_be_bytes(input[h.pos + 1..h.pos + 9].try_into().unwrap()),
                }
            };
            let val = match label {
                "len+1" => cur + 1,
                "len-1" => cur.saturating_sub(1),
                _ => val,
            };
            let new_hdr = cbor_header(h.major, val);
            input.splice(h.pos..h.pos + h.hdr_len, new_hdr);
            // keep the tail or cut right after the header (declared length beyond the input)
            if label == "huge" && rng.bool() {
                let keep = (h.pos + 9).min(input.len());
                input.truncate(keep);
            }
            mutation = format!("len-rewrite({} at {} -> {label})", major_name(h.major), if h.path.is_empty() { "top" } else { &h.path });
        }
    } else if choice < 74 && is_cbor(decoder) {
        // a byte-string member presented as an array of integers (the Bytes decoder accepts both),
        // with N real elements and an honest or inflated declared length
        let mut hdrs = Vec::new();
        let mut pos = 0;
        let _ = walk_cbor(&input, &mut pos, "", &mut hdrs, 0);
        let bytes_hdrs: Vec<&Hdr> = hdrs.iter().filter(|h| h.major == 2).collect();
        if bytes_hdrs.is_empty() {
            mutation = "valid".into();
        } else {
            let h = bytes_hdrs[rng.below(bytes_hdrs.len())].clone();
            // length of the byte string
            let ai = input[h.pos] & 0x1f;
            let cur = match ai {
                0..=23 => usize::from(ai),
                24 => usize::from(input[h.pos + 1]),
                25 => usize::from(u16::from_be_bytes([input[h.pos + 1], input[h.pos + 2]])),
                _ => 0,
            };
            let n = *rng.pick(&[3usize, 100, 4096, 4097, 5000, 20_000]);
            let (label, declared): (&str, u64) = match rng.below(4) {
                0 => ("honest", n as u64),
                1 => ("huge", 1 << 31),
                2 => ("huge", 1 << 40),
                _ => ("huge", u64::MAX),
            };
            let mut arr = cbor_header(4, declared);
            arr.extend(std::iter::repeat(*rng.pick(&[0x00u8, 0x17, 0x01])).take(n));
            let end = (h.pos + h.hdr_len + cur).min(input.len());
            input.splice(h.pos..end, arr);
            mutation = format!("bytes-as-int-array({} elements, declared {label}, at {})", n, if h.path.is_empty() { "top" } else { &h.path });
        }
    } else if choice < 76 && is_cbor(decoder) {
        // swap the major type of a header
        let mut hdrs = Vec::new();
        let mut pos = 0;
        let _ = walk_cbor(&input, &mut pos, "", &mut hdrs, 0);
        if let Some(h) = hdrs.get(rng.below(hdrs.len().max(1))) {
            let nm = *rng.pick(&[2u8, 3, 4, 5, 6]);
            input[h.pos] = (nm << 5) | (input[h.pos] & 0x1f);
            mutation = format!("swap-major({} -> {})", major_name(h.major), major_name(nm));
        } else {
            mutation = "valid".into();
        }
    } else if choice < 80 && (is_cbor(decoder) || is_json(decoder) || decoder == 10) {
        let depth = *rng.pick(&[200usize, 2000, 10_000]);
        if is_json(decoder) {
            let open = *rng.pick(&["[", "{\"a\":"]);
            input = open.repeat(depth).into_bytes();
            mutation = format!("deep-nest(json x{depth})");
        } else {
            let b = *rng.pick(&[0x81u8, 0xa1, 0xc1, 0x9f, 0xbf]);
            let mut v = vec![b; depth];
            if decoder == 10 {
                // authenticator data with AT|ED flags followed by deep nesting where the COSE key is expected
                let mut ad = vec![0u8; 32];
                ad.push(0xC1);
                ad.extend_from_slice(&[0, 0, 0, 1]);
                ad.extend_from_slice(&[0u8; 16]);
                ad.extend_from_slice(&[0, 0]);
                ad.append(&mut v);
                input = ad;
            } else {
                input = v;
            }
            mutation = format!("deep-nest(cbor {b:#04x} x{depth})");
        }
    } else if choice < 84 && is_cbor(decoder) {
        // duplicate a top-level map entry
        if let Ok(Cbor::Map(mut m)) = oracle::cbor_parse(&input) {
            if !m.is_empty() {
                let e = m[rng.below(m.len())].clone();
                let at = rng.below(m.len() + 1);
                m.insert(at, e);
                input = oracle::cbor_ser(&Cbor::Map(m));
            }
        }
        mutation = "duplicate-key".into();
    } else if choice < 88 && is_json(decoder) {
        // replace a token
        let text = String::from_utf8_lossy(&input).to_string();
        let reps: [(&str, &str); 6] = [("[", "[[[[[[[["), ("\"", "\"\\ud800"), (":", ":1e999,\"x\":"), ("1", "18446744073709551616000"), ("{", "{\"\":{},"), ("e", "\u{0}")];
        let (a, b) = reps[rng.below(reps.len())];
        input = text.replacen(a, b, rng.range(1, 3)).into_bytes();
        mutation = format!("json-token({a} -> {})", b.escape_default());
    } else if choice < 94 {
        let n = *rng.pick(&[0usize, 1, 2, 5, 6, 7, 8, 16, 37, 64, 65, 100, 1000]);
        input = rng.bytes(n);
        mutation = "random-short".into();
    } else if choice < 97 {
        let n = *rng.pick(&[4096usize, 16_384, 65_536]);
        input = rng.bytes(n);
        mutation = "random-long".into();
    } else {
        // long repetitive text / bytes
        let n = *rng.pick(&[10_000usize, 100_000]);
        let unit = *rng.pick(&["a.", ".", "xn--", "AA:", "9", "[", "\u{e9}"]);
        input = unit.repeat(n / unit.len()).into_bytes();
        mutation = format!("repeat({} x{})", unit.escape_default(), n / unit.len());
    }
    // Name the cause by what the input looks like, not by how it was produced: a random byte flip can
    // create the same "list declares far more elements than the input holds" shape as a length rewrite.
    let mutation = match (is_cbor(decoder), huge_array_path(&input)) {
        (true, Some(p)) => format!("len-rewrite(array at {} -> huge)", if p.is_empty() { "top" } else { &p }),
        _ => mutation,
    };
    // a map key written as a bignum (tag 2 / 3 with a byte string of 1..17 bytes) in front of the
    // first entry of the top-level map of a valid message
    if is_cbor(decoder) && choice % 11 == 3 {
        let mut v = seed_for(decoder, rng_mut(&mut rng));
        if let Some(first) = v.first().copied() {
            if first >> 5 == 5 {
                let ai = first & 0x1f;
                let hdr_len = if ai < 24 { 1 } else if ai == 24 { 2 } else { 0 };
                let ok = match ai {
                    0..=22 => {
                        v[0] = first + 1;
                        true
                    }
                    24 if v.len() > 1 && v[1] < 255 => {
                        v[1] += 1;
                        true
                    }
                    _ => false,
                };
                if ok && hdr_len > 0 {
                    let n = *rng.pick(&[1usize, 8, 9, 12, 16, 17]);
                    let tag = *rng.pick(&[0xc2u8, 0xc3]);
                    let mut key = vec![tag, 0x40 | n as u8];
                    let mut body = rng.bytes(n);
                    body[0] |= 1;
                    key.extend(body);
                    key.push(0x01); // value
                    let tail = v.split_off(hdr_len);
                    v.extend(key);
                    v.extend(tail);
                    return Case { decoder, mutation: format!("bignum-key(tag {} with {n} bytes)", tag & 0x1f), input: v, aux: vec![] };
                }
            }
        }
    }
    // decoder-specific extras
    match decoder {
        9 | 10 if choice % 4 == 0 => {
            // authenticator data with an attested section whose declared credential id length is rewritten to a
            // boundary of the two-byte field (offset 53), the rest of the input of every size around the fixed part
            let mut v = c13::gen_authdata(rng_mut(&mut rng), true).to_vec();
            let actual = u16::from_be_bytes([v[53], v[54]]);
            let declared: u16 = match rng.below(6) {
                0 => *rng.pick(&[0u16, 1, 0x7fff, 0x8000, 0xfffe, 0xffff]),
                1 => actual.wrapping_add(1),
                2 => actual.wrapping_sub(1),
                3 => 0xffff - rng.below(40) as u16,
                4 => (v.len() as u16).wrapping_sub(rng.below(60) as u16),
                _ => rng.below(65_536) as u16,
            };
            v[53..55].copy_from_slice(&declared.to_be_bytes());
            match rng.below(4) {
                0 => v.truncate(55 + rng.below(40)),
                1 => v.extend(rng.bytes(rng.clone().range(0, 70_000))),
                _ => {}
            }
            let input = if decoder == 9 { oracle::cbor_ser(&Cbor::Bytes(v)) } else { v };
            return Case { decoder, mutation: format!("authdata-credential-id-length-rewrite({declared:#06x}, actual {actual:#06x})"), input, aux };
        }
        19 if choice % 5 == 0 && input.len() >= 7 => {
            // rewrite the declared data length of the U2F frame
            let v: u32 = *rng.pick(&[0u32, 1, 63, 64, 65, 0xffff, 0x00ff_ffff, 0xffff_ffff]);
            input[3..7].copy_from_slice(&v.to_be_bytes());
            return Case { decoder, mutation: format!("u2f-length-rewrite({v:#x})+{mutation}"), input, aux };
        }
        19 if choice % 5 == 1 => {
            // an otherwise well-formed authenticate frame under every possible control byte
            let hl = rng.range(0, 255);
            let mut data = rng.bytes(64);
            data.push(hl as u8);
            data.extend(rng.bytes(hl));
            let p1 = rng.below(256) as u8;
            return Case { decoder, mutation: "u2f-control-byte".into(), input: u2f_frame(2, p1, &data), aux };
        }
        21 => aux.push(usize::from(*rng.pick(&[3u8, 7, 8]))),
        22 if choice % 7 == 1 => {
            // many channels, each left with an unfinished message: full-size initialisation packets on
            // distinct channels declaring a long payload that never arrives
            let n = *rng.pick(&[80usize, 300, 1000, 2500]);
            let declared: u16 = *rng.pick(&[0xffffu16, 7609, 4000, 600]);
            let mut input = Vec::with_capacity(n * 64);
            let mut cuts = Vec::with_capacity(n);
            let base = rng.next_u64() as u32 & 0x00ff_ffff;
            for k in 0..n {
                input.extend_from_slice(&(base + k as u32 + 1).to_be_bytes());
                input.push(0x80 | *rng.pick(&[0x10u8, 0x03, 0x01]));
                input.extend_from_slice(&declared.to_be_bytes());
                input.extend(rng.bytes(57));
                cuts.push(input.len());
            }
            return Case { decoder, mutation: format!("hid-unfinished-on-{n}-channels(declared {declared})"), input, aux: cuts };
        }
        22 if choice % 7 == 2 => {
            // one initialisation packet declaring a long payload, then hundreds of in-order continuation
            // packets on the same channel whose sequence byte runs 0..127 again and again
            let n = *rng.pick(&[130usize, 260, 300, 600, 1200]);
            let declared: u16 = *rng.pick(&[0xffffu16, 16_000, 30_000, 7609]);
            let ch = (rng.next_u64() as u32).to_be_bytes();
            let mut input = Vec::with_capacity((n + 1) * 64);
            let mut cuts = Vec::with_capacity(n + 1);
            input.extend_from_slice(&ch);
            input.push(0x80 | 0x10);
            input.extend_from_slice(&declared.to_be_bytes());
            input.extend(rng.bytes(57));
            cuts.push(input.len());
            for i in 0..n {
                input.extend_from_slice(&ch);
                input.push((i & 0x7f) as u8);
                input.extend(rng.bytes(59));
                cuts.push(input.len());
            }
            return Case { decoder, mutation: format!("hid-{n}-continuations-with-wrapping-sequence(declared {declared})"), input, aux: cuts };
        }
        22 => {
            // split into packets of arbitrary lengths 0..200, optionally reorder
            let mut cuts = Vec::new();
            let mut p = 0;
            while p < input.len() && cuts.len() < 12 {
                let l = *rng.pick(&[0usize, 1, 4, 5, 6, 7, 8, 63, 64, 64, 64, 65, 100, 200]);
                p = (p + l).min(input.len());
                cuts.push(p);
            }
            if rng.chance(1, 4) {
                cuts.push(usize::MAX); // marker: reverse the packet order
            }
            aux = cuts;
        }
        _ => {}
    }
    Case { decoder, mutation, input, aux }
}

pub fn describe(args: &Args, idx: u64) -> CaseDesc {
    let c = gen_case(args.seed, idx);
    CaseDesc {
        decoder: DECODERS[c.decoder].to_string(),
        mutation: c.mutation.clone(),
        case: json!({"input_len": c.input.len(), "input_hex": crate::report::hex(&c.input[..c.input.len().min(160)]), "aux": c.aux}),
    }
}

// ---------------------------------------------------------------------------------------------
// decoders
// ---------------------------------------------------------------------------------------------

fn cbor<T: serde::de::DeserializeOwned>(b: &[u8]) -> bool {
    ciborium::de::from_reader::<T, _>(b).is_ok()
}
fn jsn<T: serde::de::DeserializeOwned>(b: &[u8]) -> bool {
    serde_json::from_slice::<T>(b).is_ok()
}

fn decode(c: &Case) -> bool {
    let b = &c.input;
    let text = String::from_utf8_lossy(b);
    match c.decoder {
        0 => cbor::<ctap2::make_credential::Request>(b),
        1 => cbor::<ctap2::make_credential::Response>(b),
        2 => cbor::<ctap2::get_assertion::Request>(b),
        3 => cbor::<ctap2::get_assertion::Response>(b),
        4 => cbor::<ctap2::get_info::Response>(b),
        5 => cbor::<HmacGetSecretInput>(b),
        6 => cbor::<Bytes>(b),
        7 => cbor::<Aaguid>(b),
        8 => cbor::<AuthenticatorPrfInputs>(b),
        9 => cbor::<AuthenticatorData>(b),
        10 => AuthenticatorData::from_slice(b).is_ok(),
        11 => jsn::<webauthn::CredentialCreationOptions>(b),
        12 => jsn::<webauthn::CredentialRequestOptions>(b),
        13 => jsn::<webauthn::CreatedPublicKeyCredential>(b),
        14 => jsn::<webauthn::AuthenticatedPublicKeyCredential>(b),
        15 => jsn::<webauthn::CollectedClientData>(b),
        16 => jsn::<webauthn::PublicKeyCredentialDescriptor>(b),
        17 => Bytes::try_from(&*text).is_ok(),
        18 => passkey_types::encoding::try_from_base64url(&text).is_some(),
        19 => u2f::Request::try_from(b.as_slice()).is_ok(),
        20 => u2f::RegisterRequest::try_from(b.as_slice()).is_ok(),
        21 => {
            let p = c.aux.first().copied().unwrap_or(3) as u8;
            // the control byte is a typed API argument here (one of the three specified values); an
            // arbitrary P1 byte reaches the parser through u2f::Request::try_from (decoder 19)
            u2f::AuthenticationRequest::try_from(b.as_slice(), p).is_ok()
        }
        22 => {
            let mut h = ChannelHandler::default();
            let mut packets: Vec<&[u8]> = Vec::new();
            let mut last = 0;
            let mut reverse = false;
            for cut in &c.aux {
                if *cut == usize::MAX {
                    reverse = true;
                    continue;
                }
                packets.push(&b[last..*cut]);
                last = *cut;
            }
            if reverse {
                packets.reverse();
            }
            let mut any = false;
            for p in packets {
                any |= h.handle_packet(p).is_some();
            }
            any
        }
        23 => {
            use coset::CborSerializable;
            let a = match coset::CoseKey::from_slice(b) {
                Ok(k) => passkey_authenticator::public_key_der_from_cose_key(&k).is_ok(),
                Err(_) => false,
            };
            // a key value built member by member, as an application assembling a `CoseKey` itself does
            // (the parser refuses repeated labels; the struct's parameter list has room for them)
            let b2 = match oracle::cbor_parse(b) {
                Ok(Cbor::Map(m)) if m.len() < 64 => {
                    use coset::iana::EnumI64;
                    let mut key = coset::CoseKey::default();
                    for (k, v) in m {
                        match (oracle::cbor_int(&k), oracle::cbor_int(&v)) {
                            (Some(1), Some(t)) => key.kty = coset::iana::KeyType::from_i64(t as i64).map(coset::KeyType::Assigned).unwrap_or(coset::KeyType::Assigned(coset::iana::KeyType::Reserved)),
                            (Some(3), Some(t)) => key.alg = coset::iana::Algorithm::from_i64(t as i64).map(coset::Algorithm::Assigned),
                            (Some(l), _) => key.params.push((coset::Label::Int(l as i64), v)),
                            _ => {}
                        }
                    }
                    passkey_authenticator::public_key_der_from_cose_key(&key).is_ok()
                }
                _ => false,
            };
            a || b2
        }
        24 => passkey_client::valid_fingerprint(&text).is_ok(),
        25 => {
            let u = url::Url::parse("https://example.com/.well-known/assetlinks.json").unwrap();
            UnverifiedAssetLink::new(text.to_string(), &text, text.to_string(), u).is_ok()
        }
        26 => {
            let a = DEFAULT_PROVIDER.public_suffix(&text).len();
            let e = DEFAULT_PROVIDER.effective_tld_plus_one(&text).is_ok();
            let i = DEFAULT_PROVIDER.is_effective_tld(&text);
            a > 0 || e || i
        }
        28 => passkey_types::ctap2::extensions::HmacSecretSaltOrOutput::try_from(b.as_slice()).is_ok(),
        29 => {
            use passkey_types::ctap2::{Ctap2Code, Flags, StatusCode};
            let x = b.first().copied().unwrap_or(0);
            let s = u8::from(StatusCode::from(x)) == x;
            let c = Ctap2Code::try_from(x).is_ok();
            let f = Flags::try_from(x).is_ok();
            let u = u8::from(passkey_types::u2f::Command::from(x));
            let h = passkey_transports::hid::Command::try_from(x).is_ok();
            let l = usize::from(passkey_authenticator::CredentialIdLength::from(x));
            s && (c || f || h || u == x || l >= 16)
        }
        _ => {
            let v = RpIdVerifier::new(DEFAULT_PROVIDER);
            let a = v.is_valid_rp_id(&text);
            // hosts of any length (the URL parser sets no limit of its own)
            let b2 = match url::Url::parse(&format!("https://{}", text.chars().take(400_000).collect::<String>())) {
                Ok(u) => {
                    let o = passkey_client::Origin::from(&u);
                    // the text as RP ID, a fixed unrelated RP ID, and none
                    let a1 = v.assert_domain(&o, Some(&text)).is_ok();
                    let a2 = v.assert_domain(&o, Some("example.com")).is_ok();
                    let a3 = v.assert_domain(&o, None).is_ok();
                    a1 || a2 || a3
                }
                Err(_) => false,
            };
            a || b2
        }
    }
}

pub fn iso_case(args: &Args, idx: u64) -> CaseOut {
    let c = gen_case(args.seed, idx);
    // only the decoder is measured: generating the input (e.g. running ceremonies to obtain a
    // credential to mutate) must not be charged to the case
    let (ok, cpu, max_req, peak) = crate::worker::measure(|| decode(&c));
    let mclass = c.mutation.split('(').next().unwrap_or("").to_string();
    let nontrivial = ok || !c.mutation.starts_with("random");
    CaseOut {
        class: format!("{}", if ok { "accepted" } else { "rejected" }),
        key: if nontrivial { Some(fnv(&[&[c.decoder as u8][..], mclass.as_bytes(), &fnv(&c.input).to_le_bytes()].concat())) } else { None },
        input_len: c.input.len(),
        check_resources: true,
        violations: vec![],
        sample: Some((format!("{}/{}", DECODERS[c.decoder], mclass), json!({"decoder": DECODERS[c.decoder], "mutation": c.mutation, "input_len": c.input.len(), "input": hex_short(&c.input), "result": if ok {"value"} else {"error"}}))),
        counters: vec![(format!("decoder:{}", DECODERS[c.decoder]), 1), (format!("mutation:{mclass}"), 1)],
        measured: Some((cpu, max_req, peak)),
    }
}

pub fn run(args: &Args) -> Report {
    let mut rep = Report::new(
        "C15",
        &args.tier,
        args.seed,
        "every public decoder (30: CTAP2 CBOR types, authenticator data, WebAuthn JSON types, base64 fields, U2F request parsers, CTAPHID packet sequences, COSE key converter, fingerprints, asset links, PSL lookups, RP-id verifier, hmac-secret salt parser, single-byte conversions) fed seeded structure-aware mutations of valid encodings (truncate, extend, bit flips, byte sets, CBOR length-field rewrites to 0 / len+-1 / 2^16-1 / 2^24 / 2^28..2^64-1 with and without the tail, major-type swaps, 200..10000-deep nesting, duplicated keys, bignum-tagged map keys, JSON token replacements, U2F length rewrites, HID packet splits of 0..200 bytes in any order) and random input of 0..64 KiB, in crash-isolating workers measuring panics, aborts, stack overflow, largest allocation request (> max(4 MiB, 64 x input)), peak live bytes (> max(16 MiB, 256 x input)) and thread CPU time (> max(0.5 s, 20 us x input); a case that never returns is killed after 5 s of process CPU); distinct by (decoder, mutation class, input hash); non-trivial when the input is a mutation of a valid encoding or is accepted",
    );
    rep.assumptions.push("wall time never decides; CPU time does. A worker idle (no CPU) for 120 s is killed and the case reported as inconclusive".into());
    let engine = args.engine.clone().unwrap_or_else(|| "native".into());
    rep.obs("build", json!(engine));
    rep.obs("allocation_counting", json!(crate::worker::alloc_counting_enabled()));
    if engine == "miri" {
        // no sub-processes under the interpreter: run a small non-crypto sample in-process
        let shard: u64 = args.get("shard").and_then(|s| s.parse().ok()).unwrap_or(0);
        let shards: u64 = args.get("shards").and_then(|s| s.parse().ok()).unwrap_or(1);
        crate::worker::install_panic_hook();
        let n = 1200u64;
        // interpretation speed varies by three orders of magnitude between cases: stop starting new
        // cases after a wall-clock budget (what was run is reported; the budget decides nothing else)
        let started = std::time::Instant::now();
        for k in 0..n {
            if started.elapsed().as_secs() > 420 {
                rep.count_n("miri_cases_not_started_within_budget", n - k);
                break;
            }
            let idx = CORPUS + k * shards + shard;
            let d = (idx % DECODERS.len() as u64) as usize;
            if matches!(d, 13 | 14 | 23) {
                continue; // need key generation / point validation: too slow to interpret
            }
            let c = gen_case(args.seed, idx);
            if c.input.len() > 2048 || c.mutation.contains("huge") {
                continue;
            }
            rep.eval();
            match crate::worker::catch(|| decode(&c)) {
                Ok(ok) => {
                    rep.count(if ok { "outcome:accepted" } else { "outcome:rejected" });
                    rep.nontrivial(fnv(&[&[c.decoder as u8][..], &fnv(&c.input).to_le_bytes()].concat()));
                }
                Err((sig, dd)) => rep.violate(&format!("{sig} decoder={}", DECODERS[c.decoder]), dd, json!({"index": idx, "decoder": DECODERS[c.decoder], "mutation": c.mutation})),
            }
        }
        return rep;
    }
    let total = args.size(200_000, 6_000_000) as u64;
    let only = replay_index(args);
    let (start, end, workers) = match only {
        Some(o) => (o, o + 1, 1),
        None => (0, total, 16),
    };
    let mut extra = vec![];
    if let Some(e) = &args.engine {
        extra.push(("engine".to_string(), e.clone()));
    }
    let res = run_isolated(&IsoCfg { prop: "c15".into(), tier: args.tier.clone(), seed: args.seed, start, total: end, workers, cpu_kill_s: 5.0, wall_idle_kill_s: 120.0, extra, exe: None, skip_after_hangs: Some(2) });
    rep.evaluations = res.ran;
    for k in &res.distinct_keys {
        rep.nontrivial(*k);
    }
    rep.merge_counters(&res.counters);
    for (k, v) in &res.classes {
        rep.count_n(&format!("outcome:{k}"), *v);
    }
    for s in res.samples.iter().take(24) {
        rep.samples.push(s.clone());
    }
    rep.obs("worker_restarts", json!(res.restarts));
    rep.obs("largest_allocation_request_seen", json!(res.max_alloc_request));
    rep.obs("largest_case_cpu_ms_seen", json!(res.max_cpu_ns / 1_000_000));
    for e in res.events {
        rep.violate(&e.signature, e.detail.clone(), e.case.clone());
    }
    for i in res.inconclusive {
        rep.inconclusive(i);
    }
    if only.is_none() && (rep.get("outcome:accepted") == 0 || rep.get("outcome:rejected") == 0) {
        rep.inconclusive("decoders never accepted or never rejected anything".into());
    }
    let _: Option<Value> = None;
    rep
}
