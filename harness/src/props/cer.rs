//! Shared ceremony workload: seeded histories of register / authenticate (WebAuthn client level)
//! and make_credential / get_assertion (CTAP2 level) over one store, with every step observed
//! (result, store snapshot before/after, collaborator events). C02, C03, C06, C09 plug monitors in.

use indexmap::IndexMap;
use passkey_client::{
    DefaultClientData, DefaultClientDataWithCustomHash, DefaultClientDataWithExtra, WebauthnError,
};
use passkey_types::{
    ctap2::{self, StatusCode},
    webauthn::{
        self, AuthenticatedPublicKeyCredential, AuthenticationExtensionsClientInputs,
        AuthenticationExtensionsPrfInputs, AuthenticationExtensionsPrfValues, AuthenticatorSelectionCriteria,
        CreatedPublicKeyCredential, PublicKeyCredentialParameters, PublicKeyCredentialType, ResidentKeyRequirement,
        UserVerificationRequirement,
    },
};
use serde::Serialize;
use serde_json::{json, Value};
use std::collections::HashMap;

use crate::{
    collab::{CredSnap, Disc, Stamped, UvOutcome},
    exec::block_on,
    report::hex_short,
    rng::Rng,
    util::{descriptor, ga_request, mc_request, url, AuthCfg, HmacCfg, RClient, Rig},
};

#[derive(Clone, Debug)]
pub struct OriginSpec {
    pub scheme: &'static str,
    pub host: String,
    pub port: Option<u16>,
    /// Some(certificate fingerprint): the caller is an Android application whose asset link names
    /// `host`; the origin presented to the client is Origin::Android, not a URL
    pub android: Option<[u8; 32]>,
}

impl OriginSpec {
    pub fn url(&self) -> String {
        if let Some(fp) = &self.android {
            return format!("android-app({}) asset-link-host={}", crate::oracle::b64url(fp), self.host);
        }
        match self.port {
            Some(p) => format!("{}://{}:{}", self.scheme, self.host, p),
            None => format!("{}://{}", self.scheme, self.host),
        }
    }
    /// The origin value handed to the client.
    pub fn to_origin<'a>(&self, u: &'a url::Url) -> passkey_client::Origin<'a> {
        match &self.android {
            Some(fp) => {
                let text = fp.iter().map(|b| format!("{b:02X}")).collect::<Vec<_>>().join(":");
                let link = passkey_client::UnverifiedAssetLink::new("com.example.app", &text, self.host.clone(), url("https://example.com/.well-known/assetlinks.json")).expect("well-formed asset link");
                passkey_client::Origin::Android(link)
            }
            None => passkey_client::Origin::from(u),
        }
    }
    fn web_url(&self) -> String {
        match self.port {
            Some(p) => format!("{}://{}:{}", self.scheme, self.host, p),
            None => format!("{}://{}", self.scheme, self.host),
        }
    }
    /// serialisation of the origin (scheme://host[:port], default port dropped), computed here
    pub fn expected(&self) -> String {
        if let Some(fp) = &self.android {
            return format!("android:apk-key-hash:{}", crate::oracle::b64url(fp));
        }
        let scheme = self.scheme.to_ascii_lowercase();
        let default = match scheme.as_str() {
            "https" => Some(443),
            "http" => Some(80),
            _ => None,
        };
        match self.port {
            Some(p) if Some(p) != default => format!("{scheme}://{}:{p}", self.host),
            _ => format!("{scheme}://{}", self.host),
        }
    }
}

#[derive(Clone, Debug, Serialize)]
pub struct ExtraStruct {
    #[serde(rename = "androidPackageName")]
    pub android_package_name: String,
    pub nonce: u32,
}

#[derive(Clone, Debug)]
pub enum CdMode {
    Default,
    ExtraStruct(ExtraStruct),
    ExtraMap(Vec<(String, Value)>),
    CustomHash(Vec<u8>),
    OptVec(Option<Vec<u8>>),
    /// a caller-written `ClientData` whose extra data differs on every call (a sequence number);
    /// the start value
    Ticking(u32),
}

/// Extra client data of `CdMode::Ticking`.
#[derive(Clone, Debug, Serialize)]
pub struct Tick {
    pub seq: u32,
}

/// A `ClientData` implementation as an application might write it: every call hands out the next
/// sequence number.
pub struct TickingClientData(pub std::sync::atomic::AtomicU32);

impl passkey_client::ClientData<Tick> for TickingClientData {
    fn extra_client_data(&self) -> Tick {
        Tick { seq: self.0.fetch_add(1, std::sync::atomic::Ordering::Relaxed) }
    }
    fn client_data_hash(&self) -> Option<Vec<u8>> {
        None
    }
}

impl CdMode {
    pub fn name(&self) -> &'static str {
        match self {
            CdMode::Default => "default",
            CdMode::ExtraStruct(_) => "extra-struct",
            CdMode::ExtraMap(_) => "extra-map",
            CdMode::CustomHash(_) => "custom-hash",
            CdMode::OptVec(Some(_)) => "option-some",
            CdMode::OptVec(None) => "option-none",
            CdMode::Ticking(_) => "caller-written-changing-extra",
        }
    }
    pub fn supplied_hash(&self) -> Option<&[u8]> {
        match self {
            CdMode::CustomHash(h) => Some(h),
            CdMode::OptVec(Some(h)) => Some(h),
            _ => None,
        }
    }
}

#[derive(Clone, Debug)]
pub enum IdRef {
    /// k-th credential registered so far in this history (modulo the number registered)
    Existing(usize),
    Unknown(Vec<u8>),
    /// the first n bytes of the k-th registered credential's id (a different id that is a prefix)
    PrefixOf(usize, usize),
    /// the k-th registered credential's id followed by extra bytes
    ExtensionOf(usize, Vec<u8>),
}

#[derive(Clone, Debug)]
pub enum KeyRef {
    Existing(usize),
    Raw(String),
    PrefixOf(usize, usize),
    ExtensionOf(usize, Vec<u8>),
    /// the id of an existing credential in another spelling the library's `Bytes` parser accepts:
    /// 1 base64url with padding, 2 standard base64 without padding, 3 standard base64 with padding
    Spelled(usize, u8),
}

pub type Eval = (Vec<u8>, Option<Vec<u8>>);

#[derive(Clone, Debug, Default)]
pub struct PrfInputs {
    pub eval: Option<Eval>,
    pub by_cred: Option<Vec<(KeyRef, Eval)>>,
}

#[derive(Clone, Debug, Default)]
pub struct PrfSpec {
    pub prf: Option<PrfInputs>,
    pub hashed: Option<PrfInputs>,
}

#[derive(Clone, Debug)]
pub struct RegSpec {
    pub origin: OriginSpec,
    pub rp_id: Option<String>,
    pub user_id: Vec<u8>,
    pub user_name: String,
    pub challenge: Vec<u8>,
    pub algs: Vec<i64>,
    /// entries whose algorithm is not ES256 carry an unknown credential type string
    pub unknown_type_for_unsupported: bool,
    pub cd: CdMode,
    pub uv: Option<UserVerificationRequirement>,
    pub resident_key: Option<ResidentKeyRequirement>,
    pub require_rk: bool,
    pub cred_props: Option<bool>,
    pub prf: PrfSpec,
    pub exclude: Option<Vec<IdRef>>,
    pub uv_outcome: UvOutcome,
    /// attestation conveyance preference: 0 none (default), 1 indirect, 2 direct, 3 enterprise
    pub attestation: u8,
    /// members a relying party may set and that have no bearing on the result: authenticator
    /// attachment, timeout, hints, attestation formats, RP / user display names (see `misc_members`)
    pub misc: u16,
}

#[derive(Clone, Debug)]
pub enum AllowSpec {
    Absent,
    Empty,
    Ids(Vec<IdRef>),
}

#[derive(Clone, Debug)]
pub struct AuthSpec {
    /// when Some(k) and credentials exist: aim at the RP of the k-th registered credential
    pub rp_of: Option<usize>,
    pub origin: OriginSpec,
    pub rp_id: Option<String>,
    pub challenge: Vec<u8>,
    pub allow: AllowSpec,
    /// credential type strings of the allow-list descriptors: 0 = all "public-key", 1 = all unknown, 2 = alternating
    pub allow_types: u8,
    pub cd: CdMode,
    pub uv: UserVerificationRequirement,
    pub prf: PrfSpec,
    pub uv_outcome: UvOutcome,
}

#[derive(Clone, Debug)]
pub struct MakeSpec {
    pub rp_id: String,
    pub user_id: Vec<u8>,
    pub cdh: Vec<u8>,
    pub algs: Vec<i64>,
    pub unknown_type_for_unsupported: bool,
    pub exclude: Option<Vec<IdRef>>,
    pub rk: bool,
    pub up: bool,
    pub uv: bool,
    pub prf_eval: Option<([u8; 32], Option<[u8; 32]>)>,
    pub hmac_secret: Option<bool>,
    /// the CTAP 2.2 `hmac-secret-mc` input member is present (platform key agreement, encrypted salts)
    pub hmac_secret_mc_input: bool,
    pub uv_outcome: UvOutcome,
}

#[derive(Clone, Debug)]
pub struct GetSpec {
    pub rp_of: Option<usize>,
    pub rp_id: String,
    pub cdh: Vec<u8>,
    pub allow: AllowSpec,
    pub allow_types: u8,
    pub up: bool,
    pub uv: bool,
    pub prf_eval: Option<([u8; 32], Option<[u8; 32]>)>,
    pub uv_outcome: UvOutcome,
}

#[derive(Clone, Debug)]
pub enum Op {
    Register(RegSpec),
    Authenticate(AuthSpec),
    Make(MakeSpec),
    Get(GetSpec),
}

impl Op {
    pub fn name(&self) -> &'static str {
        match self {
            Op::Register(_) => "register",
            Op::Authenticate(_) => "authenticate",
            Op::Make(_) => "make_credential",
            Op::Get(_) => "get_assertion",
        }
    }
    pub fn json(&self) -> Value {
        fn ids(v: &Option<Vec<IdRef>>) -> Value {
            match v {
                None => Value::Null,
                Some(l) => json!(l.iter().map(|i| match i { IdRef::Existing(k) => json!({"existing": k}), IdRef::Unknown(b) => json!({"unknown": hex_short(b)}), other => json!(format!("{other:?}")) }).collect::<Vec<_>>()),
            }
        }
        fn allow(a: &AllowSpec) -> Value {
            match a {
                AllowSpec::Absent => json!("absent"),
                AllowSpec::Empty => json!("empty"),
                AllowSpec::Ids(l) => ids(&Some(l.clone())),
            }
        }
        fn prf(p: &PrfSpec) -> Value {
            let one = |i: &PrfInputs| json!({"eval": i.eval.as_ref().map(|(a, b)| json!([hex_short(a), b.as_ref().map(|b| hex_short(b))])),
                "by_cred": i.by_cred.as_ref().map(|l| l.iter().map(|(k, (a, b))| json!([format!("{k:?}"), hex_short(a), b.as_ref().map(|b| hex_short(b))])).collect::<Vec<_>>())});
            json!({"prf": p.prf.as_ref().map(one), "prfAlreadyHashed": p.hashed.as_ref().map(one)})
        }
        match self {
            Op::Register(r) => json!({"op": "register", "origin": r.origin.url(), "rp_id": r.rp_id, "user_id": hex_short(&r.user_id),
                "user_name": r.user_name, "challenge": hex_short(&r.challenge), "algs": r.algs, "unknown_type_for_unsupported_algs": r.unknown_type_for_unsupported, "client_data": r.cd.name(),
                "uv": r.uv.map(|u| format!("{u:?}")), "resident_key": r.resident_key.map(|u| format!("{u:?}")), "require_rk": r.require_rk,
                "cred_props": r.cred_props, "prf": prf(&r.prf), "exclude": ids(&r.exclude), "uv_outcome": format!("{:?}", r.uv_outcome), "attestation_preference": r.attestation, "other_members": misc_json(r.misc)}),
            Op::Authenticate(a) => json!({"op": "authenticate", "origin": a.origin.url(), "rp_id": a.rp_id, "challenge": hex_short(&a.challenge),
                "allow": allow(&a.allow), "allow_descriptor_types": a.allow_types, "client_data": a.cd.name(), "uv": format!("{:?}", a.uv), "prf": prf(&a.prf), "uv_outcome": format!("{:?}", a.uv_outcome)}),
            Op::Make(m) => json!({"op": "make_credential", "rp_id": m.rp_id, "user_id": hex_short(&m.user_id), "algs": m.algs, "unknown_type_for_unsupported_algs": m.unknown_type_for_unsupported,
                "exclude": ids(&m.exclude), "rk": m.rk, "up": m.up, "uv": m.uv, "prf_eval": m.prf_eval.is_some(), "hmac_secret": m.hmac_secret, "hmac_secret_mc_input": m.hmac_secret_mc_input, "uv_outcome": format!("{:?}", m.uv_outcome)}),
            Op::Get(g) => json!({"op": "get_assertion", "rp_id": g.rp_id, "allow": allow(&g.allow), "allow_descriptor_types": g.allow_types, "up": g.up, "uv": g.uv, "prf_eval": g.prf_eval.is_some(), "uv_outcome": format!("{:?}", g.uv_outcome)}),
        }
    }
}

pub enum Outcome {
    Reg(Result<CreatedPublicKeyCredential, WebauthnError>),
    Auth(Result<AuthenticatedPublicKeyCredential, WebauthnError>),
    Make(Result<ctap2::make_credential::Response, StatusCode>),
    Get(Result<ctap2::get_assertion::Response, StatusCode>),
}

impl Outcome {
    pub fn is_ok(&self) -> bool {
        match self {
            Outcome::Reg(r) => r.is_ok(),
            Outcome::Auth(r) => r.is_ok(),
            Outcome::Make(r) => r.is_ok(),
            Outcome::Get(r) => r.is_ok(),
        }
    }
    pub fn err_text(&self) -> Option<String> {
        match self {
            Outcome::Reg(Err(e)) | Outcome::Auth(Err(e)) => Some(format!("{e:?}")),
            Outcome::Make(Err(e)) | Outcome::Get(Err(e)) => Some(format!("{e:?}")),
            _ => None,
        }
    }
}

/// what the harness knows about a credential from the *outputs* of earlier registrations
#[derive(Clone, Debug)]
pub struct ModelCred {
    pub id: Vec<u8>,
    pub rp: String,
    pub x: Vec<u8>,
    pub y: Vec<u8>,
    pub user_id: Vec<u8>,
    pub step: usize,
}

pub struct Step<'a> {
    pub index: usize,
    pub op: &'a Op,
    pub outcome: &'a Outcome,
    pub before: &'a [CredSnap],
    pub after: &'a [CredSnap],
    pub events: &'a [Stamped],
    pub cfg: AuthCfg,
    pub disc: Disc,
    pub model: &'a [ModelCred],
    /// allow / exclude / evalByCredential references resolved to concrete ids for this step
    pub resolved_allow: Option<Vec<Vec<u8>>>,
    pub resolved_exclude: Option<Vec<Vec<u8>>>,
    pub resolved_by_cred: Vec<(String, Eval)>,
    pub resolved_by_cred_hashed: Vec<(String, Eval)>,
    pub verification_enabled: Option<bool>,
    /// Debug renderings ({:?} and {:#?}) of every stored passkey after the step
    pub after_debug: &'a [String],
    /// what the library's public COSE-to-SubjectPublicKeyInfo helper returns for each stored key
    pub after_spki: &'a [Vec<u8>],
}

pub struct World {
    pub rig: Rig,
    pub client: RClient,
    pub cfg: AuthCfg,
    pub disc: Disc,
    pub model: Vec<ModelCred>,
    pub verification_enabled: Option<bool>,
    /// the authenticator is re-configured through its public setters between ceremonies
    /// (signature counters for new credentials on/off, credential-id length)
    pub reconfigure: bool,
}

impl World {
    pub fn new(cfg: AuthCfg, disc: Disc, verification_enabled: Option<bool>) -> World {
        let rig = Rig::new(disc, UvOutcome::Check { presence: true, verification: true }, verification_enabled);
        // half of the worlds allow insecure localhost (which concerns the literal host `localhost` only:
        // names below it are ordinary hosts)
        let client = rig.client_with(cfg, crate::collab::RecTld::default_list(rig.log.clone()), cfg.hmac_mc);
        // about a third of the generated configurations (a function of the configuration, so that
        // replays agree)
        let reconfigure = matches!(cfg.id_len, Some(n) if n % 3 == 0) || (cfg.id_len.is_none() && cfg.counters && cfg.hmac_mc);
        World { rig, client, cfg, disc, model: Vec::new(), verification_enabled, reconfigure }
    }

    fn resolve(&self, r: &IdRef) -> Vec<u8> {
        match r {
            IdRef::Existing(k) if !self.model.is_empty() => self.model[k % self.model.len()].id.clone(),
            IdRef::Existing(k) => vec![*k as u8; 16],
            IdRef::Unknown(b) => b.clone(),
            IdRef::PrefixOf(k, n) => {
                let id = self.resolve(&IdRef::Existing(*k));
                id[..(*n).min(id.len())].to_vec()
            }
            IdRef::ExtensionOf(k, extra) => {
                let mut id = self.resolve(&IdRef::Existing(*k));
                id.extend_from_slice(extra);
                id
            }
        }
    }
    fn resolve_key(&self, k: &KeyRef) -> String {
        match k {
            KeyRef::Existing(i) if !self.model.is_empty() => crate::oracle::b64url(&self.model[i % self.model.len()].id),
            KeyRef::Existing(i) => crate::oracle::b64url(&vec![*i as u8; 16]),
            KeyRef::Raw(s) => s.clone(),
            KeyRef::PrefixOf(k, n) => crate::oracle::b64url(&self.resolve(&IdRef::PrefixOf(*k, *n))),
            KeyRef::ExtensionOf(k, e) => crate::oracle::b64url(&self.resolve(&IdRef::ExtensionOf(*k, e.clone()))),
            KeyRef::Spelled(i, style) => {
                let id = self.resolve(&IdRef::Existing(*i));
                match style {
                    1 => crate::oracle::b64url_padded(&id),
                    2 => crate::oracle::b64std_padded(&id).trim_end_matches('=').to_string(),
                    _ => crate::oracle::b64std_padded(&id),
                }
            }
        }
    }
    fn prf_inputs(&self, p: &PrfInputs) -> (AuthenticationExtensionsPrfInputs, Vec<(String, Eval)>) {
        let val = |(a, b): &Eval| AuthenticationExtensionsPrfValues { first: a.clone().into(), second: b.clone().map(Into::into) };
        let mut resolved = Vec::new();
        let by = p.by_cred.as_ref().map(|l| {
            let mut m = HashMap::new();
            for (k, e) in l {
                let key = self.resolve_key(k);
                resolved.retain(|(k2, _): &(String, Eval)| k2 != &key);
                resolved.push((key.clone(), e.clone()));
                m.insert(key, val(e));
            }
            m
        });
        (AuthenticationExtensionsPrfInputs { eval: p.eval.as_ref().map(val), eval_by_credential: by }, resolved)
    }
    fn ext_inputs(&self, cred_props: Option<bool>, prf: &PrfSpec) -> (Option<AuthenticationExtensionsClientInputs>, Vec<(String, Eval)>, Vec<(String, Eval)>) {
        let (p, r1) = match &prf.prf {
            Some(i) => {
                let (a, b) = self.prf_inputs(i);
                (Some(a), b)
            }
            None => (None, vec![]),
        };
        let (h, r2) = match &prf.hashed {
            Some(i) => {
                let (a, b) = self.prf_inputs(i);
                (Some(a), b)
            }
            None => (None, vec![]),
        };
        if cred_props.is_none() && p.is_none() && h.is_none() {
            return (None, r1, r2);
        }
        (Some(AuthenticationExtensionsClientInputs { cred_props, prf: p, prf_already_hashed: h }), r1, r2)
    }

    /// Run one op, observe it, hand the observation to `monitor`, then update the model.
    /// resolve `rp_of` against the model so that monitors see the request actually sent
    fn concretise(&self, op: &Op) -> Op {
        let mut op = op.clone();
        if self.model.is_empty() {
            return op;
        }
        match &mut op {
            Op::Authenticate(a) => {
                if let Some(k) = a.rp_of.filter(|k| !self.model[k % self.model.len()].rp.trim_end_matches('.').is_empty()) {
                    let rp = self.model[k % self.model.len()].rp.clone();
                    // (a record whose RP ID is empty gives no host to aim at: the request stays as generated)
                    // hosts of origins are lower-case (the URL parser sees to that); the RP ID keeps its spelling
                    a.origin.host = rp.trim_end_matches('.').to_ascii_lowercase();
                    if a.rp_id.is_some() {
                        a.rp_id = Some(rp);
                    }
                }
            }
            Op::Get(g) => {
                if let Some(k) = g.rp_of {
                    g.rp_id = self.model[k % self.model.len()].rp.clone();
                }
            }
            _ => {}
        }
        op
    }

    pub fn step(&mut self, index: usize, op: &Op, monitor: &mut dyn FnMut(&Step)) {
        let op = &self.concretise(op);
        if self.reconfigure && index > 0 {
            match index % 3 {
                1 => {
                    self.cfg.counters = !self.cfg.counters;
                    self.client.authenticator_mut().set_make_credentials_with_signature_counter(self.cfg.counters);
                }
                2 => {
                    let l = [16u8, 64, 0, 33, 255, 17][(index / 3) % 6];
                    self.cfg.id_len = Some(l);
                    self.client.authenticator_mut().set_make_credential_id_length(passkey_authenticator::CredentialIdLength::from(l));
                }
                _ => {}
            }
        }
        let before = self.rig.store.snapshot();
        self.rig.log.clear();
        self.rig.store.reset_call_counts();
        let mut resolved_allow = None;
        let mut resolved_exclude = None;
        let mut rb = Vec::new();
        let mut rbh = Vec::new();
        let outcome = match op {
            Op::Register(r) => {
                self.rig.uv.set_outcome(r.uv_outcome);
                let params: Vec<PublicKeyCredentialParameters> = r
                    .algs
                    .iter()
                    .filter_map(|a| {
                        use coset::iana::EnumI64;
                        coset::iana::Algorithm::from_i64(*a).map(|alg| PublicKeyCredentialParameters { ty: if r.unknown_type_for_unsupported && *a != -7 { PublicKeyCredentialType::Unknown } else { PublicKeyCredentialType::PublicKey }, alg })
                    })
                    .collect();
                let mut opts = crate::util::creation_options(r.rp_id.as_deref(), &r.user_id, &r.user_name, &r.challenge, params);
                if r.uv.is_some() || r.resident_key.is_some() || r.require_rk {
                    opts.public_key.authenticator_selection = Some(AuthenticatorSelectionCriteria {
                        authenticator_attachment: None,
                        resident_key: r.resident_key,
                        require_resident_key: r.require_rk,
                        user_verification: r.uv.unwrap_or_default(),
                    });
                }
                if let Some(ex) = &r.exclude {
                    let ids: Vec<Vec<u8>> = ex.iter().map(|i| self.resolve(i)).collect();
                    opts.public_key.exclude_credentials = Some(ids.iter().map(|i| hinted(descriptor(i))).collect());
                    resolved_exclude = Some(ids);
                }
                opts.public_key.attestation = match r.attestation {
                    1 => webauthn::AttestationConveyancePreference::Indirect,
                    2 => webauthn::AttestationConveyancePreference::Direct,
                    3 => webauthn::AttestationConveyancePreference::Enterprise,
                    _ => webauthn::AttestationConveyancePreference::None,
                };
                misc_members_creation(&mut opts.public_key, r.misc);
                let (ext, r1, r2) = self.ext_inputs(r.cred_props, &r.prf);
                opts.public_key.extensions = ext;
                rb = r1;
                rbh = r2;
                let uu = url(&r.origin.web_url());
                let u = r.origin.to_origin(&uu);
                let c = &mut self.client;
                Outcome::Reg(match &r.cd {
                    CdMode::Default => block_on(c.register(u, opts, DefaultClientData)),
                    CdMode::ExtraStruct(e) => block_on(c.register(u, opts, DefaultClientDataWithExtra(e.clone()))),
                    CdMode::ExtraMap(m) => {
                        let map: IndexMap<String, Value> = m.iter().cloned().collect();
                        block_on(c.register(u, opts, DefaultClientDataWithExtra(map)))
                    }
                    CdMode::CustomHash(h) => block_on(c.register(u, opts, DefaultClientDataWithCustomHash(h.clone()))),
                    CdMode::OptVec(o) => block_on(c.register(u, opts, o.clone())),
                    CdMode::Ticking(n) => block_on(c.register(u, opts, TickingClientData(std::sync::atomic::AtomicU32::new(*n)))),
                })
            }
            Op::Authenticate(a) => {
                self.rig.uv.set_outcome(a.uv_outcome);
                let allow = match &a.allow {
                    AllowSpec::Absent => None,
                    AllowSpec::Empty => {
                        resolved_allow = Some(vec![]);
                        Some(vec![])
                    }
                    AllowSpec::Ids(l) => {
                        let ids: Vec<Vec<u8>> = l.iter().map(|i| self.resolve(i)).collect();
                        let d = ids.iter().enumerate().map(|(k, i)| hinted(crate::util::descriptor_typed(i, a.allow_types == 0 || (a.allow_types == 2 && k % 2 == 0)))).collect();
                        resolved_allow = Some(ids);
                        Some(d)
                    }
                };
                let mut opts = crate::util::request_options(a.rp_id.as_deref(), &a.challenge, allow, a.uv);
                let (ext, r1, r2) = self.ext_inputs(None, &a.prf);
                opts.public_key.extensions = ext;
                // the members of a get() request a relying party may set freely (derived from the challenge,
                // so that every check sharing this workload sees the same requests): timeout, hints,
                // attestation preference and formats
                {
                    let m = crate::rng::fnv(&a.challenge);
                    if m % 2 == 0 {
                        opts.public_key.timeout = [None, Some(0), Some(1), Some(u32::MAX)][((m >> 8) % 4) as usize];
                        opts.public_key.hints = match (m >> 12) % 3 {
                            1 => Some(vec![]),
                            2 => Some(vec![webauthn::PublicKeyCredentialHints::SecurityKey, webauthn::PublicKeyCredentialHints::Hybrid]),
                            _ => None,
                        };
                        opts.public_key.attestation = [webauthn::AttestationConveyancePreference::None, webauthn::AttestationConveyancePreference::Indirect, webauthn::AttestationConveyancePreference::Direct, webauthn::AttestationConveyancePreference::Enterprise][((m >> 16) % 4) as usize];
                        opts.public_key.attestation_formats = match (m >> 20) % 3 {
                            1 => Some(vec![]),
                            2 => Some(vec![webauthn::AttestationStatementFormatIdentifiers::Packed, webauthn::AttestationStatementFormatIdentifiers::None]),
                            _ => None,
                        };
                    }
                }
                rb = r1;
                rbh = r2;
                let uu = url(&a.origin.web_url());
                let u = a.origin.to_origin(&uu);
                let c = &mut self.client;
                Outcome::Auth(match &a.cd {
                    CdMode::Default => block_on(c.authenticate(u, opts, DefaultClientData)),
                    CdMode::ExtraStruct(e) => block_on(c.authenticate(u, opts, DefaultClientDataWithExtra(e.clone()))),
                    CdMode::ExtraMap(m) => {
                        let map: IndexMap<String, Value> = m.iter().cloned().collect();
                        block_on(c.authenticate(u, opts, DefaultClientDataWithExtra(map)))
                    }
                    CdMode::CustomHash(h) => block_on(c.authenticate(u, opts, DefaultClientDataWithCustomHash(h.clone()))),
                    CdMode::OptVec(o) => block_on(c.authenticate(u, opts, o.clone())),
                    CdMode::Ticking(n) => block_on(c.authenticate(u, opts, TickingClientData(std::sync::atomic::AtomicU32::new(*n)))),
                })
            }
            Op::Make(m) => {
                self.rig.uv.set_outcome(m.uv_outcome);
                let params: Vec<PublicKeyCredentialParameters> = m
                    .algs
                    .iter()
                    .filter_map(|a| {
                        use coset::iana::EnumI64;
                        coset::iana::Algorithm::from_i64(*a).map(|alg| PublicKeyCredentialParameters { ty: if m.unknown_type_for_unsupported && *a != -7 { PublicKeyCredentialType::Unknown } else { PublicKeyCredentialType::PublicKey }, alg })
                    })
                    .collect();
                let exclude = m.exclude.as_ref().map(|ex| {
                    let ids: Vec<Vec<u8>> = ex.iter().map(|i| self.resolve(i)).collect();
                    let d = ids.iter().map(|i| descriptor(i)).collect();
                    resolved_exclude = Some(ids);
                    d
                });
                let ext = if m.prf_eval.is_some() || m.hmac_secret.is_some() || m.hmac_secret_mc_input {
                    Some(ctap2::make_credential::ExtensionInputs {
                        hmac_secret: m.hmac_secret,
                        hmac_secret_mc: m.hmac_secret_mc_input.then(|| ctap2::extensions::HmacGetSecretInput {
                            key_agreement: ciborium::Value::Map(vec![(ciborium::Value::Integer(1.into()), ciborium::Value::Integer(2.into()))]),
                            salt_enc: vec![0x5e; 32].into(),
                            salt_auth: vec![0xa7; 16].into(),
                            pin_uv_auth_protocol: None,
                        }),
                        prf: m.prf_eval.map(|(a, b)| ctap2::extensions::AuthenticatorPrfInputs {
                            eval: Some(ctap2::extensions::AuthenticatorPrfValues { first: a, second: b }),
                            eval_by_credential: None,
                        }),
                    })
                } else {
                    None
                };
                let req = mc_request(&m.rp_id, &m.user_id, &m.cdh, params, exclude, ext, m.rk, m.up, m.uv);
                Outcome::Make(block_on(self.client.authenticator_mut().make_credential(req)))
            }
            Op::Get(g) => {
                self.rig.uv.set_outcome(g.uv_outcome);
                let allow = match &g.allow {
                    AllowSpec::Absent => None,
                    AllowSpec::Empty => {
                        resolved_allow = Some(vec![]);
                        Some(vec![])
                    }
                    AllowSpec::Ids(l) => {
                        let ids: Vec<Vec<u8>> = l.iter().map(|i| self.resolve(i)).collect();
                        let d = ids.iter().enumerate().map(|(k, i)| crate::util::descriptor_typed(i, g.allow_types == 0 || (g.allow_types == 2 && k % 2 == 0))).collect();
                        resolved_allow = Some(ids);
                        Some(d)
                    }
                };
                let ext = g.prf_eval.map(|(a, b)| ctap2::get_assertion::ExtensionInputs {
                    hmac_secret: None,
                    prf: Some(ctap2::extensions::AuthenticatorPrfInputs {
                        eval: Some(ctap2::extensions::AuthenticatorPrfValues { first: a, second: b }),
                        eval_by_credential: None,
                    }),
                });
                let req = ga_request(&g.rp_id, &g.cdh, allow, ext, g.up, g.uv);
                Outcome::Get(block_on(self.client.authenticator_mut().get_assertion(req)))
            }
        };
        let after = self.rig.store.snapshot();
        let events = self.rig.log.snapshot();
        let mut after_debug: Vec<String> = self.rig.store.passkeys().iter().flat_map(|p| [format!("{p:?}"), format!("{p:#?}")]).collect();
        // the secret-holding parts of a stored passkey whose types are the library's own, rendered
        // wherever the build of the library gives them a Debug implementation (`key` is a third-party
        // `coset::CoseKey`, whose Debug is not the library's to write)
        for p in self.rig.store.passkeys().iter() {
            after_debug.extend(crate::debug_if_any!(p.extensions));
            after_debug.extend(crate::debug_if_any!(p.extensions.hmac_secret));
        }
        let after_spki: Vec<Vec<u8>> = self.rig.store.passkeys().iter().map(|p| match passkey_authenticator::public_key_der_from_cose_key(&p.key) {
            Ok(der) => der.to_vec(),
            Err(e) => format!("{e:?}").into_bytes(),
        }).collect();
        {
            let st = Step {
                index,
                op,
                outcome: &outcome,
                before: &before,
                after: &after,
                events: &events,
                cfg: self.cfg,
                disc: self.disc,
                model: &self.model,
                resolved_allow,
                resolved_exclude,
                resolved_by_cred: rb,
                resolved_by_cred_hashed: rbh,
                verification_enabled: self.verification_enabled,
                after_debug: &after_debug,
                after_spki: &after_spki,
            };
            monitor(&st);
        }
        // model update from outputs only
        match (&outcome, op) {
            (Outcome::Reg(Ok(c)), Op::Register(r)) => {
                if let Ok(ad) = crate::oracle::authdata::decode(&c.response.authenticator_data) {
                    if let Some(at) = ad.attested {
                        if let Ok((_, x, y)) = crate::oracle::cose_ec2_public(&at.key) {
                            let rp = r.rp_id.clone().unwrap_or_else(|| r.origin.host.clone());
                            self.model.push(ModelCred { id: c.raw_id.to_vec(), rp, x, y, user_id: r.user_id.clone(), step: index });
                        }
                    }
                }
            }
            (Outcome::Make(Ok(resp)), Op::Make(m)) => {
                if let Ok(ad) = crate::oracle::authdata::decode(&resp.auth_data.to_vec()) {
                    if let Some(at) = ad.attested {
                        if let Ok((_, x, y)) = crate::oracle::cose_ec2_public(&at.key) {
                            self.model.push(ModelCred { id: at.cred_id.clone(), rp: m.rp_id.clone(), x, y, user_id: m.user_id.clone(), step: index });
                        }
                    }
                }
            }
            _ => {}
        }
    }
}

// ---------------------------------------------------------------------------------------------
// generators
// ---------------------------------------------------------------------------------------------

/// Transport hints as relying parties send them (a function of the id, so that replays agree): absent,
/// empty, security-key transports, platform transports.
pub fn hinted(mut d: webauthn::PublicKeyCredentialDescriptor) -> webauthn::PublicKeyCredentialDescriptor {
    use webauthn::AuthenticatorTransport as T;
    d.transports = match d.id.iter().fold(0u8, |a, b| a.wrapping_mul(31).wrapping_add(*b)) % 5 {
        0 => None,
        1 => Some(vec![]),
        2 => Some(vec![T::Usb, T::Nfc]),
        3 => Some(vec![T::Internal, T::Hybrid]),
        _ => Some(vec![T::Ble]),
    };
    d
}

/// The members of `misc` (RegSpec): attachment, timeout, hints, attestation formats, names.
fn misc_parts(m: u16) -> (u16, u16, u16, u16, u16) {
    (m % 3, (m / 3) % 4, (m / 12) % 3, (m / 36) % 3, (m / 108) % 4)
}

pub fn misc_json(m: u16) -> Value {
    let (att, to, hints, fmts, names) = misc_parts(m);
    let pick = |l: &[&'static str], i: u16| l[usize::from(i)];
    json!({"authenticatorAttachment": pick(&["absent", "platform", "cross-platform"], att), "timeout": pick(&["absent", "0", "1", "u32::MAX"], to),
        "hints": pick(&["absent", "[]", "[security-key, client-device, hybrid]"], hints), "attestationFormats": pick(&["absent", "[]", "[packed, none]"], fmts),
        "names": pick(&["short", "empty", "300 characters", "non-ASCII"], names)})
}

/// The display string `misc` puts into RP name and user display name (None: left as generated).
pub fn misc_names(m: u16) -> Option<String> {
    match misc_parts(m).4 {
        1 => Some(String::new()),
        2 => Some("n".repeat(300)),
        3 => Some("\u{540d}\u{524d} \u{1F511}".to_string()),
        _ => None,
    }
}

fn misc_members_creation(o: &mut webauthn::PublicKeyCredentialCreationOptions, m: u16) {
    let (att, to, hints, fmts, names) = misc_parts(m);
    if att != 0 {
        let sel = o.authenticator_selection.get_or_insert_with(Default::default);
        sel.authenticator_attachment = Some(if att == 1 { webauthn::AuthenticatorAttachment::Platform } else { webauthn::AuthenticatorAttachment::CrossPlatform });
    }
    o.timeout = [None, Some(0), Some(1), Some(u32::MAX)][usize::from(to)];
    o.hints = match hints {
        1 => Some(vec![]),
        2 => Some(vec![webauthn::PublicKeyCredentialHints::SecurityKey, webauthn::PublicKeyCredentialHints::ClientDevice, webauthn::PublicKeyCredentialHints::Hybrid]),
        _ => None,
    };
    o.attestation_formats = match fmts {
        1 => Some(vec![]),
        2 => Some(vec![webauthn::AttestationStatementFormatIdentifiers::Packed, webauthn::AttestationStatementFormatIdentifiers::None]),
        _ => None,
    };
    let _ = names;
    let name = misc_names(m);
    if let Some(n) = name {
        o.rp.name = n.clone();
        o.user.display_name = n;
    }
}

pub const RPS: &[(&str, &[&str])] = &[
    ("example.com", &["example.com", "www.example.com", "login.accounts.example.com"]),
    ("example.org", &["example.org", "app.example.org"]),
    ("shop.example.co.uk", &["shop.example.co.uk", "eu.shop.example.co.uk"]),
    // IDN: the url crate keeps hosts in punycode, which is also the origin's serialisation
    ("xn--mnchen-3ya.de", &["xn--mnchen-3ya.de", "www.xn--mnchen-3ya.de"]),
    // a development host below `localhost` (not the literal host `localhost`)
    ("app.localhost", &["app.localhost", "shop.app.localhost"]),
];

pub fn gen_origin(rng: &mut Rng) -> (OriginSpec, Option<String>) {
    let (rp, hosts) = RPS[rng.below(RPS.len())];
    let host = hosts[rng.below(hosts.len())].to_string();
    let port = match rng.below(5) {
        0 => Some(8443),
        1 => Some(443),
        _ => None,
    };
    // RP ID: absent (=> host), the registrable parent, or the host itself
    let rp_id = match rng.below(3) {
        0 => None,
        1 => Some(rp.to_string()),
        _ => Some(host.clone()),
    };
    // the member present but empty (not the same as absent: the empty string is no suffix of a host)
    let rp_id = if rng.chance(1, 14) { Some(String::new()) } else { rp_id };
    // one caller in eight is an Android application (no port; the asset-link host plays the origin's role)
    let android = if rng.chance(1, 8) {
        let mut fp = [0u8; 32];
        fp.copy_from_slice(&rng.bytes(32));
        Some(fp)
    } else {
        None
    };
    // an asset-link host is a caller-supplied string and may be spelled with capitals; the effective
    // RP ID is then that spelling
    let (host, rp_id) = if android.is_some() && rng.chance(1, 3) {
        let mut c = host.chars();
        let spelled = c.next().map(|f| f.to_ascii_uppercase().to_string() + c.as_str()).unwrap_or_default();
        let rp_id = rp_id.map(|r| if r == host { spelled.clone() } else { r });
        (spelled, rp_id)
    } else {
        (host, rp_id)
    };
    (OriginSpec { scheme: "https", host, port: if android.is_some() { None } else { port }, android }, rp_id)
}

pub fn gen_challenge(rng: &mut Rng) -> Vec<u8> {
    let l = *rng.pick(&[0usize, 1, 16, 32, 32, 32, 64, 1000]);
    rng.bytes(l)
}

pub fn gen_cd(rng: &mut Rng) -> CdMode {
    match rng.below(8) {
        0 => CdMode::ExtraStruct(ExtraStruct { android_package_name: "com.example.app".into(), nonce: rng.next_u64() as u32 }),
        1 => {
            let mut m = vec![
                ("zeta".to_string(), json!(1)),
                ("alpha".to_string(), json!({"nested": [1, 2, {"k": "v"}], "b": null})),
                ("payment".to_string(), json!("x")),
            ];
            rng.shuffle(&mut m);
            // extra data may also have nothing in it (a struct whose optional members are all absent, an empty map)
            if rng.chance(1, 4) {
                m.clear();
            }
            CdMode::ExtraMap(m)
        }
        2 => {
            // the caller's hash is opaque: mostly SHA-256 sized, sometimes another digest's length
            let l = *rng.pick(&[32usize, 32, 32, 20, 48, 64, 0, 33]);
            CdMode::CustomHash(rng.bytes(l))
        }
        3 => {
            let l = *rng.pick(&[32usize, 32, 0, 20, 64]);
            CdMode::OptVec(Some(rng.bytes(l)))
        }
        4 => CdMode::OptVec(None),
        5 => CdMode::Ticking(rng.below(1000) as u32),
        _ => CdMode::Default,
    }
}

pub const ALG_LISTS: &[&[i64]] = &[&[], &[-7], &[-257, -7], &[-8, -7, -257], &[-7, -257], &[-257], &[-8, -257], &[-35, -7, -36]];

pub fn gen_user(rng: &mut Rng) -> (Vec<u8>, String) {
    let users: [(&[u8], &str); 3] = [(b"user-alice", "alice"), (b"\x00\xff\x10bob", "b\u{f6}b \u{1F600}"), (b"", "")];
    if rng.chance(1, 4) {
        let l = rng.range(0, 64);
        (rng.bytes(l), rng.ascii_label(0, 12))
    } else {
        let (i, n) = users[rng.below(users.len())];
        (i.to_vec(), n.to_string())
    }
}

pub fn gen_uv_outcome(rng: &mut Rng) -> UvOutcome {
    match rng.below(12) {
        0 => UvOutcome::Check { presence: true, verification: false },
        1 => UvOutcome::Check { presence: false, verification: true },
        2 => UvOutcome::Err(0x27),
        _ => UvOutcome::Check { presence: true, verification: true },
    }
}

pub fn gen_idrefs(rng: &mut Rng) -> Vec<IdRef> {
    let n = rng.range(1, 3);
    (0..n)
        .map(|_| if rng.chance(2, 3) { IdRef::Existing(rng.below(16)) } else { IdRef::Unknown(rng.bytes(16)) })
        .collect()
}

pub fn gen_register(rng: &mut Rng) -> RegSpec {
    let (origin, rp_id) = gen_origin(rng);
    let (user_id, user_name) = gen_user(rng);
    RegSpec {
        origin,
        rp_id,
        user_id,
        user_name,
        challenge: gen_challenge(rng),
        algs: ALG_LISTS[rng.below(ALG_LISTS.len())].to_vec(),
        unknown_type_for_unsupported: rng.chance(1, 4),
        cd: gen_cd(rng),
        uv: match rng.below(4) {
            0 => None,
            1 => Some(UserVerificationRequirement::Required),
            2 => Some(UserVerificationRequirement::Preferred),
            _ => Some(UserVerificationRequirement::Discouraged),
        },
        resident_key: match rng.below(5) {
            0 => Some(ResidentKeyRequirement::Required),
            1 => Some(ResidentKeyRequirement::Preferred),
            2 => Some(ResidentKeyRequirement::Discouraged),
            _ => None,
        },
        require_rk: rng.chance(1, 4),
        cred_props: match rng.below(4) {
            0 => Some(true),
            1 => Some(false),
            _ => None,
        },
        prf: if rng.chance(1, 4) {
            PrfSpec { prf: Some(PrfInputs { eval: Some((rng.bytes(rng.clone().range(0, 40)), None)), by_cred: None }), hashed: None }
        } else {
            PrfSpec::default()
        },
        exclude: if rng.chance(1, 5) { Some(gen_idrefs(rng)) } else { None },
        uv_outcome: gen_uv_outcome(rng),
        attestation: *rng.pick(&[0u8, 0, 1, 2, 3]),
        misc: if rng.bool() { 0 } else { rng.below(1 << 15) as u16 },
    }
}

pub fn gen_authenticate(rng: &mut Rng) -> AuthSpec {
    let (origin, rp_id) = gen_origin(rng);
    AuthSpec {
        rp_of: if rng.chance(3, 5) { Some(rng.below(16)) } else { None },
        origin,
        rp_id,
        challenge: gen_challenge(rng),
        allow: match rng.below(5) {
            0 => AllowSpec::Absent,
            1 => AllowSpec::Empty,
            _ => AllowSpec::Ids(gen_idrefs(rng)),
        },
        allow_types: *rng.pick(&[0u8, 0, 0, 1, 2]),
        cd: gen_cd(rng),
        uv: *rng.pick(&[UserVerificationRequirement::Required, UserVerificationRequirement::Preferred, UserVerificationRequirement::Discouraged]),
        prf: if rng.chance(1, 4) {
            PrfSpec { prf: Some(PrfInputs { eval: Some((rng.bytes(rng.clone().range(0, 40)), if rng.bool() { Some(rng.bytes(8)) } else { None })), by_cred: None }), hashed: None }
        } else {
            PrfSpec::default()
        },
        uv_outcome: gen_uv_outcome(rng),
    }
}

pub fn gen_make(rng: &mut Rng) -> MakeSpec {
    let (rp, _) = RPS[rng.below(RPS.len())];
    // at the CTAP boundary the RP ID is an opaque string: some callers spell it with capitals or a
    // trailing dot (each spelling is its own relying party)
    let rp_spelled: String = match rng.below(8) {
        0 => rp.to_ascii_uppercase(),
        1 => format!("{rp}."),
        2 => {
            let mut c = rp.chars();
            c.next().map(|f| f.to_ascii_uppercase().to_string() + c.as_str()).unwrap_or_default()
        }
        _ => rp.to_string(),
    };
    let rp = rp_spelled.as_str();
    let (user_id, _) = gen_user(rng);
    MakeSpec {
        rp_id: rp.to_string(),
        user_id,
        cdh: {
            let l = *rng.pick(&[32usize, 32, 32, 20, 48, 64, 0, 33]);
            rng.bytes(l)
        },
        algs: ALG_LISTS[1 + rng.below(ALG_LISTS.len() - 1)].to_vec(),
        unknown_type_for_unsupported: rng.chance(1, 4),
        exclude: if rng.chance(1, 5) { Some(gen_idrefs(rng)) } else { None },
        rk: rng.bool(),
        up: !rng.chance(1, 10),
        uv: rng.bool(),
        prf_eval: if rng.chance(1, 4) { Some((rng.arr32(), if rng.bool() { Some(rng.arr32()) } else { None })) } else { None },
        hmac_secret: if rng.chance(1, 6) { Some(rng.bool()) } else { None },
        hmac_secret_mc_input: rng.chance(1, 6),
        uv_outcome: gen_uv_outcome(rng),
    }
}

pub fn gen_get(rng: &mut Rng) -> GetSpec {
    let (rp, _) = RPS[rng.below(RPS.len())];
    // at the CTAP boundary the RP ID is an opaque string: some callers spell it with capitals or a
    // trailing dot (each spelling is its own relying party)
    let rp_spelled: String = match rng.below(8) {
        0 => rp.to_ascii_uppercase(),
        1 => format!("{rp}."),
        2 => {
            let mut c = rp.chars();
            c.next().map(|f| f.to_ascii_uppercase().to_string() + c.as_str()).unwrap_or_default()
        }
        _ => rp.to_string(),
    };
    let rp = rp_spelled.as_str();
    GetSpec {
        rp_of: if rng.chance(3, 5) { Some(rng.below(16)) } else { None },
        rp_id: rp.to_string(),
        cdh: {
            let l = *rng.pick(&[32usize, 32, 32, 20, 48, 64, 0, 33]);
            rng.bytes(l)
        },
        allow: match rng.below(5) {
            0 => AllowSpec::Absent,
            1 => AllowSpec::Empty,
            _ => AllowSpec::Ids(gen_idrefs(rng)),
        },
        allow_types: *rng.pick(&[0u8, 0, 0, 1, 2]),
        up: !rng.chance(1, 10),
        uv: rng.bool(),
        prf_eval: if rng.chance(1, 4) { Some((rng.arr32(), if rng.bool() { Some(rng.arr32()) } else { None })) } else { None },
        uv_outcome: gen_uv_outcome(rng),
    }
}

pub fn gen_cfg(rng: &mut Rng) -> (AuthCfg, Disc, Option<bool>) {
    let cfg = AuthCfg {
        counters: rng.bool(),
        id_len: match rng.below(4) {
            0 => None,
            _ => Some(*rng.pick(&[0u8, 1, 15, 16, 17, 32, 63, 64, 65, 128, 255])),
        },
        hmac: *rng.pick(&[HmacCfg::None, HmacCfg::UvOnly, HmacCfg::WithoutUv]),
        hmac_mc: rng.bool(),
        transports: *rng.pick(&[0u8, 0, 0, 1, 2, 3]),
    };
    let disc = *rng.pick(&[Disc::Full, Disc::Full, Disc::Forced, Disc::OnlyNonDiscoverable]);
    let ve = *rng.pick(&[Some(true), Some(true), Some(true), Some(false), None]);
    (cfg, disc, ve)
}

/// A mixed history: mostly client-level, some CTAP-level, registrations first-heavy.
pub fn gen_history(rng: &mut Rng, len: usize, reg_bias: usize) -> Vec<Op> {
    let mut ops = Vec::with_capacity(len);
    for i in 0..len {
        let reg = i == 0 || rng.below(100) < reg_bias;
        let ctap = rng.chance(1, 4);
        ops.push(match (reg, ctap) {
            (true, false) => Op::Register(gen_register(rng)),
            (true, true) => Op::Make(gen_make(rng)),
            (false, false) => Op::Authenticate(gen_authenticate(rng)),
            (false, true) => Op::Get(gen_get(rng)),
        });
    }
    ops
}
