//! C16 — CTAPHID fragmentation and reassembly preserve every message, per channel.

use passkey_transports::hid::{ChannelHandler, Command, Message};
use serde_json::{json, Value};

use crate::{
    props::c02::replay_index,
    report::{hex_short, Report},
    rng::{fnv, Rng},
    worker::catch,
    Args,
};

const COMMANDS: [(Command, u8); 9] = [
    (Command::Msg, 0x03),
    (Command::Cbor, 0x10),
    (Command::Init, 0x06),
    (Command::Ping, 0x01),
    (Command::Cancel, 0x11),
    (Command::Err, 0x3F),
    (Command::KeepAlive, 0x3B),
    (Command::Wink, 0x08),
    (Command::Lock, 0x04),
];

/// captures every write() separately
#[derive(Default)]
pub(crate) struct Capture {
    pub writes: Vec<Vec<u8>>,
    pub flushes: usize,
}
impl std::io::Write for Capture {
    fn write(&mut self, buf: &[u8]) -> std::io::Result<usize> {
        self.writes.push(buf.to_vec());
        Ok(buf.len())
    }
    fn flush(&mut self) -> std::io::Result<()> {
        self.flushes += 1;
        Ok(())
    }
}

fn expected_packets(len: usize) -> usize {
    1 + len.saturating_sub(57).div_ceil(59)
}

/// Send one message and parse what was written with an own parser. Returns the packets.
fn send_and_check(rep: &mut Report, channel: u32, cmd_idx: usize, payload: &[u8], case: &Value) -> Option<Vec<Vec<u8>>> {
    let (cmd, cmd_byte) = COMMANDS[cmd_idx];
    let len = payload.len();
    let res = catch(|| Message::new(channel, cmd, payload).map(|m| {
        let mut c = Capture::default();
        let r = m.send(&mut c);
        (c, r.is_ok())
    }));
    let (cap, ok) = match res {
        Err((sig, d)) => {
            rep.violate(&format!("sender {sig}"), d, case.clone());
            return None;
        }
        Ok(Err(_)) => {
            if len > 7609 {
                rep.count("refused_above_maximum");
            } else if len == 7609 {
                rep.count("refused_exactly_7609 (recorded, not judged)");
            } else {
                rep.violate("sender refuses a payload within the protocol maximum", format!("length {len}"), case.clone());
            }
            return None;
        }
        Ok(Ok(v)) => v,
    };
    if len > 7609 {
        rep.violate("payload above the protocol maximum of 7609 bytes accepted", format!("length {len}, {} packets written", cap.writes.len()), case.clone());
        return None;
    }
    if !ok {
        rep.violate("send fails on an infallible writer", String::new(), case.clone());
        return None;
    }
    let w = &cap.writes;
    if w.iter().any(|p| p.len() != 64) {
        rep.violate("a packet is not exactly 64 bytes", format!("sizes {:?}", w.iter().map(|p| p.len()).collect::<Vec<_>>()), case.clone());
        return None;
    }
    if w.len() != expected_packets(len) {
        rep.violate("packet count is not 1 + ceil(max(0, len - 57) / 59)", format!("{} packets for {len} bytes, expected {}", w.len(), expected_packets(len)), case.clone());
    }
    if w.is_empty() {
        return None;
    }
    let cid = &w[0][0..4];
    let mut data = Vec::new();
    for (i, p) in w.iter().enumerate() {
        if &p[0..4] != cid {
            rep.violate("channel id bytes differ between packets of one message", format!("packet {i}"), case.clone());
        }
        if i == 0 {
            if p[4] != (0x80 | cmd_byte) {
                rep.violate("initialisation packet: command byte is not 0x80 | command", format!("{:#04x}", p[4]), case.clone());
            }
            let bcnt = usize::from(u16::from_be_bytes([p[5], p[6]]));
            if bcnt != len {
                rep.violate("initialisation packet: BCNT is not the big-endian payload length", format!("{bcnt} vs {len}"), case.clone());
            }
            let take = len.min(57);
            data.extend_from_slice(&p[7..7 + take]);
            if p[7 + take..].iter().any(|b| *b != 0) {
                rep.violate("initialisation packet: padding is not zero", hex_short(&p[7 + take..]), case.clone());
            }
        } else {
            if p[4] != (i - 1) as u8 || p[4] & 0x80 != 0 {
                rep.violate("continuation packets are not numbered consecutively from 0", format!("packet {i} carries SEQ {}", p[4]), case.clone());
            }
            let remaining = len.saturating_sub(data.len());
            let take = remaining.min(59);
            data.extend_from_slice(&p[5..5 + take]);
            if p[5 + take..].iter().any(|b| *b != 0) {
                rep.violate("continuation packet: padding is not zero", format!("packet {i}: {}", hex_short(&p[5 + take..])), case.clone());
            }
        }
    }
    if data != payload {
        rep.violate("concatenated packet data differs from the payload", String::new(), case.clone());
    }
    if !matches!(cid, c if c == channel.to_ne_bytes() || c == channel.to_be_bytes() || c == channel.to_le_bytes()) {
        rep.violate("channel id bytes are not an encoding of the channel id", hex_short(cid), case.clone());
    }
    // the same message through a writer that holds what it is given until it is flushed (std's BufWriter,
    // a report-oriented device writer): once send has returned, every packet has left the writer
    if len % 7 == 0 || len < 130 {
        let r = catch(|| Message::new(channel, cmd, payload).map(|m| {
            let mut bw = std::io::BufWriter::with_capacity(1 << 17, Capture::default());
            let ok = m.send(&mut bw).is_ok();
            let out: Vec<u8> = bw.get_ref().writes.concat();
            // (dropping a BufWriter flushes it; what counts is what had come out when send returned)
            (ok, out)
        }));
        match r {
            Ok(Ok((true, out))) => {
                rep.count("sends_through_a_buffering_writer");
                let all: Vec<u8> = cap.writes.concat();
                if out != all {
                    rep.violate("after send returned, packets are still held back in a buffering writer", format!("{} of {} bytes had left the writer", out.len(), all.len()), case.clone());
                }
            }
            Ok(Ok((false, _))) | Ok(Err(_)) => rep.violate("send through a buffering writer fails although the same message was sent through a plain one", String::new(), case.clone()),
            Err((sig, d)) => rep.violate(&format!("sender {sig}"), d, case.clone()),
        }
    }
    Some(cap.writes)
}

/// Feed one message's packets to a fresh receiver: exactly one message, on the last packet.
fn receive_and_check(rep: &mut Report, channel: u32, cmd_idx: usize, payload: &[u8], packets: &[Vec<u8>], case: &Value) {
    let r = catch(|| {
        let mut h = ChannelHandler::default();
        let mut out: Vec<(usize, u32, u8, Vec<u8>)> = Vec::new();
        let mut resent: Option<(Vec<Vec<u8>>, bool)> = None;
        for (i, p) in packets.iter().enumerate() {
            if let Some(m) = h.handle_packet(p) {
                out.push((i, m.channel, m.command.encode() & 0x7f, m.payload.clone()));
                // the delivered message is itself a message the sender accepts (an echo, a relay)
                let mut c = Capture::default();
                let ok = m.send(&mut c).is_ok();
                resent = Some((c.writes, ok));
            }
        }
        // nothing may be left to deliver: stray continuations afterwards yield nothing, whatever their
        // sequence number (0, the next one after the finished message, the one after, its last)
        let n_cont = packets.len() as u8 - 1;
        let mut after = false;
        for seq in [0u8, n_cont, n_cont.wrapping_add(1) & 0x7f, n_cont.saturating_sub(1), 1] {
            for _ in 0..(packets.len().min(3)) {
                let mut stray = vec![0x5Au8; 64];
                stray[..4].copy_from_slice(&packets[0][..4]);
                stray[4] = seq & 0x7f;
                after |= h.handle_packet(&stray).is_some();
            }
        }
        (out, after, resent)
    });
    match r {
        Err((sig, d)) => rep.violate(&format!("receiver {sig}"), d, case.clone()),
        Ok((out, after, resent)) => {
            if let Some((w, ok)) = resent {
                rep.count("delivered_messages_sent_again");
                if !ok || w.as_slice() != packets {
                    let first = w.iter().zip(packets.iter()).position(|(a, b)| a != b);
                    rep.violate("a delivered message, sent again, is not written as the packets it arrived in", format!("send ok={ok}, {} packets vs {}, first differing packet {first:?}{}", w.len(), packets.len(), first.map(|i| format!(" (header {:02x?} vs {:02x?})", &w[i][..w[i].len().min(7)], &packets[i][..7])).unwrap_or_default()), case.clone());
                }
            }
            if out.len() != 1 {
                rep.violate("receiver did not deliver exactly one message", format!("{} deliveries at packets {:?}", out.len(), out.iter().map(|o| o.0).collect::<Vec<_>>()), case.clone());
            } else {
                let (at, ch, cmd, pl) = &out[0];
                if *at != packets.len() - 1 {
                    rep.violate("message not delivered on its last packet", format!("delivered at packet {at} of {}", packets.len()), case.clone());
                }
                if *ch != channel || *cmd != COMMANDS[cmd_idx].1 || pl != payload {
                    rep.violate("delivered message differs in channel, command or payload", format!("channel {ch:#x} vs {channel:#x}, command {cmd:#x}, payload {} vs {} bytes", pl.len(), payload.len()), case.clone());
                }
            }
            if after {
                rep.violate("a continuation packet for a channel with no message in progress yields a message", String::new(), case.clone());
            }
        }
    }
}

fn message_case(rep: &mut Report, channel: u32, cmd_idx: usize, payload: &[u8], idx: u64, tag: &str) {
    rep.eval();
    let case = json!({"index": idx, "kind": "message", "channel": channel, "command": COMMANDS[cmd_idx].1, "payload_len": payload.len(), "content": tag});
    if let Some(packets) = send_and_check(rep, channel, cmd_idx, payload, &case) {
        receive_and_check(rep, channel, cmd_idx, payload, &packets, &case);
        rep.count("messages_round_tripped");
        if packets.len() > 1 {
            rep.nontrivial(fnv(format!("{}|{cmd_idx}|{channel}", payload.len()).as_bytes()));
        }
        rep.sample_class(&format!("message/{}", if packets.len() > 1 { "multi" } else { "single" }), json!({"case": case, "packets": packets.len(), "first_packet": hex_short(&packets[0])}));
    }
}

struct Stream {
    channel: u32,
    cmd_idx: usize,
    payload: Vec<u8>,
    packets: Vec<Vec<u8>>,
}

fn run_merge(rep: &mut Report, streams: &[Stream], order: &[u8], stray_at: Option<usize>, case: &Value) {
    rep.eval();
    let r = catch(|| {
        let mut h = ChannelHandler::default();
        let mut pos = vec![0usize; streams.len()];
        let mut deliveries: Vec<(usize, usize, u32, u8, Vec<u8>)> = Vec::new(); // (stream, packet index, channel, cmd, payload)
        let mut stray_delivered = false;
        for (step, s) in order.iter().enumerate() {
            if stray_at == Some(step) {
                let mut stray = vec![0xEEu8; 64];
                stray[..4].copy_from_slice(&0x0BAD_F00Du32.to_ne_bytes());
                stray[4] = 0;
                stray_delivered |= h.handle_packet(&stray).is_some();
            }
            let s = usize::from(*s);
            let p = &streams[s].packets[pos[s]];
            if let Some(m) = h.handle_packet(p) {
                deliveries.push((s, pos[s], m.channel, m.command.encode() & 0x7f, m.payload.clone()));
            }
            pos[s] += 1;
        }
        (deliveries, stray_delivered)
    });
    match r {
        Err((sig, d)) => rep.violate(&format!("receiver (interleaved) {sig}"), d, case.clone()),
        Ok((deliveries, stray)) => {
            if stray {
                rep.violate("a continuation packet for an idle channel yields a message (interleaved)", String::new(), case.clone());
            }
            for (i, st) in streams.iter().enumerate() {
                let mine: Vec<_> = deliveries.iter().filter(|d| d.0 == i).collect();
                if mine.len() != 1 {
                    rep.violate("interleaving: a channel's message was not delivered exactly once", format!("channel {:#x}: {} deliveries", st.channel, mine.len()), case.clone());
                    continue;
                }
                let d = mine[0];
                if d.1 != st.packets.len() - 1 {
                    rep.violate("interleaving: message not delivered on its channel's last packet", String::new(), case.clone());
                }
                if d.2 != st.channel || d.3 != COMMANDS[st.cmd_idx].1 || d.4 != st.payload {
                    rep.violate("interleaving: another channel's packets affected a message", format!("channel {:#x}", st.channel), case.clone());
                }
            }
            rep.count("merges_checked");
        }
    }
}

/// A transfer is abandoned after k packets and a new message is sent on the same channel: the new
/// message is delivered exactly once, on its last packet, unaltered (while another channel transmits).
fn reuse_case(rep: &mut Report, seed: u64, idx: u64) {
    let mut rng = Rng::derive(seed, "c16r", idx);
    rep.eval();
    let channel = *rng.pick(&[1u32, 7, 0xFFFF_FFFF, 0x0102_0304]);
    let l1 = *rng.pick(&[58usize, 116, 117, 200, 500, 3000]);
    let l2 = *rng.pick(&[0usize, 1, 57, 58, 116, 200, 700]);
    let (c1, c2) = (rng.below(9), rng.below(9));
    let p1 = rng.bytes(l1);
    let p2 = rng.bytes(l2);
    let case = json!({"index": idx, "kind": "channel-reuse", "channel": channel, "abandoned": {"command": COMMANDS[c1].1, "payload_len": l1}, "new": {"command": COMMANDS[c2].1, "payload_len": l2}});
    let Some(old) = send_and_check(rep, channel, c1, &p1, &case) else { return };
    let Some(new) = send_and_check(rep, channel, c2, &p2, &case) else { return };
    let Some(other) = send_and_check(rep, channel ^ 0x55, 1, &[3u8; 130], &case) else { return };
    let cut = rng.range(1, old.len() - 1);
    let mut case = case;
    case["abandoned_after_packets"] = json!(cut);
    let r = catch(|| {
        let mut h = ChannelHandler::default();
        let mut out: Vec<(usize, u32, u8, Vec<u8>)> = Vec::new();
        let mut early = false;
        for p in &old[..cut] {
            early |= h.handle_packet(p).is_some();
        }
        let _ = h.handle_packet(&other[0]);
        for (i, p) in new.iter().enumerate() {
            if let Some(m) = h.handle_packet(p) {
                out.push((i, m.channel, m.command.encode() & 0x7f, m.payload.clone()));
            }
            if i == 0 {
                let _ = h.handle_packet(&other[1]);
            }
        }
        let other_done = h.handle_packet(&other[2]).map(|m| m.payload.len());
        (out, early, other_done)
    });
    match r {
        Err((sig, d)) => rep.violate(&format!("receiver (channel reuse) {sig}"), d, case),
        Ok((out, early, other_done)) => {
            if early {
                rep.violate("channel reuse: an unfinished transfer delivered a message", String::new(), case.clone());
            }
            if out.len() != 1 || out[0].0 != new.len() - 1 || out[0].1 != channel || out[0].2 != COMMANDS[c2].1 || out[0].3 != p2 {
                rep.violate("channel reuse: a message sent after an abandoned transfer on the same channel is not delivered exactly once, unaltered, on its last packet", format!("deliveries {:?}", out.iter().map(|o| (o.0, o.2, o.3.len())).collect::<Vec<_>>()), case.clone());
            }
            if other_done != Some(130) {
                rep.violate("channel reuse: another channel's message was affected", format!("{other_done:?}"), case.clone());
            }
            rep.count("channel_reuse_checked");
            rep.nontrivial(fnv(format!("reuse|{l1}|{l2}|{cut}|{channel}").as_bytes()));
        }
    }
}

/// One receiver kept for a whole session: 4-12 messages one after the other, drawn from a small pool so that a
/// message is often the very same as the one before it (a repeated KEEPALIVE, PING or CANCEL), on one or two
/// channels. Every one of them is delivered exactly once, on its last packet.
fn session_case(rep: &mut Report, seed: u64, idx: u64) {
    let mut rng = Rng::derive(seed, "c16s", idx);
    rep.eval();
    let channels = [*rng.pick(&[1u32, 7, 0xFFFF_FFFF, 0x0102_0304]), 0x0a0b_0c0d];
    let pool: Vec<(u32, usize, Vec<u8>)> = (0..3)
        .map(|_| {
            let len = *rng.pick(&[0usize, 1, 2, 17, 57, 57, 58, 116, 117, 300]);
            let content = match rng.below(3) {
                0 => vec![0u8; len],
                1 => vec![0xFF; len],
                _ => rng.bytes(len),
            };
            (channels[rng.below(2)], rng.below(9), content)
        })
        .collect();
    let n = rng.range(4, 12);
    let mut picks: Vec<usize> = Vec::new();
    for i in 0..n {
        if i > 0 && rng.bool() {
            picks.push(picks[i - 1]);
        } else {
            picks.push(rng.below(pool.len()));
        }
    }
    let case = json!({"index": idx, "kind": "session on one receiver", "pool": pool.iter().map(|(c, k, p)| json!({"channel": c, "command": COMMANDS[*k].1, "payload_len": p.len()})).collect::<Vec<_>>(), "sequence": picks});
    let mut packets: Vec<Vec<Vec<u8>>> = Vec::new();
    for (c, k, p) in &pool {
        let Some(pk) = send_and_check(rep, *c, *k, p, &case) else { return };
        packets.push(pk);
    }
    let r = catch(|| {
        let mut h = ChannelHandler::default();
        let mut out: Vec<Vec<(usize, u32, u8, Vec<u8>)>> = Vec::new();
        for &m in &picks {
            let mut got = Vec::new();
            for (i, p) in packets[m].iter().enumerate() {
                if let Some(msg) = h.handle_packet(p) {
                    got.push((i, msg.channel, msg.command.encode() & 0x7f, msg.payload.clone()));
                }
            }
            out.push(got);
        }
        out
    });
    match r {
        Err((sig, d)) => rep.violate(&format!("receiver (session) {sig}"), d, case),
        Ok(out) => {
            let mut repeats = 0u64;
            for (pos, (&m, got)) in picks.iter().zip(out.iter()).enumerate() {
                let (c, k, p) = &pool[m];
                if pos > 0 && picks[pos - 1] == m {
                    repeats += 1;
                }
                if got.len() != 1 || got[0].0 != packets[m].len() - 1 || got[0].1 != *c || got[0].2 != COMMANDS[*k].1 || got[0].3 != *p {
                    rep.violate(
                        "session: a message fed to a receiver that has received others before is not delivered exactly once, unaltered, on its last packet",
                        format!("message {pos} of the session ({} packets, {}the same as the one before): deliveries {:?}", packets[m].len(), if pos > 0 && picks[pos - 1] == m { "" } else { "not " }, got.iter().map(|o| (o.0, o.2, o.3.len())).collect::<Vec<_>>()),
                        case.clone(),
                    );
                    break;
                }
            }
            rep.count("sessions_checked");
            rep.count_n("session_messages", picks.len() as u64);
            rep.count_n("session_messages_identical_to_their_predecessor", repeats);
            rep.nontrivial(fnv(format!("session|{:?}|{:?}", pool.iter().map(|x| (x.0, x.1, x.2.len())).collect::<Vec<_>>(), picks).as_bytes()));
        }
    }
}

fn all_merges(counts: &[usize], cur: &mut Vec<u8>, left: &mut Vec<usize>, out: &mut Vec<Vec<u8>>, cap: usize) {
    if out.len() >= cap {
        return;
    }
    if left.iter().all(|l| *l == 0) {
        out.push(cur.clone());
        return;
    }
    for i in 0..counts.len() {
        if left[i] > 0 {
            left[i] -= 1;
            cur.push(i as u8);
            all_merges(counts, cur, left, out, cap);
            cur.pop();
            left[i] += 1;
        }
    }
}

fn interleave_case(rep: &mut Report, seed: u64, idx: u64, exhaustive_small: bool) {
    let mut rng = Rng::derive(seed, "c16i", idx);
    let n = rng.range(2, 4);
    let mut channels: Vec<u32> = vec![1, 2, 0xFFFF_FFFF, 0, 0x0100_0000, rng.next_u64() as u32];
    rng.shuffle(&mut channels);
    let mut streams = Vec::new();
    for k in 0..n {
        let len = if exhaustive_small { *rng.pick(&[0usize, 1, 57, 58, 100, 116, 117, 175]) } else { *rng.pick(&[0usize, 57, 58, 300, 1000, 3000, 7608]) };
        let payload = rng.bytes(len);
        let cmd_idx = rng.below(9);
        let channel = channels[k];
        let case = json!({"index": idx, "kind": "interleave-setup"});
        let Some(packets) = send_and_check(rep, channel, cmd_idx, &payload, &case) else { return };
        streams.push(Stream { channel, cmd_idx, payload, packets });
    }
    let counts: Vec<usize> = streams.iter().map(|s| s.packets.len()).collect();
    let total: usize = counts.iter().sum();
    let desc = json!({"index": idx, "kind": "interleaving", "streams": streams.iter().map(|s| json!({"channel": s.channel, "command": COMMANDS[s.cmd_idx].1, "payload_len": s.payload.len(), "packets": s.packets.len()})).collect::<Vec<_>>()});
    if exhaustive_small && total <= 10 {
        let mut out = Vec::new();
        // under the interpreter a merge costs seconds: a bounded prefix of the enumeration is enough there
        all_merges(&counts, &mut Vec::new(), &mut counts.clone(), &mut out, if cfg!(miri) { 60 } else { 30_000 });
        rep.count("exhaustive_merge_sets");
        for (k, order) in out.iter().enumerate() {
            let mut case = desc.clone();
            case["order"] = json!(order);
            run_merge(rep, &streams, order, if k % 7 == 0 { Some(k % total) } else { None }, &case);
            rep.nontrivial(fnv(&[order.as_slice(), &idx.to_le_bytes()].concat()));
        }
    } else {
        for k in 0..40 {
            let mut order: Vec<u8> = counts.iter().enumerate().flat_map(|(i, c)| std::iter::repeat(i as u8).take(*c)).collect();
            // random order-preserving merge = random shuffle of the stream labels
            rng.shuffle(&mut order);
            let mut case = desc.clone();
            case["order_hash"] = json!(fnv(&order));
            case["order_len"] = json!(order.len());
            run_merge(rep, &streams, &order, if k % 5 == 0 { Some(rng.below(total)) } else { None }, &case);
            rep.nontrivial(fnv(&[order.as_slice(), &idx.to_le_bytes()].concat()));
        }
    }
    rep.sample_class(if exhaustive_small && total <= 10 { "interleave/exhaustive" } else { "interleave/sampled" }, desc);
}

/// A writer that fails its k-th write once (EINTR and other transient errors are legal for a `Write`).
struct FaultyWriter {
    writes: Vec<Vec<u8>>,
    fail_at: usize,
    kind: std::io::ErrorKind,
    calls: usize,
}
impl std::io::Write for FaultyWriter {
    fn write(&mut self, buf: &[u8]) -> std::io::Result<usize> {
        let n = self.calls;
        self.calls += 1;
        if n == self.fail_at {
            return Err(std::io::Error::new(self.kind, "injected"));
        }
        self.writes.push(buf.to_vec());
        Ok(buf.len())
    }
    fn flush(&mut self) -> std::io::Result<()> {
        Ok(())
    }
}

/// The sender over a writer that fails once: `send` either reports the failure, or - having reported
/// success - has written the whole packet sequence.
fn faulty_writer_case(rep: &mut Report, seed: u64, idx: u64) {
    let mut rng = Rng::derive(seed, "c16w", idx);
    let len = *rng.pick(&[0usize, 1, 57, 58, 116, 117, 300, 1000]);
    let payload = rng.bytes(len);
    let channel = rng.next_u64() as u32;
    let cmd_idx = rng.below(9);
    let n_packets = expected_packets(len);
    let fail_at = rng.below(n_packets);
    let kind = *rng.pick(&[std::io::ErrorKind::Interrupted, std::io::ErrorKind::WouldBlock, std::io::ErrorKind::BrokenPipe, std::io::ErrorKind::TimedOut]);
    let case = json!({"index": idx, "kind": "writer fails once", "payload_len": len, "packets": n_packets, "failing_write": fail_at, "error_kind": format!("{kind:?}")});
    rep.eval();
    rep.nontrivial(fnv(format!("fw|{len}|{fail_at}|{kind:?}").as_bytes()));
    let reference = {
        let mut c = Capture::default();
        match Message::new(channel, COMMANDS[cmd_idx].0, &payload) {
            Ok(m) => {
                let _ = m.send(&mut c);
            }
            Err(_) => return,
        }
        c.writes
    };
    let r = catch(|| {
        let m = Message::new(channel, COMMANDS[cmd_idx].0, &payload).ok()?;
        let mut w = FaultyWriter { writes: Vec::new(), fail_at, kind, calls: 0 };
        let ok = m.send(&mut w).is_ok();
        Some((ok, w.writes))
    });
    match r {
        Err((sig, d)) => rep.violate(&format!("sender {sig}"), d, case),
        Ok(None) => {}
        Ok(Some((ok, writes))) => {
            rep.count("faulty_writer_cases");
            if ok && writes != reference {
                rep.violate("send reported success although the packet sequence it wrote is incomplete", format!("{} of {} packets written after a write failed once with {kind:?}", writes.len(), reference.len()), case.clone());
            }
            if !ok && !reference.starts_with(&writes) {
                rep.violate("send failed and what it had written is not a prefix of the message's packets", format!("{} writes", writes.len()), case);
            }
        }
    }
}

/// Many channels transmitting long messages at once (all initialisation packets first, then the
/// continuations round-robin or in a seeded order that keeps each channel's own order): every channel's
/// message is delivered, on its last packet.
fn many_channels_case(rep: &mut Report, seed: u64, idx: u64) {
    let mut rng = Rng::derive(seed, "c16many", idx);
    let (n, len) = *rng.pick(&[(9usize, 7608usize), (20, 3800), (12, 6000), (40, 2000), (64, 1100), (5, 7608), (30, 300)]);
    let case = json!({"index": idx, "part": "many channels at once", "channels": n, "payload_len": len});
    rep.eval();
    rep.nontrivial(fnv(format!("many|{n}|{len}|{idx}").as_bytes()));
    let mut streams: Vec<(u32, Vec<u8>, Vec<Vec<u8>>)> = Vec::new();
    for c in 0..n {
        let channel = 0x1000 + c as u32 * 7;
        let payload = rng.bytes(len.saturating_sub(c % 3));
        let Ok(m) = Message::new(channel, Command::Cbor, &payload) else {
            rep.violate("sender refuses a payload within the protocol maximum", format!("length {}", payload.len()), case.clone());
            return;
        };
        let mut cap = Capture::default();
        if m.send(&mut cap).is_err() {
            rep.violate("send fails on an infallible writer", String::new(), case.clone());
            return;
        }
        streams.push((channel, payload, cap.writes));
    }
    // order: every initialisation packet, then continuations; round-robin or seeded
    let mut order: Vec<(usize, usize)> = (0..n).map(|c| (c, 0)).collect();
    let mut next: Vec<usize> = vec![1; n];
    let round_robin = rng.bool();
    loop {
        let open: Vec<usize> = (0..n).filter(|c| next[*c] < streams[*c].2.len()).collect();
        if open.is_empty() {
            break;
        }
        if round_robin {
            for c in open {
                order.push((c, next[c]));
                next[c] += 1;
            }
        } else {
            let c = open[rng.below(open.len())];
            order.push((c, next[c]));
            next[c] += 1;
        }
    }
    let r = catch(|| {
        let mut h = ChannelHandler::default();
        let mut got: Vec<(usize, usize, u32, Vec<u8>)> = Vec::new();
        for (c, k) in &order {
            if let Some(m) = h.handle_packet(&streams[*c].2[*k]) {
                got.push((*c, *k, m.channel, m.payload.clone()));
            }
        }
        got
    });
    match r {
        Err((sig, d)) => rep.violate(&format!("receiver {sig}"), d, case),
        Ok(got) => {
            rep.count("many_channel_runs");
            for (c, (channel, payload, packets)) in streams.iter().enumerate() {
                let mine: Vec<_> = got.iter().filter(|g| g.2 == *channel).collect();
                if mine.len() != 1 {
                    rep.violate("with many channels transmitting at once, a channel's message was not delivered exactly once", format!("channel {c} of {n} ({} bytes each): {} deliveries", payload.len(), mine.len()), case.clone());
                    return;
                }
                if mine[0].1 != packets.len() - 1 || &mine[0].3 != payload {
                    rep.violate("with many channels transmitting at once, a message was delivered early or with another payload", format!("channel {c}: delivered at its packet {} of {}", mine[0].1, packets.len()), case.clone());
                    return;
                }
            }
        }
    }
}

/// The transfer pauses (an injected delay between two packets of one message, while another channel may
/// carry on): the statement does not know about time, the message is delivered all the same.
fn paused_transfer_case(rep: &mut Report, seed: u64, idx: u64, pause_ms: u64) {
    let mut rng = Rng::derive(seed, "c16pause", idx);
    let len = *rng.pick(&[58usize, 200, 1000]);
    let payload = rng.bytes(len);
    let other = rng.bytes(150);
    let case = json!({"index": idx, "part": "transfer pauses between two packets", "payload_len": len, "pause_ms": pause_ms});
    rep.eval();
    rep.nontrivial(fnv(format!("pause|{len}|{pause_ms}").as_bytes()));
    let packets = |ch: u32, p: &[u8]| -> Vec<Vec<u8>> {
        let mut cap = Capture::default();
        Message::new(ch, Command::Cbor, p).ok().map(|m| m.send(&mut cap));
        cap.writes
    };
    let a = packets(0x51, &payload);
    let b = packets(0x52, &other);
    let pause_at = 1 + rng.below(a.len() - 1);
    let r = catch(|| {
        let mut h = ChannelHandler::default();
        let mut delivered: Vec<(u32, Vec<u8>)> = Vec::new();
        let mut feed = |h: &mut ChannelHandler, p: &Vec<u8>, d: &mut Vec<(u32, Vec<u8>)>| {
            if let Some(m) = h.handle_packet(p) {
                d.push((m.channel, m.payload.clone()));
            }
        };
        feed(&mut h, &b[0], &mut delivered);
        for (i, p) in a.iter().enumerate() {
            if i == pause_at {
                std::thread::sleep(std::time::Duration::from_millis(pause_ms));
                // the other channel carries on after the pause
                for q in &b[1..] {
                    feed(&mut h, q, &mut delivered);
                }
            }
            feed(&mut h, p, &mut delivered);
        }
        delivered
    });
    match r {
        Err((sig, d)) => rep.violate(&format!("receiver {sig}"), d, case),
        Ok(d) => {
            rep.count("paused_transfers");
            if !d.contains(&(0x51, payload.clone())) || !d.contains(&(0x52, other.clone())) || d.len() != 2 {
                rep.violate("a transfer that paused between two packets was not delivered (or the other channel's was not)", format!("{} deliveries after a pause of {pause_ms} ms before packet {pause_at}", d.len()), case);
            }
        }
    }
}

pub fn run(args: &Args) -> Report {
    let mut rep = Report::new(
        "C16",
        &args.tier,
        args.seed,
        "messages of every payload length (thorough: all of 0..7610 plus 65535/65536; quick: all boundary lengths and a seeded sample) x 9 commands x channels {0, 1, 0xFFFFFFFF, random} x contents {random, 0x00, 0xFF} sent through Message::send into a capturing writer and parsed by an own packet parser, then fed to ChannelHandler; 2-4 channels interleaved: all order-preserving merges when the streams total <= 10 packets, seeded merges otherwise, with stray continuation packets injected; 5-64 channels transmitting messages of 300-7608 bytes at once; transfers that pause for 0.7-6 s between two packets; sessions of 4-12 messages on one receiver in which a message is often identical to its predecessor; distinct by (length, command, channel) resp. hash of the merge order; non-trivial when the message spans more than one packet or at least two channels are interleaved",
    );
    rep.assumptions.push("the byte order of the 4 channel-id bytes is left open by the specification: only 'same in every packet and decoded to the same channel' is demanded".into());
    rep.assumptions.push("Message::new refuses exactly 7609 bytes (it counts one continuation packet too many when the remainder is a multiple of 59); the statement speaks of accepted messages and of lengths above 7609, so this is recorded, not judged".into());
    let miri = args.engine.as_deref() == Some("miri");
    let only = replay_index(args);
    let mut rng = Rng::derive(args.seed, "c16", 0);
    let mut lengths: Vec<usize> = Vec::new();
    if miri {
        lengths = vec![0, 1, 56, 57, 58, 115, 116, 117, 175, 176, 500, 7608, 7609, 7610];
    } else if args.thorough() {
        lengths.extend(0..=7610);
        lengths.extend([65_535, 65_536, 100_000]);
    } else {
        lengths.extend([0, 1, 2, 55, 56, 57, 58, 59, 60, 114, 115, 116, 117, 118, 174, 175, 176]);
        for k in 1..=128usize {
            for d in [-1i64, 0, 1] {
                let v = 57 + 59 * k as i64 + d;
                if v >= 0 {
                    lengths.push(v as usize);
                }
            }
        }
        lengths.extend(7550..=7611);
        lengths.extend([8000, 65_535, 65_536, 100_000]);
        for _ in 0..args.size(300, 300) {
            lengths.push(rng.below(7609));
        }
    }
    let shard: u64 = args.get("shard").and_then(|s| s.parse().ok()).unwrap_or(0);
    let shards: u64 = args.get("shards").and_then(|s| s.parse().ok()).unwrap_or(1);
    let mut idx = 0u64;
    for len in &lengths {
        // each length: a seeded command/channel/content; boundary lengths get all 9 commands
        let boundary = *len <= 176 || *len >= 7550;
        let cmds: Vec<usize> = if boundary && !miri { (0..9).collect() } else { vec![rng.below(9)] };
        for cmd_idx in cmds {
            idx += 1;
            if idx % shards != shard {
                continue;
            }
            if only.map_or(false, |o| o != idx) {
                continue;
            }
            let mut r2 = Rng::derive(args.seed, "c16m", idx);
            let channel = *r2.pick(&[0u32, 1, 0xFFFF_FFFF, 0x0102_0304, r2.clone().next_u64() as u32]);
            let (tag, payload) = match r2.below(4) {
                0 => ("0x00", vec![0u8; *len]),
                1 => ("0xFF", vec![0xFFu8; *len]),
                _ => ("random", r2.bytes(*len)),
            };
            message_case(&mut rep, channel, cmd_idx, &payload, idx, tag);
        }
    }
    let n_inter = if miri { 2 } else { args.size(120, 4000) } as u64;
    for k in 0..n_inter {
        let idx = 10_000_000 + k;
        if k % shards != shard {
            continue;
        }
        if only.map_or(true, |o| o == idx) {
            interleave_case(&mut rep, args.seed, idx, k % 2 == 0);
        }
    }
    if !miri {
        for k in 0..args.size(200, 3000) as u64 {
            let idx = 30_000_000 + k;
            if only.map_or(true, |o| o == idx) {
                faulty_writer_case(&mut rep, args.seed, idx);
            }
        }
        for k in 0..args.size(300, 6000) as u64 {
            let idx = 20_000_000 + k;
            if only.map_or(true, |o| o == idx) {
                reuse_case(&mut rep, args.seed, idx);
            }
        }
        for k in 0..args.size(400, 8000) as u64 {
            let idx = 60_000_000 + k;
            if only.map_or(true, |o| o == idx) {
                session_case(&mut rep, args.seed, idx);
            }
        }
        for k in 0..args.size(10, 60) as u64 {
            let idx = 40_000_000 + k;
            if only.map_or(true, |o| o == idx) {
                many_channels_case(&mut rep, args.seed, idx);
            }
        }
        // injected delays: 0.7 s and 1.2 s in the quick tier; up to 6 s in the thorough one
        let pauses: &[u64] = if args.thorough() { &[700, 1200, 2500, 6000] } else { &[700, 1200] };
        for (k, ms) in pauses.iter().enumerate() {
            let idx = 50_000_000 + k as u64;
            if only.map_or(true, |o| o == idx) {
                paused_transfer_case(&mut rep, args.seed, idx, *ms);
            }
        }
    }
    rep.obs("lengths_covered", json!(lengths.len()));
    rep.exhaustive = args.thorough() && !miri;
    if rep.exhaustive {
        rep.obs("exhaustive_over", json!("all payload lengths 0..=7610 (command, channel and contents seeded); all merges of streams totalling <= 10 packets for the generated stream sets"));
    }
    if only.is_none() && !miri && (rep.get("messages_round_tripped") == 0 || rep.get("merges_checked") == 0 || rep.get("refused_above_maximum") == 0) {
        rep.inconclusive("round trips, merges or refusals above the maximum were not observed".into());
    }
    rep
}
