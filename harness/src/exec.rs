//! Executors: block_on with a step cap, step-and-cancel, poll-order scheduler (seeded or DFS),
//! and a thread-parking block_on for native/TSan/Miri thread runs.

use std::{
    future::Future,
    pin::Pin,
    sync::{
        atomic::{AtomicBool, AtomicUsize, Ordering},
        Arc,
    },
    task::{Context, Poll, Wake, Waker},
};

pub struct FlagWaker {
    pub woken: AtomicBool,
    pub wakes: AtomicUsize,
}

impl Wake for FlagWaker {
    fn wake(self: Arc<Self>) {
        self.woken.store(true, Ordering::SeqCst);
        self.wakes.fetch_add(1, Ordering::SeqCst);
    }
    fn wake_by_ref(self: &Arc<Self>) {
        self.woken.store(true, Ordering::SeqCst);
        self.wakes.fetch_add(1, Ordering::SeqCst);
    }
}

pub fn flag_waker() -> (Arc<FlagWaker>, Waker) {
    let f = Arc::new(FlagWaker { woken: AtomicBool::new(true), wakes: AtomicUsize::new(0) });
    let w = Waker::from(f.clone());
    (f, w)
}

#[derive(Debug)]
pub enum BlockErr {
    /// future returned Pending without arranging a wake-up: nothing can ever resume it
    Stuck { polls: usize },
    StepCap { polls: usize },
}

/// Drive one future on this thread. Returns the value and the number of polls.
pub fn block_on_counted<F: Future>(fut: F, cap: usize) -> Result<(F::Output, usize), BlockErr> {
    let mut fut = Box::pin(fut);
    let (flag, waker) = flag_waker();
    let mut cx = Context::from_waker(&waker);
    let mut polls = 0;
    loop {
        if !flag.woken.swap(false, Ordering::SeqCst) {
            return Err(BlockErr::Stuck { polls });
        }
        polls += 1;
        if let Poll::Ready(v) = fut.as_mut().poll(&mut cx) {
            return Ok((v, polls));
        }
        if polls >= cap {
            return Err(BlockErr::StepCap { polls });
        }
    }
}

pub fn block_on<F: Future>(fut: F) -> F::Output {
    match block_on_counted(fut, 1_000_000) {
        Ok((v, _)) => v,
        Err(e) => panic!("harness: block_on could not finish a future: {e:?}"),
    }
}

/// Poll exactly `n` times (or until Ready), then drop the future: cancellation after `n` resumptions.
pub fn poll_n_then_drop<F: Future>(fut: F, n: usize) -> Option<F::Output> {
    let mut fut = Box::pin(fut);
    let (_flag, waker) = flag_waker();
    let mut cx = Context::from_waker(&waker);
    for _ in 0..n {
        if let Poll::Ready(v) = fut.as_mut().poll(&mut cx) {
            return Some(v);
        }
    }
    drop(fut);
    None
}

// ---------------------------------------------------------------------------------------------
// Poll-order scheduler
// ---------------------------------------------------------------------------------------------

pub type BoxFut<'a, T> = Pin<Box<dyn Future<Output = T> + 'a>>;

#[derive(Debug, Clone, PartialEq)]
pub enum SchedEnd {
    AllDone,
    Deadlock { unfinished: Vec<usize> },
    StepCap,
}

pub struct SchedResult<T> {
    pub outputs: Vec<Option<T>>,
    /// the task index polled at each step
    pub schedule: Vec<u8>,
    /// number of runnable tasks at each step (the branching factor)
    pub branching: Vec<u8>,
    /// index into the runnable set chosen at each step
    pub choices: Vec<u8>,
    pub end: SchedEnd,
}

/// Run `tasks` to completion, choosing the next task to poll among the runnable ones with
/// `choose(step, n_runnable) -> index`. A task is runnable when its waker has fired since its last poll.
pub fn run_schedule<'a, T>(
    tasks: Vec<BoxFut<'a, T>>,
    mut choose: impl FnMut(usize, usize) -> usize,
    cap: usize,
) -> SchedResult<T> {
    let n = tasks.len();
    let mut tasks: Vec<Option<BoxFut<'a, T>>> = tasks.into_iter().map(Some).collect();
    let wakers: Vec<(Arc<FlagWaker>, Waker)> = (0..n).map(|_| flag_waker()).collect();
    let mut outputs: Vec<Option<T>> = (0..n).map(|_| None).collect();
    let mut schedule = Vec::new();
    let mut branching = Vec::new();
    let mut choices = Vec::new();
    let mut step = 0usize;
    loop {
        let unfinished: Vec<usize> = (0..n).filter(|i| tasks[*i].is_some()).collect();
        if unfinished.is_empty() {
            return SchedResult { outputs, schedule, branching, choices, end: SchedEnd::AllDone };
        }
        let runnable: Vec<usize> = unfinished
            .iter()
            .copied()
            .filter(|i| wakers[*i].0.woken.load(Ordering::SeqCst))
            .collect();
        if runnable.is_empty() {
            return SchedResult { outputs, schedule, branching, choices, end: SchedEnd::Deadlock { unfinished } };
        }
        if step >= cap {
            return SchedResult { outputs, schedule, branching, choices, end: SchedEnd::StepCap };
        }
        let c = choose(step, runnable.len()).min(runnable.len() - 1);
        let t = runnable[c];
        schedule.push(t as u8);
        branching.push(runnable.len() as u8);
        choices.push(c as u8);
        wakers[t].0.woken.store(false, Ordering::SeqCst);
        let mut cx = Context::from_waker(&wakers[t].1);
        let fut = tasks[t].as_mut().unwrap();
        if let Poll::Ready(v) = fut.as_mut().poll(&mut cx) {
            outputs[t] = Some(v);
            tasks[t] = None;
        }
        step += 1;
    }
}

/// Stateless DFS over all choice sequences. `run(prefix)` must re-create the configuration and run it
/// with `choices[i]` (or 0 beyond the prefix); it returns the branching vector actually seen.
/// Calls `visit` for every complete schedule. Stops after `max_runs`. Returns (runs, complete?).
pub fn dfs_schedules(
    mut run: impl FnMut(&[u8]) -> Vec<u8>,
    max_runs: usize,
) -> (usize, bool) {
    let mut prefix: Vec<u8> = Vec::new();
    let mut runs = 0;
    loop {
        let branching = run(&prefix);
        runs += 1;
        // the full choice vector for this run: prefix then zeros
        let mut full: Vec<u8> = prefix.clone();
        full.resize(branching.len(), 0);
        // find the last position that can be incremented
        let mut i = full.len();
        let mut found = false;
        while i > 0 {
            i -= 1;
            if full[i] + 1 < branching[i] {
                full[i] += 1;
                full.truncate(i + 1);
                found = true;
                break;
            }
        }
        if !found {
            return (runs, true);
        }
        if runs >= max_runs {
            return (runs, false);
        }
        prefix = full;
    }
}

// ---------------------------------------------------------------------------------------------
// Thread executor: park/unpark waker
// ---------------------------------------------------------------------------------------------

struct ThreadWaker(std::thread::Thread, AtomicBool);
impl Wake for ThreadWaker {
    fn wake(self: Arc<Self>) {
        self.1.store(true, Ordering::SeqCst);
        self.0.unpark();
    }
    fn wake_by_ref(self: &Arc<Self>) {
        self.1.store(true, Ordering::SeqCst);
        self.0.unpark();
    }
}

/// Block the current OS thread on a future (used by the native / TSan / Miri thread engines).
/// Returns None when the future is still pending after `max_parks` park timeouts without a wake
/// (reported as a suspected deadlock; decided on logical progress, not wall time).
pub fn block_on_thread<F: Future>(fut: F, max_idle_parks: usize) -> Option<F::Output> {
    let mut fut = Box::pin(fut);
    let tw = Arc::new(ThreadWaker(std::thread::current(), AtomicBool::new(true)));
    let waker = Waker::from(tw.clone());
    let mut cx = Context::from_waker(&waker);
    let mut idle = 0;
    loop {
        if tw.1.swap(false, Ordering::SeqCst) {
            idle = 0;
            if let Poll::Ready(v) = fut.as_mut().poll(&mut cx) {
                return Some(v);
            }
        } else {
            idle += 1;
            if idle > max_idle_parks {
                return None;
            }
            std::thread::park_timeout(std::time::Duration::from_millis(50));
        }
    }
}
