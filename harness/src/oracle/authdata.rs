//! Own authenticator-data codec written from WebAuthn §6.1 (not from the repository's code).

use ciborium::value::Value as Cbor;

#[derive(Clone, Debug, PartialEq)]
pub struct RefAttested {
    pub aaguid: [u8; 16],
    pub cred_id: Vec<u8>,
    pub key: Cbor,
    pub key_bytes: Vec<u8>,
}

#[derive(Clone, Debug, PartialEq)]
pub struct RefAuthData {
    pub rp_id_hash: [u8; 32],
    pub flags: u8,
    pub counter: u32,
    pub attested: Option<RefAttested>,
    pub extensions: Option<Cbor>,
    pub ext_bytes: Option<Vec<u8>>,
    pub trailing: usize,
}

pub const UP: u8 = 0x01;
pub const UV: u8 = 0x04;
pub const BE: u8 = 0x08;
pub const BS: u8 = 0x10;
pub const AT: u8 = 0x40;
pub const ED: u8 = 0x80;
pub const RESERVED: u8 = 0x02 | 0x20;

#[derive(Clone, Debug, PartialEq)]
pub enum Reject {
    TooShort,
    ReservedBits,
    AttestedTruncated,
    AttestedKeyInvalid,
    ExtensionsMissingOrTruncated,
}

/// One CBOR item from the front of `bytes`: returns (value, consumed).
fn take_cbor(bytes: &[u8]) -> Option<(Cbor, usize)> {
    let mut cur = std::io::Cursor::new(bytes);
    let v: Cbor = ciborium::de::from_reader(&mut cur).ok()?;
    Some((v, cur.position() as usize))
}

pub fn decode(b: &[u8]) -> Result<RefAuthData, Reject> {
    if b.len() < 37 {
        return Err(Reject::TooShort);
    }
    let mut rp = [0u8; 32];
    rp.copy_from_slice(&b[..32]);
    let flags = b[32];
    if flags & RESERVED != 0 {
        return Err(Reject::ReservedBits);
    }
    let counter = u32::from_be_bytes([b[33], b[34], b[35], b[36]]);
    let mut rest = &b[37..];
    let mut attested = None;
    if flags & AT != 0 {
        if rest.len() < 18 {
            return Err(Reject::AttestedTruncated);
        }
        let mut aaguid = [0u8; 16];
        aaguid.copy_from_slice(&rest[..16]);
        let l = usize::from(u16::from_be_bytes([rest[16], rest[17]]));
        rest = &rest[18..];
        if rest.len() < l {
            return Err(Reject::AttestedTruncated);
        }
        let cred_id = rest[..l].to_vec();
        rest = &rest[l..];
        let (key, used) = take_cbor(rest).ok_or(Reject::AttestedTruncated)?;
        if !key.is_map() {
            return Err(Reject::AttestedKeyInvalid);
        }
        let key_bytes = rest[..used].to_vec();
        rest = &rest[used..];
        attested = Some(RefAttested { aaguid, cred_id, key, key_bytes });
    }
    let mut extensions = None;
    let mut ext_bytes = None;
    if flags & ED != 0 {
        let (ext, used) = take_cbor(rest).ok_or(Reject::ExtensionsMissingOrTruncated)?;
        ext_bytes = Some(rest[..used].to_vec());
        rest = &rest[used..];
        extensions = Some(ext);
    }
    Ok(RefAuthData { rp_id_hash: rp, flags, counter, attested, extensions, ext_bytes, trailing: rest.len() })
}

/// Layout computed from fields: rpIdHash || flags || counter_be || [aaguid || len_be || id || key] || [ext]
pub fn encode(
    rp_id_hash: &[u8; 32],
    flags: u8,
    counter: u32,
    attested: Option<(&[u8; 16], &[u8], &[u8])>,
    ext: Option<&[u8]>,
) -> Vec<u8> {
    let mut out = Vec::new();
    out.extend_from_slice(rp_id_hash);
    out.push(flags);
    out.extend_from_slice(&counter.to_be_bytes());
    if let Some((aaguid, id, key)) = attested {
        out.extend_from_slice(aaguid);
        out.extend_from_slice(&(id.len() as u16).to_be_bytes());
        out.extend_from_slice(id);
        out.extend_from_slice(key);
    }
    if let Some(e) = ext {
        out.extend_from_slice(e);
    }
    out
}
