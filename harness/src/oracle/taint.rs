//! Taint scanner: does a rendered value contain a secret in raw, hex, decimal-list, base64 or
//! base64url form, possibly nested inside CBOR byte strings, JSON strings or Debug text?

use ciborium::value::Value as Cbor;
use serde_json::Value as Json;

use super::{b64_decode_any, b64std, b64url};

pub struct Secret {
    pub name: String,
    pub bytes: Vec<u8>,
    needles: Vec<(String, Vec<u8>)>,
}

impl Secret {
    pub fn new(name: &str, bytes: &[u8]) -> Secret {
        let mut needles: Vec<(String, Vec<u8>)> = Vec::new();
        needles.push(("raw".into(), bytes.to_vec()));
        let hex = crate::report::hex(bytes);
        needles.push(("hex".into(), hex.clone().into_bytes()));
        needles.push(("HEX".into(), hex.to_ascii_uppercase().into_bytes()));
        for i in 0..3 {
            if bytes.len() > i + 6 {
                for (nm, enc) in [("base64url", b64url(&bytes[i..])), ("base64", b64std(&bytes[i..]))] {
                    // the last characters depend on what follows the secret: drop them
                    let keep = enc.len().saturating_sub(3);
                    needles.push((format!("{nm}@{i}"), enc.as_bytes()[..keep].to_vec()));
                }
            }
        }
        let dec: Vec<String> = bytes.iter().map(|b| b.to_string()).collect();
        needles.push(("decimal-list".into(), dec.join(",").into_bytes()));
        Secret { name: name.to_string(), bytes: bytes.to_vec(), needles }
    }
}

fn find(hay: &[u8], needle: &[u8]) -> bool {
    if needle.is_empty() || hay.len() < needle.len() {
        return false;
    }
    let first = needle[0];
    let last = hay.len() - needle.len();
    let mut i = 0;
    while i <= last {
        match hay[i..=last].iter().position(|b| *b == first) {
            None => return false,
            Some(p) => {
                i += p;
                if &hay[i..i + needle.len()] == needle {
                    return true;
                }
                i += 1;
            }
        }
    }
    false
}

#[derive(Default)]
pub struct ScanStats {
    pub buffers: usize,
    pub long_byte_strings: usize,
    pub decoded_layers: usize,
}

pub struct Scanner<'a> {
    pub secrets: &'a [Secret],
    pub stats: ScanStats,
    pub hit: Option<String>,
}

impl<'a> Scanner<'a> {
    pub fn new(secrets: &'a [Secret]) -> Self {
        Scanner { secrets, stats: ScanStats::default(), hit: None }
    }

    fn search(&mut self, buf: &[u8], path: &str) {
        self.stats.buffers += 1;
        if buf.len() >= 32 {
            self.stats.long_byte_strings += 1;
        }
        // whitespace-free copy for decimal lists ("1, 2, 3" and "1,2,3" and one-per-line Debug)
        let compact: Vec<u8> = buf.iter().copied().filter(|b| !b.is_ascii_whitespace()).collect();
        for s in self.secrets {
            for (form, n) in &s.needles {
                let hit = if form == "decimal-list" { find(&compact, n) } else { find(buf, n) };
                if hit && self.hit.is_none() {
                    self.hit = Some(format!("{} found in {form} form at {path}", s.name));
                }
            }
        }
    }

    /// Scan a buffer and everything that can be decoded out of it.
    pub fn scan(&mut self, buf: &[u8], path: &str, depth: usize) {
        self.search(buf, path);
        if depth == 0 || buf.len() < 16 {
            return;
        }
        // CBOR?
        if let Ok(v) = ciborium::de::from_reader::<Cbor, _>(buf) {
            if !matches!(v, Cbor::Integer(_) | Cbor::Bool(_) | Cbor::Null) {
                self.stats.decoded_layers += 1;
                self.walk_cbor(&v, &format!("{path}/cbor"), depth - 1);
            }
        }
        // text?
        if let Ok(t) = std::str::from_utf8(buf) {
            if let Ok(j) = serde_json::from_str::<Json>(t) {
                if j.is_object() || j.is_array() {
                    self.stats.decoded_layers += 1;
                    self.walk_json(&j, &format!("{path}/json"), depth - 1);
                }
            }
            self.text_runs(t, path, depth - 1);
        }
    }

    fn walk_cbor(&mut self, v: &Cbor, path: &str, depth: usize) {
        match v {
            Cbor::Bytes(b) => self.scan(b, &format!("{path}/bytes"), depth),
            Cbor::Text(t) => self.string(t, &format!("{path}/text"), depth),
            Cbor::Array(a) => {
                if a.len() >= 16 && a.iter().all(|x| x.as_integer().map_or(false, |i| (0..=255).contains(&i128::from(i)))) {
                    let bytes: Vec<u8> = a.iter().map(|x| i128::from(x.as_integer().unwrap()) as u8).collect();
                    self.scan(&bytes, &format!("{path}/int-array"), depth);
                }
                for (i, x) in a.iter().enumerate() {
                    self.walk_cbor(x, &format!("{path}[{i}]"), depth);
                }
            }
            Cbor::Map(m) => {
                for (k, x) in m {
                    self.walk_cbor(k, &format!("{path}.key"), depth);
                    self.walk_cbor(x, &format!("{path}.{}", cbor_key(k)), depth);
                }
            }
            Cbor::Tag(_, inner) => self.walk_cbor(inner, path, depth),
            _ => {}
        }
    }

    fn walk_json(&mut self, v: &Json, path: &str, depth: usize) {
        match v {
            Json::String(s) => self.string(s, path, depth),
            Json::Array(a) => {
                if a.len() >= 16 && a.iter().all(|x| x.as_u64().map_or(false, |n| n <= 255)) {
                    let bytes: Vec<u8> = a.iter().map(|x| x.as_u64().unwrap() as u8).collect();
                    self.scan(&bytes, &format!("{path}/int-array"), depth);
                } else {
                    for (i, x) in a.iter().enumerate() {
                        self.walk_json(x, &format!("{path}[{i}]"), depth);
                    }
                }
            }
            Json::Object(m) => {
                for (k, x) in m {
                    self.string(k, &format!("{path}.key"), depth);
                    self.walk_json(x, &format!("{path}.{k}"), depth);
                }
            }
            _ => {}
        }
    }

    fn string(&mut self, s: &str, path: &str, depth: usize) {
        self.search(s.as_bytes(), path);
        if depth == 0 || s.len() < 16 {
            return;
        }
        if let Some(b) = b64_decode_any(s) {
            self.stats.decoded_layers += 1;
            self.scan(&b, &format!("{path}/b64"), depth - 1);
        }
        if s.len() % 2 == 0 && s.bytes().all(|c| c.is_ascii_hexdigit()) {
            self.scan(&crate::report::unhex(s), &format!("{path}/hex"), depth - 1);
        }
    }

    /// Debug-style text: lists of small integers, long hex runs, quoted base64 runs.
    fn text_runs(&mut self, t: &str, path: &str, depth: usize) {
        let b = t.as_bytes();
        // integer lists
        let mut i = 0;
        while i < b.len() {
            if b[i] == b'[' {
                let mut j = i + 1;
                let mut vals: Vec<u8> = Vec::new();
                let mut cur: Option<u32> = None;
                let mut ok = true;
                while j < b.len() && b[j] != b']' {
                    let c = b[j];
                    if c.is_ascii_digit() {
                        cur = Some(cur.unwrap_or(0) * 10 + u32::from(c - b'0'));
                        if cur.unwrap() > 255 {
                            ok = false;
                            break;
                        }
                    } else if c == b',' || c.is_ascii_whitespace() {
                        if let Some(v) = cur.take() {
                            vals.push(v as u8);
                        }
                    } else {
                        ok = false;
                        break;
                    }
                    j += 1;
                }
                if ok && j < b.len() {
                    if let Some(v) = cur.take() {
                        vals.push(v as u8);
                    }
                    if vals.len() >= 16 {
                        self.stats.decoded_layers += 1;
                        self.scan(&vals, &format!("{path}/debug-int-list"), depth);
                    }
                    i = j;
                }
            }
            i += 1;
        }
        // hex / base64 runs
        let mut start = None;
        for (k, c) in b.iter().enumerate().chain(std::iter::once((b.len(), &b' '))) {
            let is_tok = c.is_ascii_alphanumeric() || *c == b'-' || *c == b'_' || *c == b'+' || *c == b'/' || *c == b'=';
            match (start, is_tok) {
                (None, true) => start = Some(k),
                (Some(s), false) => {
                    let tok = &t[s..k];
                    if tok.len() >= 24 && tok.len() < t.len() {
                        if tok.len() % 2 == 0 && tok.bytes().all(|c| c.is_ascii_hexdigit()) {
                            self.scan(&crate::report::unhex(tok), &format!("{path}/hex-run"), depth);
                        } else if let Some(d) = b64_decode_any(tok) {
                            self.scan(&d, &format!("{path}/b64-run"), depth);
                        }
                    }
                    start = None;
                }
                _ => {}
            }
        }
    }
}

fn cbor_key(k: &Cbor) -> String {
    match k {
        Cbor::Integer(i) => i128::from(*i).to_string(),
        Cbor::Text(t) => t.clone(),
        _ => "?".into(),
    }
}

/// Self-test: the scanner must find a planted secret in every form it claims to handle.
pub fn self_test() -> Result<usize, String> {
    let secret: Vec<u8> = (0..32u8).map(|i| i.wrapping_mul(37).wrapping_add(11)).collect();
    let secrets = vec![Secret::new("planted", &secret)];
    let mut forms: Vec<(String, Vec<u8>)> = Vec::new();
    let pad = |pre: usize| -> Vec<u8> {
        let mut v = vec![0xEEu8; pre];
        v.extend_from_slice(&secret);
        v.extend_from_slice(&[0x77; 5]);
        v
    };
    forms.push(("raw".into(), pad(3)));
    forms.push(("hex".into(), format!("key={}", crate::report::hex(&secret)).into_bytes()));
    for pre in 0..3 {
        forms.push((format!("b64url+{pre}"), format!("\"{}\"", b64url(&pad(pre))).into_bytes()));
        forms.push((format!("b64+{pre}"), format!("\"{}\"", b64std(&pad(pre))).into_bytes()));
    }
    forms.push(("json-int-array".into(), serde_json::to_vec(&serde_json::json!({"a": {"b": pad(2)}})).unwrap()));
    forms.push(("json-b64-string".into(), serde_json::to_vec(&serde_json::json!({"a": [b64url(&pad(1))]})).unwrap()));
    forms.push(("debug-list".into(), format!("Foo {{ d: {:?} }}", pad(0)).into_bytes()));
    forms.push(("debug-pretty".into(), format!("{:#?}", pad(0)).into_bytes()));
    // nested cbor: map -> bytes(authdata-like: prefix || cbor map with bytes)
    let inner = Cbor::Map(vec![(Cbor::Integer(1.into()), Cbor::Integer(2.into())), (Cbor::Integer((-4).into()), Cbor::Bytes(secret.clone()))]);
    let mut inner_bytes = vec![0u8; 55];
    ciborium::ser::into_writer(&inner, &mut inner_bytes).unwrap();
    let outer = Cbor::Map(vec![(Cbor::Integer(2.into()), Cbor::Bytes(inner_bytes.clone()))]);
    let mut outer_bytes = Vec::new();
    ciborium::ser::into_writer(&outer, &mut outer_bytes).unwrap();
    forms.push(("cbor-nested".into(), outer_bytes));
    // json -> int array -> cbor
    forms.push(("json-array-of-cbor".into(), serde_json::to_vec(&serde_json::json!({"attestationObject": inner_bytes})).unwrap()));
    // json -> b64 -> bytes containing hex text
    forms.push(("json-b64-of-hex".into(), serde_json::to_vec(&serde_json::json!({"x": b64url(crate::report::hex(&secret).as_bytes())})).unwrap()));
    for (name, buf) in &forms {
        let mut sc = Scanner::new(&secrets);
        sc.scan(buf, name, 5);
        if sc.hit.is_none() {
            return Err(format!("scanner self-test: planted secret not found in form {name}"));
        }
    }
    // and no hit on clean data
    let mut sc = Scanner::new(&secrets);
    sc.scan(&vec![0x42u8; 300], "clean", 5);
    if sc.hit.is_some() {
        return Err("scanner self-test: hit on clean data".into());
    }
    Ok(forms.len())
}
