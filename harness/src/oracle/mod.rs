//! Independent reference computations. Nothing in here calls the repository's own helpers
//! (passkey_types::encoding / crypto / AuthenticatorData::from_slice ...): a change to those
//! helpers must stay visible. Third-party crates (sha2, hmac, p256, ciborium, serde_json, idna)
//! are the trusted base.

pub mod authdata;
pub mod psl;
pub mod taint;

use ciborium::value::Value as Cbor;
use hmac::{Hmac, Mac};
use p256::ecdsa::{signature::Verifier, Signature, VerifyingKey};
use sha2::{Digest, Sha256};

pub fn sha256(data: &[u8]) -> [u8; 32] {
    Sha256::digest(data).into()
}

pub fn hmac_sha256(key: &[u8], data: &[u8]) -> [u8; 32] {
    let mut mac = Hmac::<Sha256>::new_from_slice(key).expect("any key size");
    mac.update(data);
    mac.finalize().into_bytes().into()
}

const B64URL: &[u8; 64] = b"ABCDEFGHIJKLMNOPQRSTUVWXYZabcdefghijklmnopqrstuvwxyz0123456789-_";
const B64STD: &[u8; 64] = b"ABCDEFGHIJKLMNOPQRSTUVWXYZabcdefghijklmnopqrstuvwxyz0123456789+/";

fn b64_with(alpha: &[u8; 64], data: &[u8], pad: bool) -> String {
    let mut out = String::with_capacity(data.len().div_ceil(3) * 4);
    for chunk in data.chunks(3) {
        let b = [chunk[0], *chunk.get(1).unwrap_or(&0), *chunk.get(2).unwrap_or(&0)];
        let n = (u32::from(b[0]) << 16) | (u32::from(b[1]) << 8) | u32::from(b[2]);
        out.push(char::from(alpha[((n >> 18) & 63) as usize]));
        out.push(char::from(alpha[((n >> 12) & 63) as usize]));
        if chunk.len() > 1 {
            out.push(char::from(alpha[((n >> 6) & 63) as usize]));
        } else if pad {
            out.push('=');
        }
        if chunk.len() > 2 {
            out.push(char::from(alpha[(n & 63) as usize]));
        } else if pad {
            out.push('=');
        }
    }
    out
}

/// RFC 4648 §5 base64url without padding (own implementation).
pub fn b64url(data: &[u8]) -> String {
    b64_with(B64URL, data, false)
}
/// base64url text of `bytes` that is not the canonical encoding: the unused low bits of the last symbol
/// are set (possible when the length is not a multiple of 3); decoders that follow RFC 4648 §3.5
/// leniently accept it as the same bytes
pub fn b64url_spare_bits_set(bytes: &[u8]) -> String {
    let mut s = b64url(bytes).into_bytes();
    let spare = match bytes.len() % 3 {
        1 => 4,
        2 => 2,
        _ => 0,
    };
    if spare > 0 {
        if let Some(last) = s.last_mut() {
            if let Some(v) = B64URL.iter().position(|c| c == last) {
                *last = B64URL[v | ((1 << spare) - 1)];
            }
        }
    }
    String::from_utf8(s).unwrap_or_default()
}

pub fn b64url_padded(data: &[u8]) -> String {
    b64_with(B64URL, data, true)
}
pub fn b64std(data: &[u8]) -> String {
    b64_with(B64STD, data, false)
}
pub fn b64std_padded(data: &[u8]) -> String {
    b64_with(B64STD, data, true)
}

fn b64_decode_with(alpha: &[u8; 64], s: &str) -> Option<Vec<u8>> {
    let s = s.trim_end_matches('=');
    let mut out = Vec::with_capacity(s.len() * 3 / 4);
    let mut acc: u32 = 0;
    let mut bits = 0;
    for c in s.bytes() {
        let v = alpha.iter().position(|a| *a == c)? as u32;
        acc = (acc << 6) | v;
        bits += 6;
        if bits >= 8 {
            bits -= 8;
            out.push(((acc >> bits) & 0xff) as u8);
        }
    }
    if s.len() % 4 == 1 {
        return None;
    }
    Some(out)
}

/// Lenient decoder used by the *scanner* (C06): accepts either alphabet, ignores trailing bits.
pub fn b64_decode_any(s: &str) -> Option<Vec<u8>> {
    b64_decode_with(B64URL, s).or_else(|| b64_decode_with(B64STD, s))
}
pub fn b64url_decode(s: &str) -> Option<Vec<u8>> {
    b64_decode_with(B64URL, s)
}

pub fn hex(b: &[u8]) -> String {
    crate::report::hex(b)
}

/// Verify an ECDSA P-256 / SHA-256 signature (DER) under the uncompressed point x||y.
pub fn verify_es256_der(x: &[u8], y: &[u8], msg: &[u8], sig_der: &[u8]) -> Result<(), String> {
    let vk = verifying_key(x, y)?;
    let sig = Signature::from_der(sig_der).map_err(|e| format!("signature is not DER: {e}"))?;
    vk.verify(msg, &sig).map_err(|e| format!("signature does not verify: {e}"))
}

/// Accepts DER or the fixed 64-byte r||s form.
pub fn verify_es256_any(x: &[u8], y: &[u8], msg: &[u8], sig: &[u8]) -> Result<&'static str, String> {
    let vk = verifying_key(x, y)?;
    if let Ok(s) = Signature::from_der(sig) {
        if vk.verify(msg, &s).is_ok() {
            return Ok("der");
        }
    }
    if sig.len() == 64 {
        if let Ok(s) = Signature::from_slice(sig) {
            if vk.verify(msg, &s).is_ok() {
                return Ok("raw64");
            }
        }
    }
    Err("signature verifies neither as DER nor as r||s".into())
}

pub fn verifying_key(x: &[u8], y: &[u8]) -> Result<VerifyingKey, String> {
    if x.len() != 32 || y.len() != 32 {
        return Err(format!("coordinate lengths {} / {}", x.len(), y.len()));
    }
    let mut sec1 = Vec::with_capacity(65);
    sec1.push(0x04);
    sec1.extend_from_slice(x);
    sec1.extend_from_slice(y);
    VerifyingKey::from_sec1_bytes(&sec1).map_err(|e| format!("not a P-256 point: {e}"))
}

/// d*G == (x,y)?
pub fn scalar_matches_point(d: &[u8], x: &[u8], y: &[u8]) -> Result<(), String> {
    let sk = p256::SecretKey::from_slice(d).map_err(|e| format!("stored d is not a scalar: {e}"))?;
    let pk = sk.public_key();
    use p256::elliptic_curve::sec1::ToEncodedPoint;
    let ep = pk.to_encoded_point(false);
    if ep.x().map(|v| v.as_slice()) == Some(x) && ep.y().map(|v| v.as_slice()) == Some(y) {
        Ok(())
    } else {
        Err("stored private scalar does not match the returned public point".into())
    }
}

/// Decode a DER SubjectPublicKeyInfo for P-256 into (x, y).
pub fn spki_to_xy(der: &[u8]) -> Result<(Vec<u8>, Vec<u8>), String> {
    use p256::elliptic_curve::sec1::ToEncodedPoint;
    use p256::pkcs8::DecodePublicKey;
    let pk = p256::PublicKey::from_public_key_der(der).map_err(|e| format!("SPKI does not decode: {e}"))?;
    let ep = pk.to_encoded_point(false);
    Ok((ep.x().unwrap().to_vec(), ep.y().unwrap().to_vec()))
}

// --------------------------- generic CBOR helpers ---------------------------

pub fn cbor_parse(bytes: &[u8]) -> Result<Cbor, String> {
    ciborium::de::from_reader::<Cbor, _>(bytes).map_err(|e| format!("{e:?}"))
}

pub fn cbor_ser(v: &Cbor) -> Vec<u8> {
    let mut out = Vec::new();
    ciborium::ser::into_writer(v, &mut out).expect("serialise generic value");
    out
}

pub fn cbor_map_get<'a>(v: &'a Cbor, key: &Cbor) -> Option<&'a Cbor> {
    v.as_map()?.iter().find(|(k, _)| k == key).map(|(_, v)| v)
}

pub fn cbor_int(v: &Cbor) -> Option<i128> {
    v.as_integer().map(i128::from)
}

/// COSE EC2 public key from a generic map: returns (labels, x, y) after checking kty/alg/crv.
pub fn cose_ec2_public(v: &Cbor) -> Result<(Vec<i128>, Vec<u8>, Vec<u8>), String> {
    let m = v.as_map().ok_or("COSE key is not a map")?;
    let mut labels = Vec::new();
    for (k, _) in m {
        labels.push(cbor_int(k).ok_or("non-integer COSE label")?);
    }
    let get = |l: i64| cbor_map_get(v, &Cbor::Integer(l.into()));
    if get(1).and_then(cbor_int) != Some(2) {
        return Err("kty != EC2".into());
    }
    if get(3).and_then(cbor_int) != Some(-7) {
        return Err("alg != ES256".into());
    }
    if get(-1).and_then(cbor_int) != Some(1) {
        return Err("crv != P-256".into());
    }
    let x = get(-2).and_then(|b| b.as_bytes()).ok_or("x missing")?.clone();
    let y = get(-3).and_then(|b| b.as_bytes()).ok_or("y missing")?.clone();
    Ok((labels, x, y))
}
