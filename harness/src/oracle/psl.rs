//! Reference implementation of the publicsuffix.org algorithm over the shipped
//! `public_suffix_list.dat`, parsed at run time. Independent of the compiled table.

use std::collections::HashSet;

#[derive(Clone, Debug, PartialEq, Eq)]
pub enum RuleKind {
    Normal,
    Wildcard,
    Exception,
}

#[derive(Clone, Debug)]
pub struct Rule {
    /// ASCII (punycode) form, without the `*.` / `!` marker
    pub ascii: String,
    /// as written in the file (may be Unicode), without the marker
    pub unicode: String,
    pub kind: RuleKind,
    pub line: usize,
}

pub struct RefPsl {
    pub rules: Vec<Rule>,
    normal: HashSet<String>,
    wildcard: HashSet<String>,
    exception: HashSet<String>,
}

pub fn repo_root() -> String {
    std::env::var("VDRIVE_REPO").unwrap_or_else(|_| "/repo".to_string())
}

impl RefPsl {
    pub fn load() -> Result<RefPsl, String> {
        let path = format!("{}/public-suffix/public_suffix_list.dat", repo_root());
        let text = std::fs::read_to_string(&path).map_err(|e| format!("{path}: {e}"))?;
        Ok(Self::parse(&text))
    }

    pub fn parse(text: &str) -> RefPsl {
        let mut rules = Vec::new();
        for (n, line) in text.lines().enumerate() {
            let line = line.trim();
            if line.is_empty() || line.starts_with("//") {
                continue;
            }
            let tok = line.split_whitespace().next().unwrap_or("");
            if tok.is_empty() {
                continue;
            }
            let (kind, body) = if let Some(r) = tok.strip_prefix("*.") {
                (RuleKind::Wildcard, r)
            } else if let Some(r) = tok.strip_prefix('!') {
                (RuleKind::Exception, r)
            } else {
                (RuleKind::Normal, tok)
            };
            let ascii = match idna::domain_to_ascii(body) {
                Ok(a) => a,
                Err(_) => continue,
            };
            rules.push(Rule { ascii, unicode: body.to_string(), kind, line: n + 1 });
        }
        let mut normal = HashSet::new();
        let mut wildcard = HashSet::new();
        let mut exception = HashSet::new();
        for r in &rules {
            match r.kind {
                RuleKind::Normal => normal.insert(r.ascii.clone()),
                RuleKind::Wildcard => wildcard.insert(r.ascii.clone()),
                RuleKind::Exception => exception.insert(r.ascii.clone()),
            };
        }
        RefPsl { rules, normal, wildcard, exception }
    }

    /// Byte offsets at which each label of `domain` starts.
    fn label_starts(domain: &str) -> Vec<usize> {
        let mut v = vec![0];
        for (i, b) in domain.bytes().enumerate() {
            if b == b'.' {
                v.push(i + 1);
            }
        }
        v
    }

    /// Public suffix of a canonical name (lower-case ASCII, no empty labels). Returned as a
    /// sub-slice of the input. Also returns which rule class decided ("exception", "normal",
    /// "wildcard", "default").
    pub fn public_suffix<'a>(&self, domain: &'a str) -> (&'a str, &'static str) {
        let starts = Self::label_starts(domain);
        let n = starts.len();
        // exception rules prevail over everything
        for (i, st) in starts.iter().enumerate() {
            if self.exception.contains(&domain[*st..]) {
                // remove the leftmost label of the exception rule
                return if i + 1 < n { (&domain[starts[i + 1]..], "exception") } else { ("", "exception") };
            }
        }
        // otherwise the matching rule with the most labels (smallest i)
        for (i, st) in starts.iter().enumerate() {
            let cand = &domain[*st..];
            if self.normal.contains(cand) {
                return (cand, "normal");
            }
            if i + 1 < n && self.wildcard.contains(&domain[starts[i + 1]..]) {
                return (cand, "wildcard");
            }
        }
        (&domain[starts[n - 1]..], "default")
    }

    pub fn has_empty_label(domain: &str) -> bool {
        domain.is_empty() || domain.split('.').any(|l| l.is_empty())
    }

    /// eTLD+1 of a canonical name; Err for empty labels or when the name is itself a suffix.
    pub fn etld_plus_one<'a>(&self, domain: &'a str) -> Result<&'a str, &'static str> {
        if Self::has_empty_label(domain) {
            return Err("empty-label");
        }
        let (suffix, _) = self.public_suffix(domain);
        if suffix.len() >= domain.len() {
            return Err("is-suffix");
        }
        let cut = domain.len() - suffix.len() - 1;
        let start = domain[..cut].rfind('.').map(|d| d + 1).unwrap_or(0);
        Ok(&domain[start..])
    }

    /// Is `domain` (canonical ASCII) registrable: at least one label more than its suffix.
    pub fn is_registrable(&self, domain: &str) -> bool {
        self.etld_plus_one(domain).is_ok()
    }
}
