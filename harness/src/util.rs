//! Shared builders: authenticators, clients, requests, pre-seeded passkeys.

use std::sync::Arc;

use coset::{iana, CoseKeyBuilder};
use passkey_authenticator::{extensions::HmacSecretConfig, Authenticator, CredentialIdLength, CredentialStore};
use passkey_client::Client;
use passkey_types::{
    ctap2::{self, Aaguid},
    webauthn::{self, PublicKeyCredentialDescriptor, PublicKeyCredentialParameters, PublicKeyCredentialType},
    Bytes, CredentialExtensions, Passkey, StoredHmacSecret,
};

use crate::{
    collab::{Disc, Log, RecStore, RecTld, RecUv, UvOutcome},
    rng::Rng,
};

#[derive(Clone, Copy, Debug, PartialEq, Eq, Hash)]
pub enum HmacCfg {
    None,
    UvOnly,
    WithoutUv,
}

#[derive(Clone, Copy, Debug, PartialEq, Eq, Hash)]
pub struct AuthCfg {
    pub counters: bool,
    pub id_len: Option<u8>,
    pub hmac: HmacCfg,
    pub hmac_mc: bool,
    /// the transports the authenticator is built to report: 0 = the library's default, 1 = an empty
    /// list, 2 = [usb], 3 = [internal, hybrid, ble, nfc]
    pub transports: u8,
}

impl Default for AuthCfg {
    fn default() -> Self {
        AuthCfg { counters: false, id_len: None, hmac: HmacCfg::None, hmac_mc: false, transports: 0 }
    }
}

impl AuthCfg {
    pub fn json(&self) -> serde_json::Value {
        serde_json::json!({"counters": self.counters, "id_len": self.id_len,
            "hmac": format!("{:?}", self.hmac), "hmac_mc": self.hmac_mc, "transports_config": self.transports})
    }
    pub fn expected_id_len(&self) -> usize {
        match self.id_len {
            None => 16,
            Some(n) => usize::from(n.clamp(16, 64)),
        }
    }
}

pub const AAGUID: [u8; 16] = [0xa1, 0xb2, 0xc3, 0xd4, 1, 2, 3, 4, 5, 6, 7, 8, 9, 10, 11, 12];

pub fn mk_auth<S: CredentialStore>(store: S, uv: RecUv, cfg: AuthCfg) -> Authenticator<S, RecUv> {
    let mut a = Authenticator::new(Aaguid::from(AAGUID), store, uv);
    let with_transports = |a: Authenticator<S, RecUv>| {
        use passkey_types::webauthn::AuthenticatorTransport as T;
        match cfg.transports {
            1 => a.transports(vec![]),
            2 => a.transports(vec![T::Usb]),
            3 => a.transports(vec![T::Internal, T::Hybrid, T::Ble, T::Nfc]),
            _ => a,
        }
    };
    // the transports builder is called before the setters or after them (an application may
    // configure in either order; the result must be the same authenticator)
    let builder_last = matches!(cfg.id_len, Some(l) if l % 2 == 0);
    if !builder_last {
        a = with_transports(a);
    }
    a.set_make_credentials_with_signature_counter(cfg.counters);
    if let Some(l) = cfg.id_len {
        a.set_make_credential_id_length(CredentialIdLength::from(l));
    }
    if builder_last {
        a = with_transports(a);
    }
    match cfg.hmac {
        HmacCfg::None => a,
        HmacCfg::UvOnly => {
            let c = HmacSecretConfig::new_with_uv_only();
            a.hmac_secret(if cfg.hmac_mc { c.enable_on_make_credential() } else { c })
        }
        HmacCfg::WithoutUv => {
            let c = HmacSecretConfig::new_without_uv();
            a.hmac_secret(if cfg.hmac_mc { c.enable_on_make_credential() } else { c })
        }
    }
}

pub type RClient = Client<RecStore, RecUv, RecTld>;

pub struct Rig {
    pub log: Arc<Log>,
    pub store: RecStore,
    pub uv: RecUv,
}

impl Rig {
    pub fn new(disc: Disc, uv_outcome: UvOutcome, verification_enabled: Option<bool>) -> Rig {
        let log = Log::new();
        let store = RecStore::new(log.clone(), disc);
        let uv = RecUv::new(log.clone(), uv_outcome, verification_enabled);
        Rig { log, store, uv }
    }
    pub fn ok(disc: Disc) -> Rig {
        Rig::new(disc, UvOutcome::Check { presence: true, verification: true }, Some(true))
    }
    pub fn auth(&self, cfg: AuthCfg) -> Authenticator<RecStore, RecUv> {
        mk_auth(self.store.clone(), self.uv.clone(), cfg)
    }
    pub fn client(&self, cfg: AuthCfg) -> RClient {
        Client::new_with_custom_tld_provider(self.auth(cfg), RecTld::default_list(self.log.clone()))
    }
    pub fn client_with(&self, cfg: AuthCfg, tld: RecTld, localhost: bool) -> RClient {
        Client::new_with_custom_tld_provider(self.auth(cfg), tld).allows_insecure_localhost(localhost)
    }
}

/// set by workloads that do verify signatures under Miri (C19)
pub static MIRI_REAL_KEYS: std::sync::atomic::AtomicBool = std::sync::atomic::AtomicBool::new(false);

pub fn pk_param(alg: iana::Algorithm) -> PublicKeyCredentialParameters {
    PublicKeyCredentialParameters { ty: PublicKeyCredentialType::PublicKey, alg }
}

pub fn descriptor(id: &[u8]) -> PublicKeyCredentialDescriptor {
    PublicKeyCredentialDescriptor { ty: PublicKeyCredentialType::PublicKey, id: id.to_vec().into(), transports: None }
}

pub fn descriptor_typed(id: &[u8], known_type: bool) -> PublicKeyCredentialDescriptor {
    PublicKeyCredentialDescriptor {
        ty: if known_type { PublicKeyCredentialType::PublicKey } else { PublicKeyCredentialType::Unknown },
        id: id.to_vec().into(),
        transports: None,
    }
}

pub fn mc_request(
    rp_id: &str,
    user_id: &[u8],
    cdh: &[u8],
    params: Vec<PublicKeyCredentialParameters>,
    exclude: Option<Vec<PublicKeyCredentialDescriptor>>,
    extensions: Option<ctap2::make_credential::ExtensionInputs>,
    rk: bool,
    up: bool,
    uv: bool,
) -> ctap2::make_credential::Request {
    ctap2::make_credential::Request {
        client_data_hash: cdh.to_vec().into(),
        rp: ctap2::make_credential::PublicKeyCredentialRpEntity { id: rp_id.to_string(), name: Some("rp".into()) },
        user: webauthn::PublicKeyCredentialUserEntity {
            id: user_id.to_vec().into(),
            display_name: "User".into(),
            name: "user".into(),
        },
        pub_key_cred_params: params,
        exclude_list: exclude,
        extensions,
        options: ctap2::make_credential::Options { rk, up, uv },
        pin_auth: None,
        pin_protocol: None,
    }
}

pub fn ga_request(
    rp_id: &str,
    cdh: &[u8],
    allow: Option<Vec<PublicKeyCredentialDescriptor>>,
    extensions: Option<ctap2::get_assertion::ExtensionInputs>,
    up: bool,
    uv: bool,
) -> ctap2::get_assertion::Request {
    ctap2::get_assertion::Request {
        rp_id: rp_id.to_string(),
        client_data_hash: cdh.to_vec().into(),
        allow_list: allow,
        extensions,
        options: ctap2::get_assertion::Options { rk: false, up, uv },
        pin_auth: None,
        pin_protocol: None,
    }
}

pub fn creation_options(
    rp_id: Option<&str>,
    user_id: &[u8],
    user_name: &str,
    challenge: &[u8],
    params: Vec<PublicKeyCredentialParameters>,
) -> webauthn::CredentialCreationOptions {
    webauthn::CredentialCreationOptions {
        public_key: webauthn::PublicKeyCredentialCreationOptions {
            rp: webauthn::PublicKeyCredentialRpEntity { id: rp_id.map(|s| s.to_string()), name: "RP".into() },
            user: webauthn::PublicKeyCredentialUserEntity {
                id: user_id.to_vec().into(),
                display_name: user_name.to_string(),
                name: user_name.to_string(),
            },
            challenge: challenge.to_vec().into(),
            pub_key_cred_params: params,
            timeout: None,
            exclude_credentials: None,
            authenticator_selection: None,
            hints: None,
            attestation: Default::default(),
            attestation_formats: None,
            extensions: None,
        },
    }
}

pub fn request_options(
    rp_id: Option<&str>,
    challenge: &[u8],
    allow: Option<Vec<PublicKeyCredentialDescriptor>>,
    uv: webauthn::UserVerificationRequirement,
) -> webauthn::CredentialRequestOptions {
    webauthn::CredentialRequestOptions {
        public_key: webauthn::PublicKeyCredentialRequestOptions {
            challenge: challenge.to_vec().into(),
            timeout: None,
            rp_id: rp_id.map(|s| s.to_string()),
            allow_credentials: allow,
            user_verification: uv,
            hints: None,
            attestation: Default::default(),
            attestation_formats: None,
            extensions: None,
        },
    }
}

/// A passkey with a key derived from the harness PRNG (so pre-seeded stores are reproducible).
/// Returns the passkey and its public point.
pub fn seeded_passkey(
    rng: &mut Rng,
    rp_id: &str,
    id: &[u8],
    user_handle: Option<&[u8]>,
    counter: Option<u32>,
    hmac: Option<(Vec<u8>, Option<Vec<u8>>)>,
) -> (Passkey, Vec<u8>, Vec<u8>) {
    use p256::elliptic_curve::sec1::ToEncodedPoint;
    let (x, y, d): (Vec<u8>, Vec<u8>, Vec<u8>) = if cfg!(miri) && !MIRI_REAL_KEYS.load(std::sync::atomic::Ordering::Relaxed) {
        // under Miri a scalar multiplication costs seconds: use d = 1, whose public point is the
        // P-256 base point (constants from SEC 2); only used where no signature is verified
        let _ = rng.bytes(32);
        let mut d = vec![0u8; 32];
        d[31] = 1;
        (
            crate::report::unhex("6b17d1f2e12c4247f8bce6e563a440f277037d812deb33a0f4a13945d898c296"),
            crate::report::unhex("4fe342e2fe1a7f9b8ee7eb4a7c0f9e162bce33576b315ececbb6406837bf51f5"),
            d,
        )
    } else {
        let sk = loop {
            let d = rng.bytes(32);
            if let Ok(sk) = p256::SecretKey::from_slice(&d) {
                break sk;
            }
        };
        let ep = sk.public_key().to_encoded_point(false);
        (ep.x().unwrap().to_vec(), ep.y().unwrap().to_vec(), sk.to_bytes().to_vec())
    };
    let key = CoseKeyBuilder::new_ec2_priv_key(iana::EllipticCurve::P_256, x.clone(), y.clone(), d)
        .algorithm(iana::Algorithm::ES256)
        .build();
    let pk = Passkey {
        key,
        credential_id: Bytes::from(id.to_vec()),
        rp_id: rp_id.to_string(),
        user_handle: user_handle.map(|h| Bytes::from(h.to_vec())),
        counter,
        extensions: CredentialExtensions {
            hmac_secret: hmac.map(|(a, b)| StoredHmacSecret { cred_with_uv: a, cred_without_uv: b }),
        },
    };
    (pk, x, y)
}

pub fn status_byte(sc: ctap2::StatusCode) -> u8 {
    sc.into()
}

/// StatusCode is neither Clone nor Copy: recover its byte by comparison.
pub fn status_byte_ref(sc: &ctap2::StatusCode) -> u8 {
    (0..=255u8).find(|v| &ctap2::StatusCode::from(*v) == sc).unwrap_or(0x7f)
}

pub fn url(s: &str) -> url::Url {
    url::Url::parse(s).expect("harness builds valid URLs")
}

/// `{:?}` and `{:#?}` of a value if (in this build of the library) its type implements Debug, else
/// None - decided at compile time by autoref specialisation, so the same harness source compiles
/// against builds of the library in which a type has the implementation and builds in which it has not.
pub struct MaybeDebug<'a, T>(pub &'a T);
pub trait RenderViaDebug {
    fn render(&self) -> Option<String>;
}
impl<T: std::fmt::Debug> RenderViaDebug for &MaybeDebug<'_, T> {
    fn render(&self) -> Option<String> {
        Some(format!("{:?} {:#?}", self.0, self.0))
    }
}
pub trait RenderNotAtAll {
    fn render(&self) -> Option<String>;
}
impl<T> RenderNotAtAll for MaybeDebug<'_, T> {
    fn render(&self) -> Option<String> {
        None
    }
}
#[macro_export]
macro_rules! debug_if_any {
    ($e:expr) => {{
        #[allow(unused_imports)]
        use $crate::util::{RenderNotAtAll, RenderViaDebug};
        (&&$crate::util::MaybeDebug(&$e)).render()
    }};
}
