#![allow(dead_code)]

//! C14, client-data clause, in a build where serde_json has only the features the library asks for.
//! Collected client data whose extra / unknown members hold nested JSON values in any key order is
//! parsed and serialised again: type, challenge, origin, crossOrigin first, then every other member -
//! and the members of nested values - in their original order (the text must come back byte for byte).

#[path = "../../src/report.rs"]
mod report;
#[path = "../../src/rng.rs"]
mod rng;

use passkey_types::webauthn::CollectedClientData;
use report::Report;
use rng::Rng;
use serde_json::json;

fn gen_value(rng: &mut Rng, depth: usize) -> String {
    match if depth >= 3 { rng.below(4) } else { rng.below(7) } {
        0 => rng.below(100_000).to_string(),
        1 => format!("\"{}\"", rng.ascii_label(0, 8)),
        2 => (if rng.bool() { "true" } else { "false" }).to_string(),
        3 => "null".to_string(),
        4 => {
            let n = rng.below(3);
            format!("[{}]", (0..n).map(|_| gen_value(rng, depth + 1)).collect::<Vec<_>>().join(","))
        }
        _ => gen_object(rng, depth + 1),
    }
}

fn gen_members(rng: &mut Rng, depth: usize) -> Vec<String> {
    let mut pool = vec!["zeta", "alpha", "payment", "total", "instrument", "currency", "value", "icon", "displayName", "m", "b", "Y", "a1", "nested", "k"];
    rng.shuffle(&mut pool);
    let n = rng.range(1, 5);
    pool.into_iter().take(n).map(|k| format!("\"{k}\":{}", gen_value(rng, depth))).collect()
}

fn gen_object(rng: &mut Rng, depth: usize) -> String {
    format!("{{{}}}", gen_members(rng, depth).join(","))
}

fn main() {
    let a: Vec<String> = std::env::args().collect();
    let get = |k: &str| a.iter().position(|x| x == k).and_then(|i| a.get(i + 1)).cloned();
    let tier = get("--tier").unwrap_or_else(|| "quick".into());
    let seed: u64 = get("--seed").and_then(|s| s.parse().ok()).unwrap_or(1);
    let mut rep = Report::new(
        "C14",
        &tier,
        seed,
        "client data with 1-5 extra / unknown members holding nested JSON values (objects up to three deep, arrays of objects) in seeded key orders, parsed and serialised again in a build whose serde_json features are only those the library asks for; distinct by document; non-trivial when a nested object has at least two members",
    );
    let n = if tier == "thorough" { 20_000 } else { 1_500 };
    for k in 0..n {
        let mut rng = Rng::derive(seed, "c14plain", k);
        let members = gen_members(&mut rng, 0).join(",");
        let head = "\"type\":\"webauthn.get\",\"challenge\":\"AAEC\",\"origin\":\"https://example.com\",\"crossOrigin\":false";
        let text = format!("{{{head},{members}}}");
        let case = json!({"index": k, "client_data": text});
        rep.eval();
        if members.matches(":{").count() > 0 {
            rep.nontrivial(rng::fnv_str(&text));
        }
        // route 1: the extra members are unknown to the library
        match serde_json::from_str::<CollectedClientData<()>>(&text) {
            Err(e) => rep.violate("client data with nested extra members does not parse", e.to_string(), case.clone()),
            Ok(cd) => match serde_json::to_string(&cd) {
                Err(e) => rep.violate("client data does not serialise", e.to_string(), case.clone()),
                Ok(out) => {
                    rep.count("client_data_round_trips");
                    if out != text {
                        rep.violate("client data members are not serialised as type, challenge, origin, crossOrigin, extras in original order, unknown members in original order", format!("nested members included; got {out}"), case.clone());
                    }
                }
            },
        }
        // route 2: the extra members are the caller's extra data (a JSON value)
        match serde_json::from_str::<serde_json::Value>(&format!("{{{members}}}")) {
            Err(e) => rep.violate("generated extra data is not JSON", e.to_string(), case.clone()),
            Ok(extra) => {
                let cd = CollectedClientData { ty: passkey_types::webauthn::ClientDataType::Get, challenge: "AAEC".into(), origin: "https://example.com".into(), cross_origin: None, extra_data: extra, unknown_keys: Default::default() };
                match serde_json::to_string(&cd) {
                    Err(e) => rep.violate("client data does not serialise", e.to_string(), case.clone()),
                    Ok(out) => {
                        rep.count("client_data_with_extra_value_serialised");
                        if out != text {
                            rep.violate("client data members are not serialised as type, challenge, origin, crossOrigin, extras in original order, unknown members in original order", format!("extra data given as a JSON value, nested members included; got {out}"), case);
                        }
                    }
                }
            }
        }
    }
    if rep.get("client_data_round_trips") == 0 {
        rep.inconclusive("no client data round trip was observed".into());
    }
    let mut j = rep.to_json();
    j["observations"]["build"] = json!("plain dependencies: serde_json without features of the harness's own");
    let text = serde_json::to_string_pretty(&j).unwrap();
    match get("--out") {
        Some(p) => std::fs::write(p, text).expect("write summary"),
        None => println!("{text}"),
    }
}
